// Native replay for C13-4 (overlaid at the end of crates/astria-sequencer/src/mempool/mod.rs of a scratch copy).
// Scenario = the shape of the solver's counterexample: a ready transaction must be demoted (balance dropped) while the parked pool is at its
// total limit, so ParkedTransactions::add refuses it.  Afterwards the transaction must still be accounted for: tracked, or reported as removed.
#[cfg(test)]
mod verif_replay_c13 {
    use telemetry::Metrics as _;

    use super::*;
    use crate::{
        accounts::StateWriteExt as _,
        assets::StateWriteExt as _,
        test_utils::{denom_0, denom_1, denom_3, denom_4, denom_5, dummy_balances, dummy_tx_costs, Fixture, ALICE, ALICE_ADDRESS_BYTES, BOB, BOB_ADDRESS_BYTES},
    };

    #[tokio::test]
    async fn verif_replay_c13_demotion_into_full_parked() {
        let mut fixture = Fixture::default_initialized().await;
        let metrics = Box::leak(Box::new(crate::Metrics::noop_metrics(&()).unwrap()));
        let mempool = Mempool::new(metrics, 1, 100);

        // bob: one parked transaction (nonce gap) -> the parked pool is at its total limit of 1
        let bob_tx = fixture.checked_tx_builder().with_signer(BOB.clone()).with_nonce(5).build().await;
        mempool.insert(bob_tx.clone(), 0, &dummy_balances(100, 0), dummy_tx_costs(1, 0, 0)).await.unwrap();
        // alice: one ready transaction
        let alice_tx = fixture.checked_tx_builder().with_signer(ALICE.clone()).with_nonce(1).build().await;
        mempool.insert(alice_tx.clone(), 1, &dummy_balances(10, 0), dummy_tx_costs(1, 0, 0)).await.unwrap();
        let before = mempool.transaction_status(alice_tx.id()).await;

        // chain state shown to maintenance: alice's balance no longer covers the cost
        for d in [denom_0(), denom_1(), denom_3(), denom_4(), denom_5()] {
            fixture.state_mut().put_ibc_asset(d.unwrap_trace_prefixed()).unwrap();
        }
        fixture.state_mut().put_account_nonce(&*ALICE_ADDRESS_BYTES, 1).unwrap();
        fixture.state_mut().put_account_nonce(&*BOB_ADDRESS_BYTES, 0).unwrap();
        fixture.state_mut().put_account_balance(&*ALICE_ADDRESS_BYTES, &denom_0(), 0).unwrap();
        fixture.state_mut().put_account_balance(&*BOB_ADDRESS_BYTES, &denom_0(), 100).unwrap();

        mempool.run_maintenance(fixture.state(), false, HashMap::new(), 0).await;

        let name = |s: &Option<TransactionStatus>| match s {
            None => "unknown",
            Some(TransactionStatus::Pending) => "pending",
            Some(TransactionStatus::Parked) => "parked",
            Some(TransactionStatus::Removed(_)) => "removed-with-reason",
        };
        let after = mempool.transaction_status(alice_tx.id()).await;
        let bob_after = mempool.transaction_status(bob_tx.id()).await;
        println!(
            "VERIF: {{\"before\": \"{}\", \"after\": \"{}\", \"tracked\": {}, \"bob_after\": \"{}\"}}",
            name(&before), name(&after), mempool.is_tracked(alice_tx.id()).await, name(&bob_after)
        );
    }
}
