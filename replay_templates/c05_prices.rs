// Native demonstration for C05-3 / finding F9 (overlaid at the end of crates/astria-sequencer/src/app/tests_app/mod.rs of a scratch copy).
// Two identically initialised nodes decide the same block (height H+1): it carries an extended commit with an oracle price for ETH/USD and a
// sudo transaction that removes the ETH/USD currency pair.
//   node A (validator): ProcessProposal (executes the block, result cached) -> FinalizeBlock (reuses the cached execution, THEN applies prices)
//   node B (syncing)  : FinalizeBlock only (applies prices, THEN executes the block)
#[cfg(test)]
mod verif_replay_c05 {
    use astria_core::{
        oracles::price_feed::market_map::v2::{Market, MarketMap, Ticker},
        protocol::transaction::v1::action::CurrencyPairsChange,
        sequencerblock::v1::DataItem,
    };
    use tendermint::abci::types::VoteInfo;

    use super::*;
    use crate::{
        accounts::StateWriteExt as _,
        oracles::price_feed::market_map::state_ext::StateWriteExt as _,
        test_utils::{nria, ALICE, ALICE_ADDRESS_BYTES, SUDO, SUDO_ADDRESS_BYTES},
    };

    async fn node() -> (Fixture, Height) {
        let mut fixture = Fixture::uninitialized(None).await;
        fixture.chain_initializer().with_genesis_validators(vec![(ALICE.verification_key(), 100)]).init().await;
        let height = fixture.run_until_blackburn_applied().await;
        let pair: CurrencyPair = "ETH/USD".parse().unwrap();
        let id = CurrencyPairId::new(0);
        fixture.state_mut().put_currency_pair_state(pair.clone(), CurrencyPairState { price: None, nonce: CurrencyPairNonce::new(0), id }).unwrap();
        fixture.state_mut().put_num_currency_pairs(1).unwrap();
        fixture.state_mut().put_next_currency_pair_id(CurrencyPairId::new(1)).unwrap();
        let mut market_map = MarketMap { markets: indexmap::IndexMap::new() };
        market_map.markets.insert(pair.to_string(), Market {
            ticker: Ticker { currency_pair: pair, decimals: 0, min_provider_count: 0, enabled: true, metadata_json: String::new() },
            provider_configs: Vec::new(),
        });
        fixture.state_mut().put_market_map(market_map).unwrap();
        fixture.state_mut().put_account_balance(&*SUDO_ADDRESS_BYTES, &nria(), 1_000_000_000).unwrap();
        fixture.app.prepare_commit(fixture.storage(), Vec::new()).await.unwrap();
        fixture.app.commit(fixture.storage()).await.unwrap();
        (fixture, height)
    }

    async fn block(fixture: &Fixture, height: Height) -> (Vec<Bytes>, CommitInfo) {
        let pair: CurrencyPair = "ETH/USD".parse().unwrap();
        let id = CurrencyPairId::new(0);
        let mut prices = std::collections::BTreeMap::new();
        let _ = prices.insert(id.get(), Price::new(10000i128).get().to_be_bytes().to_vec().into());
        let extension_bytes = RawOracleVoteExtension { prices }.encode_to_vec();
        let message_to_sign = CanonicalVoteExtension {
            extension: extension_bytes.clone(),
            height: i64::try_from(height.value()).unwrap(),
            round: 1,
            chain_id: "test".to_string(),
        }
        .encode_length_delimited_to_vec();
        let validator = Validator { address: *ALICE_ADDRESS_BYTES, power: 100u32.into() };
        let vote = ExtendedVoteInfo {
            validator: validator.clone(),
            sig_info: BlockSignatureInfo::Flag(BlockIdFlag::Commit),
            vote_extension: extension_bytes.into(),
            extension_signature: Some(ALICE.sign(&message_to_sign).to_bytes().to_vec().try_into().unwrap()),
        };
        let extended_commit_info = ExtendedCommitInfoWithCurrencyPairMapping {
            extended_commit_info: ExtendedCommitInfo { round: 1u16.into(), votes: vec![vote] },
            id_to_currency_pair: indexmap::indexmap! { id => CurrencyPairInfo { currency_pair: pair.clone(), decimals: 0 } },
        };
        let encoded_extended_commit_info = DataItem::ExtendedCommitInfo(extended_commit_info.into_raw().encode_to_vec().into()).encode();
        let removal = CurrencyPairsChange::Removal(std::iter::once(pair).collect());
        let tx = fixture.checked_tx_builder().with_action(removal).with_signer(SUDO.clone()).build().await;
        let commitments = generate_rollup_datas_commitment::<true>(std::slice::from_ref(&tx), HashMap::new());
        let txs: Vec<Bytes> = commitments
            .into_iter()
            .chain(std::iter::once(encoded_extended_commit_info))
            .chain(std::iter::once(tx.encoded_bytes().clone()))
            .collect();
        let last_commit = CommitInfo { round: 1u16.into(), votes: vec![VoteInfo { validator, sig_info: BlockSignatureInfo::Flag(BlockIdFlag::Commit) }] };
        (txs, last_commit)
    }

    fn show<T>(r: &Result<T, astria_eyre::eyre::Report>) -> String {
        match r {
            Ok(_) => "ok".to_string(),
            Err(e) => format!("{e:#}").replace('"', "'").replace('\n', " "),
        }
    }

    #[tokio::test]
    async fn verif_replay_c05_prices_and_pair_removal_in_one_block() {
        let (mut a, height) = node().await;
        let (mut b, height_b) = node().await;
        assert_eq!(height, height_b);
        let (txs, last_commit) = block(&a, height).await;
        let time = Time::from_unix_timestamp(1_744_036_800, 0).unwrap();
        let proposer_address: account::Id = [99u8; 20].to_vec().try_into().unwrap();
        let hash = Hash::Sha256([7u8; 32]);
        let process = ProcessProposal {
            hash, height: height.increment(), time, next_validators_hash: Hash::default(), proposer_address,
            txs: txs.clone(), proposed_last_commit: Some(last_commit.clone()), misbehavior: vec![],
        };
        let finalize = abci::request::FinalizeBlock {
            hash, height: height.increment(), time, next_validators_hash: Hash::default(), proposer_address,
            txs, decided_last_commit: last_commit, misbehavior: vec![],
        };
        let a_process = a.app.process_proposal(process, a.storage()).await;
        let a_finalize = a.app.finalize_block(finalize.clone(), a.storage()).await;
        let b_finalize = b.app.finalize_block(finalize, b.storage()).await;
        let hash_of = |r: &Result<abci::response::FinalizeBlock, astria_eyre::eyre::Report>| r.as_ref().map(|x| hex::encode(x.app_hash.as_bytes())).unwrap_or_default();
        println!(
            "VERIF: {{\"a_process\": \"{}\", \"a_finalize\": \"{}\", \"b_finalize\": \"{}\", \"a_app_hash\": \"{}\", \"b_app_hash\": \"{}\"}}",
            show(&a_process), show(&a_finalize), show(&b_finalize), hash_of(&a_finalize), hash_of(&b_finalize)
        );
    }
}
