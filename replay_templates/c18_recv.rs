// Native replay for C18-4 (overlaid at the end of crates/astria-sequencer/src/ibc/ics20_transfer.rs of a scratch copy).
// Scenario = the shape of the solver's counterexample: a returning (source-zone) asset sent to a bridge account whose escrow holds
// ESCROW < AMOUNT, so that receive_tokens fails after the deposit has been recorded.
#[cfg(test)]
mod verif_replay_c18 {
    use astria_core::{
        primitive::v1::{asset::Denom, RollupId, TransactionId},
        protocol::memos::v1::Ics20TransferDeposit,
    };
    use cnidarium::StateDelta;
    use ibc_types::core::channel::{msgs::MsgRecvPacket, packet::Sequence, Packet, TimeoutHeight};
    use ibc_types::timestamp::Timestamp;
    use penumbra_ibc::component::app_handler::AppHandlerExecute as _;
    use penumbra_proto::core::component::ibc::v1::FungibleTokenPacketData;

    use super::Ics20Transfer;
    use crate::{
        accounts::StateReadExt as _,
        address::StateWriteExt as _,
        test_utils::{astria_address, nria, ASTRIA_COMPAT_PREFIX, ASTRIA_PREFIX},
        bridge::{StateReadExt as _, StateWriteExt as _},
        ibc::{StateReadExt as _, StateWriteExt as _},
    };

    fn packet() -> Packet {
        Packet {
            sequence: Sequence(0),
            port_on_a: "source_port".to_string().parse().unwrap(),
            chan_on_a: "source_channel".to_string().parse().unwrap(),
            port_on_b: "dest_port".to_string().parse().unwrap(),
            chan_on_b: "dest_channel".to_string().parse().unwrap(),
            data: Vec::new(),
            timeout_height_on_b: TimeoutHeight::Never,
            timeout_timestamp_on_b: Timestamp { time: None },
        }
    }

    #[tokio::test]
    async fn verif_replay_c18_failed_receive() {
        const AMOUNT: u128 = VERIF_AMOUNT;
        const ESCROW: u128 = VERIF_ESCROW;
        let storage = cnidarium::TempStorage::new().await.unwrap();
        let snapshot = storage.latest_snapshot();
        let mut state_tx = StateDelta::new(snapshot.clone());
        let bridge_address = astria_address(&[99; 20]);
        let rollup_id = RollupId::from_unhashed_bytes(b"testchainid");
        state_tx.put_base_prefix(ASTRIA_PREFIX.to_string()).unwrap();
        state_tx.put_ibc_compat_prefix(ASTRIA_COMPAT_PREFIX.to_string()).unwrap();
        state_tx.ephemeral_put_ibc_context(TransactionId::new([0; 32]), 0);
        state_tx.put_bridge_account_rollup_id(&bridge_address, rollup_id).unwrap();
        state_tx.put_bridge_account_ibc_asset(&bridge_address, nria()).unwrap();
        state_tx.put_ibc_channel_balance(&packet().chan_on_b, &nria(), ESCROW).unwrap();
        let source_asset = format!("{}/{}/{}", packet().port_on_a, packet().chan_on_a, nria()).parse::<Denom>().unwrap();
        let packet_data = FungibleTokenPacketData {
            denom: source_asset.to_string(),
            sender: String::new(),
            amount: AMOUNT.to_string(),
            receiver: bridge_address.to_string(),
            memo: serde_json::to_string(&Ics20TransferDeposit { rollup_deposit_address: "rollupaddress".to_string() }).unwrap(),
        };
        let msg = MsgRecvPacket {
            packet: Packet { data: serde_json::to_vec(&packet_data).unwrap(), ..packet() },
            proof_commitment_on_a: ibc_types::core::commitment::MerkleProof { proofs: vec![] },
            proof_height_on_a: ibc_types::core::client::Height { revision_number: 0, revision_height: 1 },
            signer: String::new(),
        };
        let r = Ics20Transfer::recv_packet_execute(&mut state_tx, &msg).await;
        let deposits: usize = state_tx.get_cached_block_deposits().values().map(Vec::len).sum();
        let balance = state_tx.get_account_balance(&bridge_address, &nria()).await.unwrap();
        let escrow = state_tx.get_ibc_channel_balance(&packet().chan_on_b, &nria()).await.unwrap();
        println!(
            "VERIF: {{\"handler_ok\": {}, \"deposits\": {}, \"balance\": \"{}\", \"escrow\": \"{}\"}}",
            r.is_ok(), deposits, balance, escrow
        );
    }
}
