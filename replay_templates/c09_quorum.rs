// Native replay for C09-2 (overlaid at the end of crates/astria-conductor/src/celestia/block_verifier.rs of a scratch copy):
// real ed25519 keys; POWERS = voting power per validator; VOTES = per commit signature (kind, validator index, signed message):
// kind 0 absent / 1 vote for the block / 2 vote for nil; signed message 0 something else / 1 the precommit for THIS block / 2 the precommit for nil.
#[cfg(test)]
mod verif_replay_c09 {
    use sequencer_client::{
        tendermint::{self, block::CommitSig, validator},
        tendermint_proto,
        tendermint_rpc::endpoint::validators,
    };
    use prost::Message as _;

    use super::ensure_commit_has_quorum;

    #[test]
    fn verif_replay_c09() {
        let powers: Vec<u64> = vec![VERIF_POWERS];
        let votes: Vec<(u8, usize, u8)> = vec![VERIF_VOTES];
        let chain_id: tendermint::chain::Id = "test-chain".parse().unwrap();
        let height = 5u32;
        let keys: Vec<astria_core::crypto::SigningKey> = (0..powers.len()).map(|i| astria_core::crypto::SigningKey::from([i as u8 + 1; 32])).collect();
        let infos: Vec<validator::Info> = keys
            .iter()
            .zip(&powers)
            .map(|(k, p)| {
                let pub_key = tendermint::public_key::PublicKey::from_raw_ed25519(k.verification_key().as_ref()).unwrap();
                validator::Info {
                    address: tendermint::account::Id::from(pub_key),
                    pub_key,
                    power: tendermint::vote::Power::try_from(*p).unwrap(),
                    proposer_priority: 0.into(),
                    name: None,
                }
            })
            .collect();
        let timestamp = tendermint::Time::unix_epoch();
        let block_id = tendermint::block::Id {
            hash: tendermint::Hash::Sha256([7u8; 32]),
            part_set_header: tendermint::block::parts::Header::new(1, tendermint::Hash::Sha256([8u8; 32])).unwrap(),
        };
        let message_for = |block_id: Option<tendermint::block::Id>| {
            let canonical_vote = tendermint::vote::CanonicalVote {
                vote_type: tendermint::vote::Type::Precommit,
                height: height.into(),
                round: 0u16.into(),
                block_id,
                timestamp: Some(timestamp),
                chain_id: chain_id.clone(),
            };
            tendermint_proto::types::CanonicalVote::from(canonical_vote).encode_length_delimited_to_vec()
        };
        let block_message = message_for(Some(block_id));
        let nil_message = message_for(None);
        let signatures: Vec<CommitSig> = votes
            .iter()
            .map(|(kind, j, signed)| {
                let msg: Vec<u8> = match signed { 1 => block_message.clone(), 2 => nil_message.clone(), _ => b"some other message".to_vec() };
                let signature = Some(keys[*j].sign(&msg).to_bytes().as_ref().try_into().unwrap());
                match kind {
                    1 => CommitSig::BlockIdFlagCommit { validator_address: infos[*j].address, timestamp, signature },
                    2 => CommitSig::BlockIdFlagNil { validator_address: infos[*j].address, timestamp, signature },
                    _ => CommitSig::BlockIdFlagAbsent,
                }
            })
            .collect();
        let commit = tendermint::block::Commit {
            height: height.into(),
            round: 0u16.into(),
            block_id,
            signatures,
        };
        let total = i32::try_from(infos.len()).unwrap();
        let set = validators::Response::new(height.into(), infos, total);
        let r = ensure_commit_has_quorum(&commit, &set, &chain_id);
        println!("VERIF: {{\"accepted\": {}, \"detail\": \"{}\"}}", r.is_ok(), r.err().map(|e| e.to_string().replace('"', "'")).unwrap_or_default());
    }
}
