// Native replay for C09-2 (overlaid at the end of crates/astria-conductor/src/celestia/block_verifier.rs of a scratch copy):
// real ed25519 keys; POWERS = voting power per validator; VOTES = per commit signature: None (absent) or Some((validator index, signature valid?)).
#[cfg(test)]
mod verif_replay_c09 {
    use sequencer_client::{
        tendermint::{self, block::CommitSig, validator},
        tendermint_proto,
        tendermint_rpc::endpoint::validators,
    };
    use prost::Message as _;

    use super::ensure_commit_has_quorum;

    #[test]
    fn verif_replay_c09() {
        let powers: Vec<u64> = vec![VERIF_POWERS];
        let votes: Vec<Option<(usize, bool)>> = vec![VERIF_VOTES];
        let chain_id: tendermint::chain::Id = "test-chain".parse().unwrap();
        let height = 5u32;
        let keys: Vec<astria_core::crypto::SigningKey> = (0..powers.len()).map(|i| astria_core::crypto::SigningKey::from([i as u8 + 1; 32])).collect();
        let infos: Vec<validator::Info> = keys
            .iter()
            .zip(&powers)
            .map(|(k, p)| {
                let pub_key = tendermint::public_key::PublicKey::from_raw_ed25519(k.verification_key().as_ref()).unwrap();
                validator::Info {
                    address: tendermint::account::Id::from(pub_key),
                    pub_key,
                    power: tendermint::vote::Power::try_from(*p).unwrap(),
                    proposer_priority: 0.into(),
                    name: None,
                }
            })
            .collect();
        let timestamp = tendermint::Time::unix_epoch();
        let canonical_vote = tendermint::vote::CanonicalVote {
            vote_type: tendermint::vote::Type::Precommit,
            height: height.into(),
            round: 0u16.into(),
            block_id: None,
            timestamp: Some(timestamp),
            chain_id: chain_id.clone(),
        };
        let message = tendermint_proto::types::CanonicalVote::from(canonical_vote).encode_length_delimited_to_vec();
        let signatures: Vec<CommitSig> = votes
            .iter()
            .map(|v| match v {
                None => CommitSig::BlockIdFlagAbsent,
                Some((j, valid)) => {
                    let msg: Vec<u8> = if *valid { message.clone() } else { b"some other message".to_vec() };
                    let signature = keys[*j].sign(&msg);
                    CommitSig::BlockIdFlagCommit {
                        validator_address: infos[*j].address,
                        timestamp,
                        signature: Some(signature.to_bytes().as_ref().try_into().unwrap()),
                    }
                }
            })
            .collect();
        let commit = tendermint::block::Commit {
            height: height.into(),
            round: 0u16.into(),
            signatures,
            ..Default::default()
        };
        let total = i32::try_from(infos.len()).unwrap();
        let set = validators::Response::new(height.into(), infos, total);
        let r = ensure_commit_has_quorum(&commit, &set, &chain_id);
        println!("VERIF: {{\"accepted\": {}, \"detail\": \"{}\"}}", r.is_ok(), r.err().map(|e| e.to_string().replace('"', "'")).unwrap_or_default());
    }
}
