// Native demonstration for C14-2 / finding F8 (overlaid at the end of crates/astria-sequencer/src/checked_actions/validator_update.rs).
// One block: sudo adds a brand-new validator V (power 7), then removes it (power 0).  The application's stored set does not contain V afterwards,
// but the block's validator-update set handed to CometBFT contains {V: power 0}: a removal of a validator CometBFT never had.
#[cfg(test)]
mod verif_replay_c14 {
    use astria_core::{crypto::VerificationKey, protocol::transaction::v1::action::ValidatorUpdate};

    use super::*;
    use crate::{
        authority::StateReadExt as _,
        test_utils::{Fixture, SUDO_ADDRESS_BYTES},
    };

    #[tokio::test]
    async fn verif_replay_c14_add_then_remove_new_validator() {
        let mut fixture = Fixture::default_initialized().await;
        let key = VerificationKey::try_from([10u8; 32]).unwrap();
        let known_before = fixture.state().get_validator(&key).await.unwrap().is_some();
        let add = ValidatorUpdate { power: 7, verification_key: key.clone(), name: "v".parse().unwrap() };
        let remove = ValidatorUpdate { power: 0, verification_key: key.clone(), name: "v".parse().unwrap() };
        let a: CheckedValidatorUpdate = fixture.new_checked_action(add, *SUDO_ADDRESS_BYTES).await.unwrap().into();
        a.execute(fixture.state_mut()).await.unwrap();
        let r: CheckedValidatorUpdate = fixture.new_checked_action(remove, *SUDO_ADDRESS_BYTES).await.unwrap().into();
        r.execute(fixture.state_mut()).await.unwrap();
        let stored_after = fixture.state().get_validator(&key).await.unwrap().is_some();
        let updates = fixture.state().get_block_validator_updates().await.unwrap();
        let entry = updates.get(&key).map(|u| i64::from(u.power));   // ValidatorSet::get by address
        println!(
            "VERIF: {{\"known_before\": {}, \"stored_after\": {}, \"update_entry_power\": {}}}",
            known_before, stored_after, entry.map_or("null".to_string(), |p| p.to_string())
        );
    }
}
