// Native demonstration for C14-4c / finding F11 (overlaid at the end of crates/astria-sequencer/src/checked_actions/validator_update.rs).
// Pre-Aspen code path, block-start set {ALICE, BOB}: one block carries two ValidatorUpdates, each removing one of the two validators.  Both pass their
// checks (each is compared with the block-start set, which is only rewritten in end_block), and end_block then stores an EMPTY validator set while the
// block's update set tells CometBFT to remove both validators.
#[cfg(test)]
mod verif_replay_c14_pre_aspen {
    use astria_core::protocol::transaction::v1::action::ValidatorUpdate;

    use super::*;
    use crate::{
        authority::StateReadExt as _,
        test_utils::{Fixture, ALICE, BOB, SUDO_ADDRESS_BYTES},
    };

    #[tokio::test]
    async fn verif_replay_c14_pre_aspen_two_removals_empty_the_set() {
        let mut fixture = Fixture::uninitialized(None).await;
        fixture
            .chain_initializer()
            .with_genesis_validators([(ALICE.verification_key(), 100), (BOB.verification_key(), 100)])
            .init()
            .await;
        let pre_aspen = use_pre_aspen_validator_updates(fixture.state()).await.unwrap();
        let before = fixture.state().pre_aspen_get_validator_set().await.unwrap().len();
        let rm = |key| ValidatorUpdate { power: 0, verification_key: key, name: "v".parse().unwrap() };
        let a: CheckedValidatorUpdate = fixture.new_checked_action(rm(ALICE.verification_key()), *SUDO_ADDRESS_BYTES).await.unwrap().into();
        let b: CheckedValidatorUpdate = fixture.new_checked_action(rm(BOB.verification_key()), *SUDO_ADDRESS_BYTES).await.unwrap().into();
        let first_ok = a.execute(fixture.state_mut()).await.is_ok();
        let second_ok = b.execute(fixture.state_mut()).await.is_ok();
        let removals = fixture.state().get_block_validator_updates().await.unwrap().updates().filter(|u| u.power == 0).count();
        fixture.app.authority_component_end_block().await;
        let after = fixture.state().pre_aspen_get_validator_set().await.unwrap().len();
        println!(
            "VERIF: {{\"pre_aspen\": {}, \"set_before\": {}, \"first_ok\": {}, \"second_ok\": {}, \"removals_sent\": {}, \"set_after\": {}}}",
            pre_aspen, before, first_ok, second_ok, removals, after
        );
    }
}
