// Native demonstration for C06-9 / finding F12 (overlaid at the end of crates/astria-core/src/sequencerblock/v1/block/mod.rs).
// What PrepareProposal places in the block when the real extended commit info does not fit (`DataItem::ExtendedCommitInfo(Bytes::new())`) is fed to the
// parser every validator's ProcessProposal uses (`ExpandedBlockData::new_from_typed_data(.., with_extended_commit_info = true)`).
#[cfg(test)]
mod verif_replay_c06_eci {
    use bytes::Bytes;

    use super::*;

    #[test]
    fn verif_replay_c06_empty_extended_commit_info_item() {
        let data = vec![
            DataItem::RollupTransactionsRoot([0u8; 32]).encode(),
            DataItem::RollupIdsRoot([0u8; 32]).encode(),
            DataItem::ExtendedCommitInfo(Bytes::new()).encode(),
        ];
        let r = ExpandedBlockData::new_from_typed_data(&data, true);
        // for comparison: a well-formed commit info with no votes (what the other fallback of PrepareProposal uses)
        use prost::Message as _;
        let well_formed = crate::protocol::price_feed::v1::ExtendedCommitInfoWithCurrencyPairMapping::empty(0u16.into())
            .into_raw()
            .encode_to_vec();
        let data2 = vec![
            DataItem::RollupTransactionsRoot([0u8; 32]).encode(),
            DataItem::RollupIdsRoot([0u8; 32]).encode(),
            DataItem::ExtendedCommitInfo(well_formed.into()).encode(),
        ];
        let r2 = ExpandedBlockData::new_from_typed_data(&data2, true);
        println!(
            "VERIF: {{\"parsed\": {}, \"error\": \"{}\", \"well_formed_empty_parsed\": {}}}",
            r.is_ok(),
            r.err().map(|e| format!("{e:#}").replace('"', "'")).unwrap_or_default(),
            r2.is_ok()
        );
    }
}
