// Native demonstration for C01-2 / finding F7 (overlaid at the end of crates/astria-sequencer/src/checked_actions/utils.rs).
// Configured fee for BridgeLock: base = u128::MAX - 1, multiplier = 2.  The formula base + multiplier * variable component exceeds u128::MAX for
// every BridgeLock (variable component >= 1); fee() returns u128::MAX (saturated) instead of failing or charging the configured amount.
#[cfg(test)]
mod verif_replay_c01 {
    use astria_core::protocol::fees::v1::FeeComponents;
    use astria_core::protocol::transaction::v1::action::BridgeLock;

    use super::*;
    use crate::{
        fees::{FeeHandler as _, StateWriteExt as _},
        test_utils::{dummy_bridge_lock, Fixture},
    };

    #[tokio::test]
    async fn verif_replay_c01_fee_saturates() {
        let mut fixture = Fixture::default_initialized().await;
        let base = u128::MAX - 1;
        let multiplier = 2u128;
        fixture.state_mut().put_fees(FeeComponents::<BridgeLock>::new(base, multiplier)).unwrap();
        let action = dummy_bridge_lock();
        let variable = action.variable_component();
        let (_, charged) = fee(&action, fixture.state()).await.unwrap().unwrap();
        let exact = multiplier.checked_mul(variable).and_then(|v| v.checked_add(base));
        println!(
            "VERIF: {{\"base\": \"{base}\", \"multiplier\": \"{multiplier}\", \"variable_component\": \"{variable}\", \"charged\": \"{charged}\", \"formula_fits_u128\": {}}}",
            exact.is_some()
        );
    }
}
