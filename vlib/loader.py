"""Builds a mirsym engine from the (cached, regenerated-on-change) MIR + ADT dumps of the crates a property touches."""
import json, os, sys, time
sys.path.insert(0, os.path.dirname(os.path.dirname(os.path.abspath(__file__))))
from mirsym import mir, engine
from vlib import snap

_FN_CACHE = {}


def load(crates, scalar_types=None, hooks=None, primary=None, dep_adts=(), **kw):
    """crates: list, first is the crate under analysis (its functions win name clashes)"""
    t0 = time.time()
    dumps = snap.get_dumps(crates)
    fns = {}
    adts = engine.Adts()
    for c in crates:
        key = dumps[c]['mir']
        if key not in _FN_CACHE:
            _FN_CACHE[key] = mir.load_functions(dumps[c]['mir'], c)
        pref = '' if c == crates[0] else c.replace('-', '_') + '::'
        for n, f in _FN_CACHE[key].items():
            if pref:
                g = mir.Fn(pref + n, f.sig, f.ret, f.crate); g.lines = f.lines
                fns.setdefault(pref + n, g)
            else:
                fns.setdefault(n, f)
        adts.add(json.load(open(dumps[c]['adt'])))
    for c, pth in snap.get_dep_adts(list(dep_adts)).items():
        adts.add(json.load(open(pth)))
    impls = mir.ImplIndex(snap.REPO)
    ex = engine.Engine(fns, adts, impls, scalar_types=scalar_types, hooks=hooks, **kw)
    ex.crate_prefixes = {c: c.replace('-', '_') + '::' for c in crates[1:]}
    ex.primary_crate = crates[0]
    ex.dumps = dumps
    ex.load_s = time.time() - t0
    return ex
