"""Snapshot of /repo's working tree + cached MIR / rustdoc-JSON dumps (regenerated whenever the tree changes)."""
import fcntl, hashlib, json, os, shutil, subprocess, sys, time

VERIF = os.path.dirname(os.path.dirname(os.path.abspath(__file__)))
REPO = os.environ.get('VERIF_REPO', '/repo')
WORK = os.environ.get('VERIF_WORK', '/var/tmp/astria-verif')
SNAP = os.path.join(WORK, 'snap')
CACHE = os.path.join(VERIF, '.cache')
NIGHTLY_TARGET = os.path.join(CACHE, 'nightly-target')
KANI_TARGET = os.path.join(CACHE, 'kani-target')
REPLAY_TARGET = os.path.join(CACHE, 'replay-target')
MIR_CACHE = os.path.join(CACHE, 'mir')
ETHNUM = os.path.join(VERIF, 'vendor', 'ethnum-1.5.1-patched')
EXCLUDE_TOP = {'target', '.git', 'charts', 'dev', 'specs', 'system-tests', 'audits', 'containerfiles'}


def log(*a):
    print('[verif]', *a, file=sys.stderr, flush=True)


def tree_hash():
    h = hashlib.sha256()
    for top in sorted(os.listdir(REPO)):
        if top in EXCLUDE_TOP:
            continue
        p = os.path.join(REPO, top)
        if os.path.isfile(p):
            files = [p]
        else:
            files = []
            for d, dn, fn in os.walk(p):
                dn[:] = sorted(x for x in dn if x != 'target')
                files += [os.path.join(d, f) for f in sorted(fn)]
        for f in files:
            if os.path.islink(f) or not os.path.isfile(f):
                continue
            h.update(os.path.relpath(f, REPO).encode() + b'\0')
            with open(f, 'rb') as fh:
                h.update(hashlib.sha256(fh.read()).digest())
    return h.hexdigest()[:24]


class Lock:
    def __init__(self, name='lock'):
        os.makedirs(WORK, exist_ok=True)
        self.path = os.path.join(WORK, '.' + name)

    def __enter__(self):
        self.f = open(self.path, 'w')
        fcntl.flock(self.f, fcntl.LOCK_EX)
        return self

    def __exit__(self, *a):
        fcntl.flock(self.f, fcntl.LOCK_UN)
        self.f.close()


def write_parent_config():
    d = os.path.join(WORK, '.cargo')
    os.makedirs(d, exist_ok=True)
    cfg = '[patch.crates-io]\nethnum = { path = "%s" }\n[net]\noffline = true\n' % ETHNUM
    p = os.path.join(d, 'config.toml')
    if not os.path.exists(p) or open(p).read() != cfg:
        open(p, 'w').write(cfg)


def sync_snapshot(dest=SNAP):
    """rsync /repo's working tree (no target/.git) to the scratch snapshot; mtimes preserved so cargo stays incremental."""
    write_parent_config()
    os.makedirs(dest, exist_ok=True)
    cmd = ['rsync', '-a', '--delete'] + sum((['--exclude', '/' + x] for x in ('target', '.git')), []) + [REPO + '/', dest + '/']
    subprocess.run(cmd, check=True)
    return dest


def remove_snapshot(dest=SNAP):
    shutil.rmtree(dest, ignore_errors=True)


def cargo_env(target, toolchain=None):
    e = dict(os.environ)
    e['CARGO_TARGET_DIR'] = target
    e['CARGO_NET_OFFLINE'] = 'true'
    e.pop('RUSTFLAGS', None)
    if toolchain:
        e['RUSTUP_TOOLCHAIN'] = toolchain
    return e


CRATE_DIR = {
    'astria-sequencer': 'crates/astria-sequencer', 'astria-conductor': 'crates/astria-conductor', 'astria-core': 'crates/astria-core',
    'astria-merkle': 'crates/astria-merkle', 'astria-core-address': 'crates/astria-core-address', 'astria-core-crypto': 'crates/astria-core-crypto', 'astria-sequencer-relayer': 'crates/astria-sequencer-relayer', 'astria-composer': 'crates/astria-composer',
}


def _dump_mir(crate, out):
    lib = os.path.join(SNAP, CRATE_DIR[crate], 'src', 'lib.rs')
    os.utime(lib, None)
    t0 = time.time()
    cmd = ['cargo', 'rustc', '-p', crate, '--lib', '--profile', 'check', '--', '-Zunpretty=mir', '-C', 'debug-assertions=off', '-C', 'overflow-checks=on']
    with open(out + '.tmp', 'w') as fh, open(out + '.log', 'w') as lg:
        r = subprocess.run(cmd, cwd=SNAP, env=cargo_env(NIGHTLY_TARGET, 'nightly'), stdout=fh, stderr=lg)
    if r.returncode != 0 or os.path.getsize(out + '.tmp') == 0:
        tail = open(out + '.log').read()[-3000:]
        raise RuntimeError(f'MIR dump of {crate} failed (rc={r.returncode}):\n{tail}')
    os.rename(out + '.tmp', out)
    log(f'MIR dump {crate}: {time.time() - t0:.1f}s, {os.path.getsize(out) >> 20} MB')


def _dump_adt(crate, out):
    t0 = time.time()
    cmd = ['cargo', 'rustdoc', '-p', crate, '--lib', '--', '-Z', 'unstable-options', '--output-format', 'json', '--document-private-items']
    with open(out + '.log', 'w') as lg:
        r = subprocess.run(cmd, cwd=SNAP, env=cargo_env(NIGHTLY_TARGET, 'nightly'), stdout=lg, stderr=lg)
    src = os.path.join(NIGHTLY_TARGET, 'doc', crate.replace('-', '_') + '.json')
    if r.returncode != 0 or not os.path.exists(src):
        raise RuntimeError(f'rustdoc JSON of {crate} failed:\n' + open(out + '.log').read()[-3000:])
    adts = extract_adts(json.load(open(src)))
    json.dump(adts, open(out + '.tmp', 'w'))
    os.rename(out + '.tmp', out)
    os.remove(src)
    log(f'ADT table {crate}: {time.time() - t0:.1f}s, {len(adts)} types')


def extract_adts(doc):
    """{path-suffix name: {'kind': 'struct', 'fields': [names]} | {'kind': 'enum', 'variants': [{'name','discr','fields'}]}} keyed by item name
    and by full path when known."""
    idx, paths = doc['index'], doc.get('paths', {})
    out = {}

    def field_names(ids):
        r = []
        for i in ids:
            it = idx.get(str(i)) if i is not None else None
            r.append(it['name'] if it else None)
        return r
    for iid, it in idx.items():
        inner = it.get('inner', {})
        if it.get('crate_id', 0) != 0:
            continue
        name = it.get('name')
        full = '::'.join(paths[iid]['path']) if iid in paths else name
        if 'struct' in inner:
            k = inner['struct']['kind']
            if 'plain' in k:
                fields = field_names(k['plain']['fields'])
            elif 'tuple' in k:
                fields = [str(n) for n in range(len(k['tuple']))]
            else:
                fields = []
            rec = {'kind': 'struct', 'fields': fields, 'path': full}
        elif 'enum' in inner:
            vs = []
            for n, vid in enumerate(inner['enum']['variants']):
                v = idx[str(vid)]
                vk = v['inner']['variant']['kind']
                if isinstance(vk, dict) and 'struct' in vk:
                    f = field_names(vk['struct']['fields'])
                elif isinstance(vk, dict) and 'tuple' in vk:
                    f = [str(j) for j in range(len(vk['tuple']))]
                else:
                    f = []
                d = v['inner']['variant'].get('discriminant')
                vs.append({'name': v['name'], 'index': n, 'discr': int(d['value']) if d else None, 'fields': f})
            rec = {'kind': 'enum', 'variants': vs, 'path': full}
        else:
            continue
        out.setdefault(full, rec)
        out.setdefault(name, rec) if name not in out else out.__setitem__(name + '#ambiguous', True)
    return out


def get_dep_adts(deps):
    """ADT tables (rustdoc JSON) of third-party dependency crates, cached by Cargo.lock hash"""
    h = hashlib.sha256(open(os.path.join(REPO, 'Cargo.lock'), 'rb').read()).hexdigest()[:16]
    d = os.path.join(CACHE, 'dep-adt', h)
    os.makedirs(d, exist_ok=True)
    res = {}
    need = [c for c in deps if not os.path.exists(os.path.join(d, c + '.adt.json'))]
    if need:
        with Lock():
            sync_snapshot()
            try:
                for c in need:
                    _dump_adt(c, os.path.join(d, c + '.adt.json'))
            finally:
                remove_snapshot()
    for c in deps:
        res[c] = os.path.join(d, c + '.adt.json')
    return res


def get_dumps(crates, want_adt=True):
    """Return {crate: {'mir': path, 'adt': path, 'hash': h}}; dumps are regenerated from /repo's current tree when it changed."""
    h = tree_hash()
    d = os.path.join(MIR_CACHE, h)
    os.makedirs(d, exist_ok=True)
    res = {}
    need = []
    for c in crates:
        m, a = os.path.join(d, c + '.mir'), os.path.join(d, c + '.adt.json')
        res[c] = {'mir': m, 'adt': a, 'hash': h}
        if not os.path.exists(m) or (want_adt and not os.path.exists(a)):
            need.append(c)
    if need:
        with Lock():
            sync_snapshot()
            try:
                for c in need:
                    if not os.path.exists(res[c]['mir']):
                        _dump_mir(c, res[c]['mir'])
                    if want_adt and not os.path.exists(res[c]['adt']):
                        _dump_adt(c, res[c]['adt'])
            finally:
                remove_snapshot()
        prune_cache(keep=h)
    return res


def prune_cache(keep, max_keep=8):
    ds = sorted((os.path.getmtime(os.path.join(MIR_CACHE, x)), x) for x in os.listdir(MIR_CACHE))
    for _, x in ds[:-max_keep]:
        if x != keep:
            shutil.rmtree(os.path.join(MIR_CACHE, x), ignore_errors=True)


if __name__ == '__main__':
    t = time.time()
    print(tree_hash(), time.time() - t)
    r = get_dumps(sys.argv[1:] or ['astria-conductor'])
    print(json.dumps(r, indent=1))
