"""Native replay of solver counterexamples against the real code (repo toolchain, no patches)."""
import json, os, re, shutil, subprocess, tempfile, time
from vlib import snap

RWORK = os.environ.get('VERIF_REPLAY_WORK', '/var/tmp/astria-verif-replay')
RSNAP = os.path.join(RWORK, 'snap')
TOOLCHAIN = '1.90.0'


def extract_fn(path, name):
    """source text of `fn name` (with attributes stripped) from a Rust file, by brace matching"""
    src = open(path).read()
    m = re.search(r'^[ \t]*(pub(\([\w:\s]+\))? )?(const )?fn ' + re.escape(name) + r'\b', src, re.M)
    if not m:
        return None
    i = src.index('{', m.end())
    depth, j = 0, i
    while j < len(src):
        if src[j] == '{': depth += 1
        elif src[j] == '}':
            depth -= 1
            if depth == 0: break
        j += 1
    text = src[m.start():j + 1]
    return re.sub(r'^\s*pub(\([\w:\s]+\))? ', '', text.strip())


def run_standalone(fn_sources, main_body, prelude=''):
    """compile the given real function sources + a main() natively (dev profile: overflow checks on) and return stdout lines / panic flag"""
    d = tempfile.mkdtemp(prefix='verif-replay-', dir='/var/tmp')
    try:
        code = '#![allow(dead_code, unused)]\n' + prelude + '\n' + '\n\n'.join(fn_sources) + '\nfn main() {\n' + main_body + '\n}\n'
        open(os.path.join(d, 'm.rs'), 'w').write(code)
        env = dict(os.environ, RUSTUP_TOOLCHAIN=TOOLCHAIN)
        outs = {}
        for prof, flags in (('dev', ['-C', 'debug-assertions=on']), ('release', ['-O'])):
            exe = os.path.join(d, 'm_' + prof)
            c = subprocess.run(['rustc', '--edition', '2021'] + flags + ['-o', exe, os.path.join(d, 'm.rs')], env=env, capture_output=True, text=True)
            if c.returncode != 0:
                return {'error': 'rustc: ' + c.stderr[-1500:]}
            r = subprocess.run([exe], capture_output=True, text=True, timeout=60)
            outs[prof] = {'rc': r.returncode, 'stdout': r.stdout.strip().split('\n'), 'panicked': r.returncode == 101, 'stderr': r.stderr[-400:]}
        outs['code'] = code
        return outs
    finally:
        shutil.rmtree(d, ignore_errors=True)


def run_crate_test(crate, rel_file, module_code, test_filter, timeout=3600, extra_files=None):
    """overlay a #[cfg(test)] module onto a scratch snapshot of /repo and run it with the repository's own toolchain.
    Returns {'rc', 'lines' (VERIF: lines as json), 'passed', 'failed', 'output'}"""
    os.makedirs(RWORK, exist_ok=True)
    with snap.Lock('replay-lock'):
        snap.sync_snapshot(RSNAP) if False else _sync()
        try:
            f = os.path.join(RSNAP, rel_file)
            with open(f, 'a') as fh:
                fh.write('\n' + module_code + '\n')
            for rel, text in (extra_files or {}).items():
                p = os.path.join(RSNAP, rel); os.makedirs(os.path.dirname(p), exist_ok=True); open(p, 'w').write(text)
            env = snap.cargo_env(snap.REPLAY_TARGET, TOOLCHAIN)
            t0 = time.time()
            r = subprocess.run(['cargo', 'test', '--offline', '-p', crate, '--lib', test_filter, '--', '--nocapture', '--test-threads', '1'],
                               cwd=RSNAP, env=env, capture_output=True, text=True, timeout=timeout)
            out = r.stdout + '\n' + r.stderr
            lines = []
            for ln in out.split('\n'):
                m = re.search(r'VERIF: (\{.*\})\s*$', ln)
                if m:
                    try:
                        lines.append(json.loads(m.group(1)))
                    except ValueError:
                        pass
            return {'rc': r.returncode, 'lines': lines, 'passed': len(re.findall(r'^test .* \.\.\. ok$', out, re.M)),
                    'failed': len(re.findall(r'^test .* \.\.\. FAILED$', out, re.M)), 'output': out[-4000:], 'wall_s': round(time.time() - t0, 1)}
        finally:
            shutil.rmtree(RSNAP, ignore_errors=True)


def _sync():
    os.makedirs(RSNAP, exist_ok=True)
    cmd = ['rsync', '-a', '--delete', '--exclude', '/target', '--exclude', '/.git', snap.REPO + '/', RSNAP + '/']
    subprocess.run(cmd, check=True)
