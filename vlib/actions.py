"""Generic harness for running one checked action's `execute` over the symbolic chain state, plus the action-independent C02 claims."""
import re
import z3
from vlib import loader, build as B
from vlib.seqworld import World, initial_world, SCALARS, CELLS
from mirsym.engine import Obj, Ref, Inconclusive

LISTS = ('block_fees', 'cached_deposits', 'events', 'validator_updates')
ACTIONS = {
    'Transfer': dict(mod='checked_actions::transfer', ty='CheckedTransfer'),
    'SudoAddressChange': dict(mod='sudo_address_change', ty='CheckedSudoAddressChange'),
    'IbcSudoChange': dict(mod='ibc_sudo_change', ty='CheckedIbcSudoChange'),
    'IbcRelayerChange': dict(mod='ibc_relayer_change', ty='CheckedIbcRelayerChange'),
    'FeeAssetChange': dict(mod='fee_asset_change', ty='CheckedFeeAssetChange'),
    'FeeChange': dict(mod='fee_change', ty='CheckedFeeChange'),
    'BridgeSudoChange': dict(mod='bridge_sudo_change', ty='CheckedBridgeSudoChange'),
    'InitBridgeAccount': dict(mod='init_bridge_account', ty='CheckedInitBridgeAccount'),
    'BridgeLock': dict(mod='bridge_lock', ty='CheckedBridgeLockImpl<true>', consts={'PURE_LOCK': True}),
    'BridgeUnlock': dict(mod='bridge_unlock', ty='CheckedBridgeUnlockImpl<true>', consts={'PURE_UNLOCK': True}),
    'BridgeTransfer': dict(mod='bridge_transfer', ty='CheckedBridgeTransfer', consts={'PURE_LOCK': False, 'PURE_UNLOCK': False}),
    'ValidatorUpdate': dict(mod='validator_update', ty='CheckedValidatorUpdate'),
    'Ics20Withdrawal': dict(mod='ics20_withdrawal', ty='CheckedIcs20Withdrawal'),
    'CurrencyPairsChange': dict(mod='currency_pairs_change', ty='CheckedCurrencyPairsChange'),
    'MarketsChange': dict(mod='markets_change', ty='CheckedMarketsChange'),
    'RecoverIbcClient': dict(mod='recover_ibc_client', ty='CheckedRecoverIbcClient'),
    'IbcRelay': dict(mod='ibc_relay', ty='CheckedIbcRelay'),
}
CRATES = ['astria-sequencer', 'astria-core', 'astria-core-address']


def engine(extra_hooks=None, **kw):
    ex = loader.load(CRATES, scalar_types=SCALARS, dep_adts=['tendermint', 'ibc-types-core-channel'], max_steps=3_000_000, **kw)
    w = World(ex)
    ex.hooks = w.hooks(extra_hooks)
    return ex, w


def unchanged(w0, w1, except_=()):
    cs = []
    for k in w0:
        if k in except_ or k.rstrip('?') in except_:
            continue
        if k in LISTS:
            cs.append(z3.BoolVal(len(w0[k]) == len(w1[k])))
        elif k == 'ibc_context' or k not in w1 or not z3.is_expr(w0[k]):
            continue
        else:
            cs.append(w0[k] == w1[k])
    return z3.And(*cs) if cs else z3.BoolVal(True)


def poll_result(p):
    r = p.result
    if not isinstance(r, Obj) or r.discr != 'Ready':
        raise Inconclusive(f'future did not complete: {r!r}')
    res = r.fields[('Ready', 0)]
    if not isinstance(res.discr, str):
        raise Inconclusive('result variant is symbolic at the end of a path')
    return res.discr, res


def run_action(run, ex, W, name, method='execute', w0=None, prep=None, allow_havoc=(), world_extra=None, start_world=None, pc=None, tag='', me=None):
    spec = ACTIONS[name]
    f = ex.find(rf'(^|::){spec["mod"]}::<impl at [^>]*>::{method}$')
    ex.const_params = {k: z3.BoolVal(v) for k, v in spec.get('consts', {}).items()}
    w0 = w0 or initial_world()
    me = me if me is not None else Obj(spec['ty']); state = Obj('S', kind='cell')
    me.attrs['tag'] = tag
    if prep:
        prep(me)
    if start_world is not None:
        import copy
        world = {k: (list(v) if isinstance(v, list) else v) for k, v in start_world.items()}
    else:
        world = dict(w0, block_fees=[], cached_deposits=[], events=[], validator_updates=list(w0.get('validator_updates', [])), **(world_extra or {}))
    st = ex.start(f, [B.cell(me), state], world=world)
    if pc:
        st.pc += list(pc)
    paths = run.explore(ex, st, poll=True, allow_havoc=allow_havoc)
    out = []
    for p in paths:
        if p.kind != 'return':
            out.append((p, 'panic', None, None)); continue
        kind, res = poll_result(p)
        out.append((p, kind, res, ex.read(p, p.roots['args'][0].loc)))
    return w0, out


def signer_of(ex, W, p, me):
    a = ex.adts.lookup(me.ty)
    if a and 'tx_signer' in a['fields']:
        return W.addr(p, B.fld(ex, p, me, 'tx_signer', 'TransactionSignerAddressBytes'))
    if a and 'checked_bridge_unlock' in a['fields']:
        return signer_of(ex, W, p, B.fld(ex, p, me, 'checked_bridge_unlock', 'CheckedBridgeUnlockImpl<false>'))
    raise Inconclusive(f'no tx_signer in {me.ty}')


def c02_claims(w0, w1, signer):
    """action-independent authorisation table: (label, claim) pairs that must hold on every successful execution"""
    a = z3.BitVec('any_addr', 160); s = z3.BitVec('any_asset', 256); t = z3.BitVec('any_tag', 8)
    is_sudo = signer == w0['sudo']
    claims = []
    claims.append(('sudo address changes only when signed by the current sudo', z3.Implies(w1['sudo'] != w0['sudo'], is_sudo)))
    claims.append(('ibc sudo changes only when signed by the current sudo', z3.Implies(w1['ibc_sudo'] != w0['ibc_sudo'], is_sudo)))
    claims.append(('ibc relayer set changes only when signed by the current ibc sudo',
                   z3.Implies(z3.Select(w1['ibc_relayer'], a) != z3.Select(w0['ibc_relayer'], a), signer == w0['ibc_sudo'])))
    fee_changed = z3.Or(z3.Select(w1['fees_base'], t) != z3.Select(w0['fees_base'], t), z3.Select(w1['fees_base?'], t) != z3.Select(w0['fees_base?'], t),
                        z3.Select(w1['fees_mult'], t) != z3.Select(w0['fees_mult'], t))
    claims.append(('fee schedule changes only when signed by the current sudo', z3.Implies(fee_changed, is_sudo)))
    claims.append(('allowed fee assets change only when signed by the current sudo',
                   z3.Implies(z3.Select(w1['allowed_fee_asset'], s) != z3.Select(w0['allowed_fee_asset'], s), is_sudo)))
    val_changed = z3.Or(z3.Select(w1['validator_power'], a) != z3.Select(w0['validator_power'], a), z3.Select(w1['validator_power?'], a) != z3.Select(w0['validator_power?'], a),
                        w1['validator_count'] != w0['validator_count'])
    claims.append(('validator set changes only when signed by the current sudo', z3.Implies(val_changed, is_sudo)))
    def ch(f):
        return z3.Or(z3.Select(w1[f], a) != z3.Select(w0[f], a), z3.Select(w1[f + '?'], a) != z3.Select(w0[f + '?'], a))
    by_bridge_sudo = z3.And(z3.Select(w0['bridge_sudo?'], a), z3.Select(w0['bridge_sudo'], a) == signer)
    fresh_init = z3.And(a == signer, z3.Not(z3.Select(w0['bridge_rollup?'], a)))
    claims.append(('per-bridge sudo/withdrawer/deposit switch change only by that bridge\'s current sudo (or by the account initialising itself as a bridge)',
                   z3.Implies(z3.Or(ch('bridge_sudo'), ch('bridge_withdrawer'), ch('bridge_disabled')), z3.Or(by_bridge_sudo, fresh_init))))
    claims.append(('bridge rollup id / asset are set only by the account itself, once', z3.Implies(z3.Or(ch('bridge_rollup'), ch('bridge_asset')), fresh_init)))
    k = z3.Concat(a, s)
    by_withdrawer = z3.And(z3.Select(w0['bridge_withdrawer?'], a), z3.Select(w0['bridge_withdrawer'], a) == signer, z3.Select(w0['bridge_rollup?'], a))
    claims.append(('a balance decreases only for the signer, or for a bridge account whose current withdrawer is the signer',
                   z3.Implies(z3.And(state_inv(w0, a), z3.ULT(z3.Select(w1['balance'], k), z3.Select(w0['balance'], k))), z3.Or(a == signer, by_withdrawer))))
    ev = z3.BitVec('any_event_key', 160 + 256)
    claims.append(('a recorded withdrawal event is never removed or overwritten',
                   z3.Implies(z3.Select(w0['withdrawal_event?'], ev), z3.And(z3.Select(w1['withdrawal_event?'], ev), z3.Select(w1['withdrawal_event'], ev) == z3.Select(w0['withdrawal_event'], ev)))))
    claims.append(('chain-state invariant preserved: an account with a bridge sudo / withdrawer is a bridge account (has a rollup id)',
                   z3.Implies(state_inv(w0, a), state_inv(w1, a))))
    return claims


def state_inv(w, a):
    """pointwise chain-state invariant used by the inductive-step obligations (established by InitBridgeAccount, preserved by every action)"""
    return z3.And(z3.Implies(z3.Select(w['bridge_withdrawer?'], a), z3.Select(w['bridge_rollup?'], a)),
                  z3.Implies(z3.Select(w['bridge_sudo?'], a), z3.Select(w['bridge_rollup?'], a)))


# ---------------------------------------------------------------------------------------------------------------------
# Ics20Withdrawal: IBC packet plumbing (penumbra) as oracles
IS_SOURCE = z3.Function('withdrawal_is_source', z3.BitVecSort(256), z3.BitVecSort(256), z3.BitVecSort(256), z3.BoolSort())


def ics20_hooks(W_holder):
    from mirsym import models as M
    from mirsym.engine import ok, err

    def h_packet_getter(ctx):
        pkt = ctx.ex.deref_val(ctx.st, ctx.args[0])
        name = ctx.name.rsplit('::', 1)[1]
        r = Ref(('field', pkt, ('getter', name, ctx.ret_ty.lstrip('&').strip())))
        ctx.ex.read(ctx.st, r.loc)
        return [(None, r if ctx.ret_ty.strip().startswith('&') else ctx.ex.read(ctx.st, r.loc))]

    def h_packet_new(ctx):
        pkt = Obj('penumbra_ibc::IBCPacket<Unchecked>')
        pkt.fields[('getter', 'source_port')] = ctx.args[0]; pkt.fields[('getter', 'source_channel')] = ctx.args[1]
        return [(None, pkt)]

    def h_send_check(ctx):
        st = ctx.st
        okv = z3.Bool('send_packet_check_ok'); pkt = ctx.args[1]
        st.log.append(('send_packet_check', okv))
        return [(None, M.thunk_future(lambda ex, s2, fut: [(okv, (lambda s3: ok(s3.tr(pkt)))), (z3.Not(okv), (lambda s3: err()))]))]

    def h_send_execute(ctx):
        ctx.st.log.append(('send_packet_execute',))
        return [(None, M.thunk_future(lambda ex, s2, fut: [(None, ())]))]

    def h_is_source(ctx):
        W = W_holder[0]
        return [(None, IS_SOURCE(W.ident(ctx.st, ctx.args[0]), W.ident(ctx.st, ctx.args[1]), W.asset(ctx.st, ctx.args[2])))]
    clone_same = lambda ctx: [(None, ctx.ex.copy_val(ctx.ex.deref_val(ctx.st, ctx.args[0])))]
    return [(re.compile(r'IBCPacket::<.*>::(source_port|source_channel|timeout_height|timeout_timestamp|data)$'), h_packet_getter),
            (re.compile(r'IBCPacket::<.*>::new$'), h_packet_new), (re.compile(r'SendPacketRead.*>::send_packet_check'), h_send_check),
            (re.compile(r'SendPacketWrite.*>::send_packet_execute'), h_send_execute), (re.compile(r'(^|::)is_source$'), h_is_source),
            (re.compile(r'^<(ibc_types::core::channel::)?(PortId|ChannelId) as Clone>::clone$|anyhow_to_eyre'), clone_same)]


def ics20_engine():
    holder = [None]
    ex, W = engine(extra_hooks=ics20_hooks(holder))
    holder[0] = W
    return ex, W


def mk_ics20_self(ex, with_bridge):
    me = Obj('CheckedIcs20Withdrawal')
    a = ex.adts.lookup('CheckedIcs20Withdrawal')
    if not a:
        raise Inconclusive('CheckedIcs20Withdrawal not in ADT table')
    wa = z3.BitVec('withdrawal_address', 160); signer = z3.BitVec('tx_signer', 160)
    me.fields[(None, a['fields'].index('withdrawal_address'))] = wa
    me.fields[(None, a['fields'].index('tx_signer'))] = signer
    opt = Obj('std::option::Option<(Address, Ics20WithdrawalFromRollup)>')
    info = None
    if with_bridge:
        baddr = Obj('astria_core::primitive::v1::Address'); memo = Obj('astria_core::protocol::memos::v1::Ics20WithdrawalFromRollup')
        opt.discr = 'Some'; opt.fields[('Some', 0)] = (baddr, memo)
        info = (baddr, memo)
    else:
        opt.discr = 'None'
    me.fields[(None, a['fields'].index('bridge_address_and_rollup_withdrawal'))] = opt
    return me, wa, signer, info
