"""Kani (CBMC) driver: overlays in-crate harness modules on a scratch copy of /repo, runs the harnesses, parses verdicts,
and replays counterexamples natively (concrete playback test compiled with the repository toolchain)."""
import json, os, re, shutil, subprocess, time
from vlib import snap, replay

KSNAP = os.path.join(snap.WORK, 'kani-snap')
TARGETS = {'astria-merkle': os.path.join(snap.CACHE, 'kani-merkle-target'), 'astria-core': os.path.join(snap.CACHE, 'kani-target')}


def overlay(rel_file, modname, harness_file):
    p = os.path.join(KSNAP, rel_file)
    with open(p, 'a') as fh:
        fh.write(f'\n#[cfg(kani)]\nmod {modname} {{\n    include!("{harness_file}");\n}}\n')


def run(crate, overlays, harnesses, timeout_s=1500, mem_gb=14, jobs=8, extra_args=()):
    """overlays: [(rel_file, modname, harness_file)].  Returns {harness: {'status': 'success'|'failure'|'error'|'timeout', 'failed': [...], 'covers': {...}, 's': float}}"""
    results = {}
    with snap.Lock('kani-lock'):
        snap.write_parent_config()
        os.makedirs(KSNAP, exist_ok=True)
        subprocess.run(['rsync', '-a', '--delete', '--exclude', '/target', '--exclude', '/.git', snap.REPO + '/', KSNAP + '/'], check=True)
        try:
            for rel, mod, hf in overlays:
                overlay(rel, mod, hf)
            env = dict(os.environ, CARGO_NET_OFFLINE='true', RUSTFLAGS='--cfg tokio_unstable')
            env.pop('RUSTUP_TOOLCHAIN', None)
            procs = []
            sem = max(1, jobs)
            pending = list(harnesses)
            running = []
            logs = {}
            # one cargo-kani invocation per harness; the compile is shared through the target dir, so the first one runs alone
            def launch(h):
                log = os.path.join(snap.CACHE, 'kani-logs', f'{crate}-{h}.log')
                os.makedirs(os.path.dirname(log), exist_ok=True)
                cmd = f'ulimit -v {mem_gb * 1024 * 1024}; exec timeout {timeout_s} cargo kani -p {crate} --target-dir {TARGETS[crate]} -Z stubbing --harness {h} ' + ' '.join(extra_args)
                fh = open(log, 'w')
                p = subprocess.Popen(['bash', '-c', cmd], cwd=KSNAP, env=env, stdout=fh, stderr=subprocess.STDOUT)
                logs[h] = log
                return (h, p, time.time(), fh)
            first = pending.pop(0)
            h, p, t0, fh = launch(first)
            p.wait(); fh.close()
            results[h] = parse(open(logs[h]).read(), p.returncode, time.time() - t0)
            while pending or running:
                while pending and len(running) < sem:
                    running.append(launch(pending.pop(0)))
                time.sleep(0.5)
                for r in list(running):
                    h, p, t0, fh = r
                    if p.poll() is not None:
                        fh.close(); running.remove(r)
                        results[h] = parse(open(logs[h]).read(), p.returncode, time.time() - t0)
        finally:
            shutil.rmtree(KSNAP, ignore_errors=True)
    return results


def parse(out, rc, dt):
    r = {'s': round(dt, 1), 'rc': rc, 'failed': [], 'covers': {}, 'checks': 0}
    if rc == 124:
        r['status'] = 'timeout'
    elif 'VERIFICATION:- SUCCESSFUL' in out:
        r['status'] = 'success'
    elif 'VERIFICATION:- FAILED' in out and 'Status: ERROR' not in out and 'out of memory' not in out.lower() and 'CBMC failed' not in out:
        r['status'] = 'failure'
    else:
        r['status'] = 'error'
    for m in re.finditer(r'Check \d+: (.+?)\n\s+- Status: (\w+)\n\s+- Description: "(.*?)"\n\s+- Location: (.*?)\n', out):
        name, status, desc, loc = m.groups()
        r['checks'] += 1
        if '.cover.' in name:
            r['covers'][desc] = status
        elif status == 'FAILURE':
            r['failed'].append({'check': name, 'desc': desc, 'loc': loc.strip()})
    m = re.search(r'\*\* (\d+) of (\d+) failed', out)
    if m:
        r['summary'] = m.group(0)
    mm = re.search(r'Verification Time: ([\d.]+)s', out)
    if mm:
        r['cbmc_s'] = float(mm.group(1))
    if r['status'] == 'error':
        r['tail'] = out[-1500:]
    return r


def playback(crate, overlays, harness, timeout_s=1500):
    """concrete playback: returns the list of byte vectors (one per kani::any() call, in call order) of Kani's counterexample, or None"""
    with snap.Lock('kani-lock'):
        snap.write_parent_config()
        os.makedirs(KSNAP, exist_ok=True)
        subprocess.run(['rsync', '-a', '--delete', '--exclude', '/target', '--exclude', '/.git', snap.REPO + '/', KSNAP + '/'], check=True)
        try:
            for rel, mod, hf in overlays:
                overlay(rel, mod, hf)
            env = dict(os.environ, CARGO_NET_OFFLINE='true', RUSTFLAGS='--cfg tokio_unstable')
            cmd = f'ulimit -v {14 * 1024 * 1024}; exec timeout {timeout_s} cargo kani -p {crate} --target-dir {TARGETS[crate]} -Z stubbing -Z concrete-playback --concrete-playback=print --harness {harness}'
            p = subprocess.run(['bash', '-c', cmd], cwd=KSNAP, env=env, capture_output=True, text=True)
            out = p.stdout + p.stderr
            ms = re.findall(r'let concrete_vals: Vec<Vec<u8>> = vec!\[(.*?)\n\s*\];', out, re.S)
            if not ms:
                return None, out[-2500:]
            # Kani prints one playback test per failed check AND per satisfied kani::cover!: return every candidate, the caller replays them in turn
            cands = []
            for body in ms:
                vals = [[int(x) for x in v.split(',') if x.strip()] for v in re.findall(r'vec!\[([\d,\s]*)\]', body)]
                if vals not in cands:
                    cands.append(vals)
            return cands, out[-500:]
        finally:
            shutil.rmtree(KSNAP, ignore_errors=True)


SHIM = r"""
#[cfg(test)]
#[allow(dead_code, unused)]
mod MODNAME {
    mod kani {
        use std::cell::RefCell;
        use std::collections::VecDeque;
        thread_local! { pub static VALS: RefCell<VecDeque<Vec<u8>>> = RefCell::new(VecDeque::new()); }
        pub trait KaniAny { fn from_le(b: &[u8]) -> Self; }
        macro_rules! int { ($($t:ty),*) => { $(impl KaniAny for $t { fn from_le(b: &[u8]) -> Self { let mut a = [0u8; std::mem::size_of::<$t>()]; a[..b.len().min(std::mem::size_of::<$t>())].copy_from_slice(&b[..b.len().min(std::mem::size_of::<$t>())]); <$t>::from_le_bytes(a) } })* } }
        int!(u8, u16, u32, u64, u128, usize, i8, i16, i32, i64, i128, isize);
        impl KaniAny for bool { fn from_le(b: &[u8]) -> Self { b.first().copied().unwrap_or(0) & 1 == 1 } }
        pub fn any<T: KaniAny>() -> T { VALS.with(|v| T::from_le(&v.borrow_mut().pop_front().unwrap_or_default())) }
        pub fn assume(c: bool) { if !c { panic!("VERIF_ASSUME_FAILED"); } }
        macro_rules! cover { ($($t:tt)*) => {}; }
        pub(crate) use cover;
    }
    HARNESS_SOURCE

    #[test]
    fn verif_replay_HARNESS() {
        let vals: Vec<Vec<u8>> = vec![VALS];
        kani::VALS.with(|v| *v.borrow_mut() = vals.into_iter().collect());
        let r = std::panic::catch_unwind(|| { HARNESS(); });
        let verdict = match r {
            Ok(()) => "held".to_string(),
            Err(e) => {
                let msg = e.downcast_ref::<String>().cloned().or_else(|| e.downcast_ref::<&str>().map(|s| s.to_string())).unwrap_or_default();
                if msg.contains("VERIF_ASSUME_FAILED") { "assume-failed".to_string() } else { format!("panic: {}", msg.replace('"', "'").replace('\n', " ")) }
            }
        };
        println!("VERIF: {{\"verdict\": \"{}\"}}", verdict);
    }
}
"""


def native_replay(crate, rel_file, modname, harness_file, harness, vals, stubs=None):
    """run the very harness body natively (kani::any() fed with the counterexample bytes) against the real crate with the repo toolchain"""
    src = open(harness_file).read()
    src = '\n'.join(l for l in src.split('\n') if not l.strip().startswith('#[kani::'))
    code = SHIM.replace('MODNAME', modname + '_replay').replace('HARNESS_SOURCE', src).replace('HARNESS', harness)
    code = code.replace('VALS]', ', '.join('vec![' + ', '.join(str(b) for b in v) + ']' for v in vals) + ']')
    r = replay.run_crate_test(crate, rel_file, code, f'verif_replay_{harness}')
    verdicts = [l.get('verdict') for l in r['lines']]
    v = verdicts[-1] if verdicts else None
    return {'mode': 'native-crate-test', 'kani_values': vals, 'verdict': v, 'reproduced': (v.startswith('panic') if v else None),
            'error': None if v else r['output'][-1500:], 'wall_s': r.get('wall_s')}
