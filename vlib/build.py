"""Helpers for obligations: build / read struct objects by field *name* (indices come from the rustdoc-JSON ADT table of the current tree)."""
import z3
from mirsym.engine import Obj, Ref, Inconclusive


def struct(ex, ty, **fields):
    a = ex.adts.lookup(ty)
    if not a or a['kind'] != 'struct':
        raise Inconclusive(f'struct {ty} not found in ADT table (refactored?)')
    o = Obj(a['path'])
    for k, v in fields.items():
        if k not in a['fields']:
            raise Inconclusive(f'struct {ty} has no field {k}: {a["fields"]}')
        o.fields[(None, a['fields'].index(k))] = v
    return o


def fld(ex, st, o, name, ty='?'):
    """value of field `name` of struct object o (lazily created with type ty)"""
    a = ex.adts.lookup(o.ty)
    if not a or a['kind'] != 'struct' or name not in a['fields']:
        raise Inconclusive(f'field {name} of {o.ty} not in ADT table')
    return ex.read(st, ('field', o, (None, a['fields'].index(name), ty)))


def vfld(ex, st, o, variant, name, ty='?'):
    a = ex.adts.lookup(o.ty)
    if not a or a['kind'] != 'enum':
        raise Inconclusive(f'enum {o.ty} not in ADT table')
    for v in a['variants']:
        if v['name'] == variant:
            if name not in v['fields']:
                raise Inconclusive(f'variant {variant} of {o.ty} has no field {name}')
            return ex.read(st, ('field', o, (variant, v['fields'].index(name), ty)))
    raise Inconclusive(f'variant {variant} of {o.ty} not found')


def variant(ex, ty, name, **fields):
    a = ex.adts.lookup(ty)
    if not a or a['kind'] != 'enum':
        raise Inconclusive(f'enum {ty} not found in ADT table')
    for v in a['variants']:
        if v['name'] == name:
            o = Obj(a['path']); o.discr = name
            for k, val in fields.items():
                if k not in v['fields']:
                    raise Inconclusive(f'variant {ty}::{name} has no field {k}')
                o.fields[(name, v['fields'].index(k))] = val
            return o
    raise Inconclusive(f'variant {ty}::{name} not found')


def cell(v, ty='?'):
    """a fresh location holding v; returns a reference to it"""
    h = Obj('cell', kind='cell'); h.fields[('*', 0)] = v
    return Ref(('field', h, ('*', 0, ty)))


def bv(name, bits):
    return z3.BitVec(name, bits)
