"""Obligation runner: discharges negated assertions with z3 (cvc5 cross-check in the thorough tier), replays counterexamples natively,
handles known findings, writes evidence."""
import hashlib, json, os, re, subprocess, sys, time, traceback
import z3
from mirsym import engine as E
from mirsym.mir import MirError
from vlib import snap

VERIF = snap.VERIF
REGISTRY = {}          # property id -> list of (name, fn, tiers)


def obligation(pid, name, tiers=('quick', 'thorough')):
    def deco(f):
        REGISTRY.setdefault(pid, []).append((name, f, tiers)); return f
    return deco


class Outcome:
    def __init__(self, name):
        self.name = name; self.status = 'pending'; self.queries = []; self.reach = {}; self.notes = []; self.fns = {}; self.havoc = {}
        self.paths = 0; self.steps = 0; self.solver_s = 0.0; self.samples = []; self.violations = []; self.known = []; self.bounds = {}; self.models = []
        self.wall_s = 0.0; self.replays = 0; self.inconclusive = None; self.bound_hit = False; self.vectors = 0


class Run:
    def __init__(self, pid, tier, seed):
        self.pid, self.tier, self.seed = pid, tier, seed
        self.outcomes = []; self.cur = None; self.t0 = time.time()
        self.known_findings = json.load(open(os.path.join(VERIF, 'known_findings.json')))['findings'] if os.path.exists(os.path.join(VERIF, 'known_findings.json')) else []
        self.assumptions = []; self.printed_known = set()
        z3.set_param('smt.random_seed', seed % (2 ** 31)); z3.set_param('sat.random_seed', seed % (2 ** 31))
        self.replay_dir = os.path.join(VERIF, 'replays', pid)
        self.solver_timeout_ms = 120000 if tier == 'quick' else 600000

    # ---- engine bookkeeping
    def absorb(self, ex):
        """record what an engine run covered"""
        o = self.cur
        for n, f in ex.stats['fns'].items():
            o.fns[n] = {'crate': f.crate, 'mir_sha': f.hash(), 'blocks': len(f.blocks)}
        for k, v in ex.stats['havoc'].items():
            o.havoc[k] = o.havoc.get(k, 0) + v
        o.steps += ex.stats['steps']; o.solver_s += ex.stats['solver_s']
        o.models = sorted(set(o.models) | set(ex.stats['models']))
        ex.stats['steps'] = 0; ex.stats['solver_s'] = 0.0

    def explore(self, ex, st, poll=False, allow_havoc=(), defer_abort=False):
        """run to completion; classify paths.  Abort paths make the obligation inconclusive."""
        paths = ex.run(st)
        if poll:
            paths = ex.poll_to_completion(paths)
        self.absorb(ex)
        good = []
        for p in paths:
            if p.kind in ('infeasible',):
                continue
            if p.kind == 'abort':
                if defer_abort:
                    good.append(p); continue
                raise E.Inconclusive('unmodelled construct on a feasible path: ' + str(p.info))
            if p.kind == 'unreachable':
                raise E.Inconclusive('reached `unreachable`: ' + str(p.info))
            for ev in p.events:
                if ev[0] == 'havoc' and not any(re.search(rx, ev[1]) for rx in allow_havoc):
                    raise E.Inconclusive('call without model on a feasible path (havoc): ' + ev[1])
            good.append(p)
        self.cur.paths += len(good)
        return good

    def bound(self, **kw):
        self.cur.bounds.update(kw)

    def note(self, s):
        self.cur.notes.append(s)

    def assume(self, s):
        if s not in self.assumptions:
            self.assumptions.append(s)

    def sample(self, s):
        if len(self.cur.samples) < 12:
            self.cur.samples.append(s)

    def reached(self, label, n=1):
        self.cur.reach[label] = self.cur.reach.get(label, 0) + n

    def require_reached(self, *labels):
        for l in labels:
            if self.cur.reach.get(l, 0) < 1:
                raise E.Inconclusive(f'vacuity: no feasible path reached assertion site {l!r}')

    # ---- solver
    def solve(self, constraints, label):
        """returns ('unsat', None) | ('sat', model); unknown/timeouts raise Inconclusive.
        Staged: z3 (short budget) -> cvc5 with integer encoding of bit-vector arithmetic (trusted for `unsat` only) -> z3 (full budget)."""
        t0 = time.time()
        rec = {'label': label}
        r, s = self._z3(constraints, min(8000, self.solver_timeout_ms))
        if r == z3.unknown:
            if self._cvc5_unsat(constraints, label, ['--solve-bv-as-int=sum'], 30000):
                rec.update(result='unsat', decided_by='cvc5 --solve-bv-as-int=sum', s=round(time.time() - t0, 3))
                self.cur.solver_s += time.time() - t0; self.cur.queries.append(rec)
                return ('unsat', None)
            r, s = self._z3(constraints, self.solver_timeout_ms)
        dt = time.time() - t0
        self.cur.solver_s += dt
        rec.update(result=str(r), s=round(dt, 3))
        if self.tier == 'thorough' or os.environ.get('VERIF_CROSSCHECK'):
            rec['cvc5'] = self.crosscheck(constraints, str(r))
        self.cur.queries.append(rec)
        if r == z3.unknown:
            raise E.Inconclusive(f'solver unknown on {label}: {s.reason_unknown()}')
        return (str(r), s.model() if r == z3.sat else None)

    def _z3(self, constraints, timeout_ms):
        s = z3.Solver(); s.set('timeout', int(timeout_ms)); s.add(*constraints)
        return s.check(), s

    def _cvc5_unsat(self, constraints, label, args, tlimit_ms):
        os.makedirs(os.path.join(VERIF, '.cache', 'unknown'), exist_ok=True)
        qf = os.path.join(VERIF, '.cache', 'unknown', hashlib.sha1(label.encode()).hexdigest()[:10] + '.smt2')
        open(qf, 'w').write(smt2_of(constraints))
        try:
            pr = subprocess.run(['cvc5', '--lang', 'smt2', f'--tlimit={tlimit_ms}'] + args + [qf], capture_output=True, text=True, timeout=tlimit_ms / 1000 + 30)
            out = pr.stdout.strip().split('\n')[-1] if pr.stdout.strip() else ''
            return out == 'unsat' and '(error' not in pr.stdout and '(error' not in pr.stderr
        except Exception:       # noqa
            return False
        finally:
            try:
                os.remove(qf)
            except OSError:
                pass

    def crosscheck(self, constraints, expect):
        smt = smt2_of(constraints)
        try:
            p = subprocess.run(['cvc5', '--lang', 'smt2', '--tlimit=60000'], input=smt, capture_output=True, text=True, timeout=90)
            out = p.stdout.strip().split('\n')[-1] if p.stdout.strip() else 'error'
        except Exception as e:       # noqa
            out = 'timeout'
        if '(error' in (p.stdout if 'p' in dir() else '') or out not in ('sat', 'unsat', 'unknown', 'timeout'):
            out = 'error'
        if out in ('sat', 'unsat') and out != expect:
            raise E.Inconclusive(f'solver disagreement z3={expect} cvc5={out}')
        return out

    def prove(self, label, pc, claim, replay=None, classify=None, detail=None, abstraction=None):
        """claim must hold on every model of pc.  On a counterexample: classify -> known finding role or None; replay natively.
        abstraction=[(term, fresh_var)]: first try with the terms replaced by unconstrained variables (sound for `unsat`); fall back to the exact query."""
        self.reached(label)
        if abstraction:
            cs = [z3.substitute(c, *abstraction) for c in list(pc) + [z3.Not(claim)]]
            r, _ = self.solve(cs, label + ' [abstracted: ' + ', '.join(str(v) for _, v in abstraction) + ']')
            if r == 'unsat':
                return True
        r, model = self.solve(list(pc) + [z3.Not(claim)], label)
        if r == 'unsat':
            return True
        return self.counterexample(label, model, replay, classify, detail)

    def counterexample(self, label, model, replay, classify, detail=None, soft=False):
        role = classify(model) if classify else None
        cex = {'obligation': self.cur.name, 'assertion': label, 'role': role, 'model': model_json(model), 'detail': detail}
        for kf in self.known_findings:
            if kf.get('status', 'known') == 'known' and kf['property'] == self.pid and kf['obligation'] == self.cur.name and kf.get('role') == role and role is not None:
                if kf['id'] not in self.printed_known:
                    print(f"KNOWN-FINDING: property={self.pid} {kf['what']}", flush=True)
                    self.printed_known.add(kf['id'])
                cex['known'] = kf['id']
                self.cur.known.append(cex)
                return False
        os.makedirs(self.replay_dir, exist_ok=True)
        path = os.path.join(self.replay_dir, re.sub(r'[^\w.-]', '_', f'{self.cur.name}-{label}')[:80] + '-' + hashlib.sha1(f'{self.cur.name}-{label}'.encode()).hexdigest()[:8] + '.json')
        verdict = {'mode': 'none'}
        if replay is not None:
            try:
                verdict = replay(model, path)
            except Exception as e:       # noqa
                verdict = {'mode': 'native', 'reproduced': None, 'error': f'{type(e).__name__}: {e}'}
            self.cur.replays += 1
        cex['replay'] = verdict
        json.dump(cex, open(path, 'w'), indent=1, default=str)
        if soft and verdict.get('reproduced') is not True and verdict.get('mode') != 'none':
            self.cur.notes.append(f'counterexample for {label} not confirmed natively ({verdict.get("verdict") or verdict.get("error")}): {path}')
            return None
        if verdict.get('reproduced') is False:
            raise E.Inconclusive(f'counterexample for {label} did not reproduce natively (encoding or model wrong): {path}')
        if verdict.get('reproduced') is None and verdict.get('mode') != 'none':
            raise E.Inconclusive(f'replay of {label} could not be run: {verdict.get("error")}: {path}')
        cex['path'] = path
        self.cur.violations.append(cex)
        print(f'VIOLATION property={self.pid} replay={path}', flush=True)
        return False

    # ---- driver
    def execute(self, only=None):
        status = 0
        for name, fn, tiers in REGISTRY.get(self.pid, []):
            if self.tier not in tiers or (only and not re.search(only, name)):
                continue
            o = Outcome(name); self.cur = o; self.outcomes.append(o)
            t0 = time.time()
            try:
                fn(self)
                o.status = 'violated' if o.violations else ('known-finding' if o.known else 'discharged')
            except E.Inconclusive as e:
                o.status = 'violated' if o.violations else 'inconclusive'; o.inconclusive = str(e)
            except (MirError, z3.Z3Exception, KeyError, IndexError, AttributeError, TypeError, ValueError, AssertionError) as e:
                o.status = 'violated' if o.violations else 'inconclusive'; o.inconclusive = f'{type(e).__name__}: {e}\n' + traceback.format_exc()[-1500:]
            o.wall_s = round(time.time() - t0, 2)
            snap.log(f'{self.pid} {name}: {o.status} paths={o.paths} queries={len(o.queries)} {o.wall_s}s' + (f' :: {o.inconclusive[:300]}' if o.inconclusive else ''))
        if any(o.status == 'violated' for o in self.outcomes):
            status = 1
        elif any(o.status == 'inconclusive' for o in self.outcomes) or not self.outcomes:
            status = 2
        self.write_evidence(status)
        return status

    def write_evidence(self, status):
        outs = self.outcomes
        nq = sum(len(o.queries) for o in outs)
        samples = []
        for o in outs:
            samples.append({'obligation': o.name, 'status': o.status, 'bounds': o.bounds, 'paths': o.paths, 'queries': len(o.queries), 'reach': o.reach,
                            'path_samples': o.samples[:6], 'inconclusive': o.inconclusive})
        fns = {}
        for o in outs:
            fns.update(o.fns)
        distinct = len({(o.name, q['label']) for o in outs for q in o.queries})
        ev = {
            'property_id': self.pid, 'tier': self.tier, 'seed': self.seed, 'level': 'model_checking',
            'coverage': {
                'states': max(1, sum(o.paths for o in outs)), 'transitions': max(1, nq),
                'traces_validated_against_impl': sum(o.replays for o in outs) + sum(o.vectors for o in outs),
                'samples': samples or [{'note': 'no obligations ran'}],
                'evaluations': max(1, nq), 'distinct_nontrivial': max(2, distinct),
                'rule': 'one evaluation = one solver query (negated assertion under one symbolic path condition); distinct = distinct (obligation, assertion site, path) labels',
                'obligations': len(outs), 'discharged': sum(o.status in ('discharged', 'known-finding') for o in outs),
                'inconclusive': [o.name for o in outs if o.status == 'inconclusive'],
                'functions_encoded': {n: v for n, v in sorted(fns.items())[:400]},
                'functions_encoded_count': len(fns),
                'bounds': {o.name: o.bounds for o in outs},
                'models_used': sorted({m for o in outs for m in o.models}),
                'havocked_calls': {o.name: o.havoc for o in outs if o.havoc},
                'mir_steps': sum(o.steps for o in outs), 'solver_s': round(sum(o.solver_s for o in outs), 2),
                'queries': [dict(q, obligation=o.name) for o in outs for q in o.queries][:300],
                'known_findings': [c for o in outs for c in o.known],
                'violations': [c for o in outs for c in o.violations],
                'notes': {o.name: o.notes for o in outs if o.notes},
                'engine': 'mirsym (rustc -Zunpretty=mir of /repo working tree -> z3 ' + z3.get_version_string() + ')',
                'tree_hash': snap.tree_hash(), 'exit_status': status,
            },
            'assumptions': self.assumptions,
            'wall_s': round(time.time() - self.t0, 2),
            'violations': sum(len(o.violations) for o in outs),
        }
        # a partial run (--only) must not replace the evidence of the full check: it goes to evidence/partial/
        sub = 'evidence' if not getattr(self, 'partial', False) else os.path.join('evidence', 'partial')
        os.makedirs(os.path.join(VERIF, sub), exist_ok=True)
        json.dump(ev, open(os.path.join(VERIF, sub, self.pid + '.json'), 'w'), indent=1, default=str)


def smt2_of(constraints):
    s2 = z3.Solver(); s2.add(*constraints)
    body = '\n'.join(l for l in s2.sexpr().split('\n') if not l.startswith(('(model-add', '(model-del')))
    return '(set-logic ALL)\n' + body + '\n(check-sat)\n'


def model_json(model):
    if model is None:
        return None
    out = {}
    for d in model.decls():
        v = model[d]
        try:
            out[d.name()] = v.as_long() if z3.is_bv_value(v) else (z3.is_true(v) if z3.is_bool(v) else str(v)[:300])
        except Exception:       # noqa
            out[d.name()] = str(v)[:300]
    return out


def mval(model, e, default=0):
    v = model.eval(e, model_completion=True)
    if z3.is_bv_value(v):
        return v.as_long()
    if z3.is_true(v): return True
    if z3.is_false(v): return False
    return default
