"""Chain-state model for astria-sequencer (DESIGN.md §2 'Chain-state model'): the storage layer (L0) and the pure getters/putters of the
`*/state_ext.rs` extension traits are mapped to SMT arrays; every other StateReadExt/StateWriteExt method is executed from its MIR."""
import re
import z3
from mirsym.engine import Obj, Ref, enum, some, none, ok, err, Inconclusive, Diverge, type_head
from mirsym.mir import MirError
from mirsym import models as M

A160, B256, U128, U64, U32 = 160, 256, 128, 64, 32
SCALARS = {
    'astria_core::primitive::v1::asset::IbcPrefixed': 256, 'asset::IbcPrefixed': 256, 'IbcPrefixed': 256,
    'TransactionSignerAddressBytes': 160, 'astria_core::primitive::v1::RollupId': 256, 'RollupId': 256,
    'astria_core::primitive::v1::TransactionId': 256, 'TransactionId': 256,
    'tendermint::account::Id': 160, 'tendermint::block::Height': 64, 'tendermint::Time': 128, 'tendermint::Hash': 264,
    'astria_core::crypto::VerificationKey': 256, 'VerificationKey': 256, 'astria_core::crypto::ADDRESS_LENGTH': 64,
}

# family -> (key kinds, value kind).  value kinds: bv<N>, bool, opt:<kind>, obj:<tag> (opaque object stored by identity)
CELLS = {
    'balance': (('addr', 'asset'), 'bv128'), 'nonce': (('addr',), 'bv32'), 'escrow': (('ident', 'asset'), 'bv128'),
    'sudo': ((), 'bv160'), 'ibc_sudo': ((), 'bv160'), 'ibc_relayer': (('addr',), 'bool'),
    'bridge_rollup': (('addr',), 'opt:bv256'), 'bridge_asset': (('addr',), 'opt:bv256'), 'bridge_sudo': (('addr',), 'opt:bv160'),
    'bridge_withdrawer': (('addr',), 'opt:bv160'), 'bridge_disabled': (('addr',), 'opt:bool'), 'withdrawal_event': (('addr', 'ident'), 'opt:bv64'),
    'bridge_last_tx': (('addr',), 'opt:bv256'),
    'allowed_fee_asset': (('asset',), 'bool'), 'has_ibc_asset': (('asset',), 'bool'),
    'fees_base': (('tag',), 'opt:bv128'), 'fees_mult': (('tag',), 'bv128'),
    'validator_power': (('addr',), 'opt:bv64'), 'validator_key': (('addr',), 'bv256'), 'validator_count': ((), 'bv64'),
    'block_height': ((), 'bv64'), 'revision_number': ((), 'bv64'), 'block_timestamp': ((), 'bv128'),
    'upgrade_change': (('ident', 'ident'), 'opt:bv64'), 'allowed_fee_asset_count': ((), 'bv64'), 'price_feed': ((), 'bv64'),
}
KEY_BITS = {'addr': 160, 'asset': 256, 'ident': 256, 'tag': 8}


def _sort(kind):
    if kind == 'bool':
        return z3.BoolSort()
    return z3.BitVecSort(int(kind[2:]))


def initial_world(prefix='w'):
    """fully symbolic chain state"""
    w = {}
    for fam, (keys, val) in CELLS.items():
        kb = sum(KEY_BITS[k] for k in keys)
        opt = val.startswith('opt:')
        vk = val[4:] if opt else val
        if kb == 0:
            w[fam] = z3.Const(f'{prefix}_{fam}', _sort(vk))
            if opt:
                w[fam + '?'] = z3.Bool(f'{prefix}_{fam}_present')
        else:
            w[fam] = z3.Array(f'{prefix}_{fam}', z3.BitVecSort(kb), _sort(vk))
            if opt:
                w[fam + '?'] = z3.Array(f'{prefix}_{fam}_present', z3.BitVecSort(kb), z3.BoolSort())
    w['block_fees'] = []          # ephemeral object store: list of (asset, amount) additions in order
    w['cached_deposits'] = []     # list of deposit objects in order
    w['events'] = []              # recorded ABCI events
    w['validator_updates'] = []   # block validator updates (list of (addr, power, key))
    w['ibc_context'] = None
    return w


class World:
    def __init__(self, ex, fee_tags=None):
        self.ex = ex
        self.fee_tags = fee_tags or {}

    # ---- scalarisation of key components
    def addr(self, st, v):
        ex = self.ex
        v = ex.deref_val(st, v)
        if z3.is_bv(v) and v.size() == 160:
            return v
        if z3.is_bv(v) and v.size() == 256:      # a VerificationKey: its address
            return z3.Function('vk_address', z3.BitVecSort(256), z3.BitVecSort(160))(v)
        if isinstance(v, Obj):
            a = ex.adts.lookup(v.ty)
            if a and a['kind'] == 'struct' and 'verification_key' in a['fields']:
                return self.addr(st, ex.read(st, ('field', v, (None, a['fields'].index('verification_key'), 'VerificationKey'))))
            if a and a['kind'] == 'struct' and 'bytes' in a['fields']:
                return self.addr(st, ex.read(st, ('field', v, (None, a['fields'].index('bytes'), '[u8; 20]'))))
            if a and a['kind'] == 'struct' and len(a['fields']) == 1:
                return self.addr(st, ex.read(st, ('field', v, (None, 0, '[u8; 20]'))))
            if 'addr160' not in v.attrs:
                v.attrs['addr160'] = z3.BitVec(f'addr_{v.lz}', 160)
            return v.attrs['addr160']
        raise MirError(f'cannot take address bytes of {v!r}')

    def asset(self, st, v):
        ex = self.ex
        v = ex.deref_val(st, v)
        if z3.is_bv(v) and v.size() == 256:
            return v
        if isinstance(v, Obj):
            if isinstance(v.discr, str) and v.discr in ('Borrowed', 'Owned'):       # Cow
                return self.asset(st, v.fields[(v.discr, 0)])
            head = type_head(v.ty).split('::')[-1]
            if head == 'Denom' or (isinstance(v.discr, str) and v.discr in ('IbcPrefixed', 'TracePrefixed')):
                ibc = lambda: self.asset(st, ex.read(st, ('field', v, ('IbcPrefixed', 0, 'astria_core::primitive::v1::asset::IbcPrefixed'))))
                trace = lambda: self.asset(st, ex.read(st, ('field', v, ('TracePrefixed', 0, 'astria_core::primitive::v1::asset::TracePrefixed'))))
                if v.discr == 'IbcPrefixed' if isinstance(v.discr, str) else False:
                    return ibc()
                if v.discr == 'TracePrefixed' if isinstance(v.discr, str) else False:
                    return trace()
                d = ex.discr_value(st, v)
                i = ex.adts.variant_index('astria_core::primitive::v1::asset::Denom', 'IbcPrefixed')
                if i is None:
                    raise MirError('Denom not in ADT table')
                return z3.If(d == z3.BitVecVal(i, 64), ibc(), trace())
            if 'asset_id' not in v.attrs:
                v.attrs['asset_id'] = z3.BitVec(f'assetid_{v.lz}', 256)
            return v.attrs['asset_id']
        raise MirError(f'cannot take asset id of {v!r}')

    def ident(self, st, v):
        ex = self.ex
        v = ex.deref_val(st, v)
        if z3.is_bv(v):
            return z3.ZeroExt(256 - v.size(), v) if v.size() < 256 else v
        if isinstance(v, Obj):
            if v.kind == 'const' and 'const' in v.attrs:
                import hashlib
                return z3.BitVecVal(int.from_bytes(hashlib.sha256(v.attrs['const'].encode()).digest(), 'big'), 256)
            if v.kind == 'str':
                import hashlib
                return z3.BitVecVal(int.from_bytes(hashlib.sha256(v.attrs['str'].encode()).digest(), 'big'), 256)
            return M.ident(v)
        raise MirError(f'cannot identify {v!r}')

    def key(self, st, fam, args):
        kinds = CELLS[fam][0]
        parts = []
        for k, a in zip(kinds, args):
            if k == 'addr': parts.append(self.addr(st, a))
            elif k == 'asset': parts.append(self.asset(st, a))
            elif k == 'ident': parts.append(self.ident(st, a))
            elif k == 'tag': parts.append(a)
        if not parts:
            return None
        return z3.Concat(*parts) if len(parts) > 1 else parts[0]

    # ---- cell access
    def get(self, st, fam, key):
        w = st.world
        opt = CELLS[fam][1].startswith('opt:')
        if key is None:
            v = w[fam]; p = w.get(fam + '?')
        else:
            v = z3.Select(w[fam], key); p = z3.Select(w[fam + '?'], key) if opt else None
        st.log.append(('read', fam, key))
        return (v, p)

    def put(self, st, fam, key, val, present=True, token=None):
        w = st.world
        opt = CELLS[fam][1].startswith('opt:')
        if key is None:
            if val is not None: w[fam] = val
            if opt: w[fam + '?'] = z3.BoolVal(present)
        else:
            if val is not None: w[fam] = z3.Store(w[fam], key, val)
            if opt: w[fam + '?'] = z3.Store(w[fam + '?'], key, z3.BoolVal(present))
        st.log.append(('write', fam, key, val, present, token))

    def opt_obj(self, ty, val, present):
        o = Obj(ty); o.discr = z3.If(present, z3.BitVecVal(1, 64), z3.BitVecVal(0, 64)); o.fields[('Some', 0)] = val
        return o

    def state_token(self, st, state_arg):
        v = self.ex.deref_val(st, state_arg)
        while isinstance(v, Ref):
            v = self.ex.deref_val(st, v)
        return getattr(v, 'lz', None)

    # ---- hooks
    def hooks(self, extra=None):
        hs = list(extra or [])
        hs.append((re.compile(r'^<.+ as ([\w:]+::)?State(Read|Write)Ext>::(\w+)'), self.h_state_ext))
        hs.append((re.compile(r'TryStreamExt>::try_collect'), self.h_try_collect))
        hs.append((re.compile(r'(^|::)create_deposit_event$'), self.h_deposit_event))
        hs.append((re.compile(r'^<&?(mut )?\w+ as (cnidarium::)?(StateRead|StateWrite)>::(\w+)'), self.h_l0))
        hs.append((re.compile(r'^(std::collections::)?HashSet(::<.*>)?::(contains|len|is_empty)$'), self.h_symset))
        hs.append((re.compile(r'to_ibc_prefixed$|^<.*IbcPrefixed as From<.*>>::from$|as Into<.*Cow<.*IbcPrefixed>>>::into$|^<Cow<.*IbcPrefixed> as From<.*>>::from$'), self.h_asset_conv))
        hs.append((re.compile(r'VerificationKey::address_bytes$|as ([\w:]+::)?AddressBytes>::(address_bytes|display_address)$|^Address(::<.*>)?::bytes$|^TransactionSignerAddressBytes::(as_bytes|from)|as From<\[u8; 20\]>>::from$'), self.h_addr_conv))
        return hs

    def h_try_collect(self, ctx):
        v = self.ex.deref_val(ctx.st, ctx.args[0])
        if not isinstance(v, Obj) or v.kind != 'symstream':
            return None
        o = Obj('HashSet', kind='symset'); o.attrs['family'] = v.attrs['family']
        return [(None, M.ready_future(ok(o)))]

    def h_symset(self, ctx):
        st = ctx.st
        v = self.ex.deref_val(st, ctx.args[0])
        if not isinstance(v, Obj) or v.kind != 'symset':
            return None
        fam = v.attrs['family']; op = ctx.name.rsplit('::', 1)[1]
        cnt, _ = self.get(st, fam + '_count', None)
        if op == 'contains':
            c, _ = self.get(st, fam, self.asset(st, ctx.args[1]))
            st.pc.append(z3.Implies(c, z3.UGE(cnt, z3.BitVecVal(1, 64))))
            return [(None, c)]
        if op == 'len':
            return [(None, cnt)]
        return [(None, cnt == 0)]

    def h_deposit_event(self, ctx):
        o = Obj('tendermint::abci::Event', kind='event'); o.attrs['kind'] = 'deposit'; o.fields[('src', 0)] = self.ex.deref_val(ctx.st, ctx.args[0])
        return [(None, o)]

    def h_l0(self, ctx):
        st = ctx.st
        meth = re.search(r'>::(\w+)$', ctx.name).group(1)
        if meth == 'record':
            st.world['events'].append(ctx.args[1])
            st.log.append(('write', 'events', None, ctx.args[1], True, self.state_token(st, ctx.args[0])))
            return [(None, ())]
        raise MirError('storage-layer (L0) call reached without a cell mapping: ' + ctx.callee[:120])

    def h_asset_conv(self, ctx):
        a = self.asset(ctx.st, ctx.args[0])
        if 'Cow' in ctx.ret_ty:
            return [(None, enum('Cow', 'Owned', [a]))]
        return [(None, a)]

    def h_addr_conv(self, ctx):
        if ctx.callee.endswith('display_address'):
            o = Obj('Display', kind='fmt'); return [(None, o)]
        a = self.addr(ctx.st, ctx.args[0])
        if ctx.ret_ty.strip().startswith('&'):
            from vlib.build import cell
            return [(None, cell(a, '[u8; 20]'))]
        return [(None, a)]

    def fut(self, ctx, is_async, alts_fn, **attrs):
        """alts_fn(ex, st, fut) -> alts; evaluated now (sync getters) or at poll time (async)"""
        if not is_async:
            return alts_fn(self.ex, ctx.st, None)
        return [(None, M.thunk_future(alts_fn, **attrs))]

    def h_state_ext(self, ctx):
        m = re.match(r'^<.+ as ([\w:]+::)?State(Read|Write)Ext>::(\w+)', ctx.callee)
        comp, rw, meth = (m.group(1) or ''), m.group(2), m.group(3)
        h = getattr(self, 'm_' + meth, None)
        if h is None and ('price_feed' in comp or 'oracles' in comp or 'market_map' in comp):
            return self.opaque_family(ctx, 'price_feed', rw, meth)
        if h is None:
            return None          # executed from its MIR (L1)
        is_async = 'Future' in ctx.ret_ty or 'Pin<Box' in ctx.ret_ty
        return h(ctx, is_async, comp)

    def m_get_market_map(self, ctx, a, comp):
        """the stored market map: absent, or a map of 0..1 markets keyed by an arbitrary ticker string (shape chosen by fresh Bools)"""
        st = ctx.st
        st.log.append(('read', 'price_feed', 'get_market_map'))
        pres, one = z3.Bool('market_map_present'), z3.Bool('market_map_has_one_market')

        def mk(n):
            def f(s3):
                entries = []
                for j in range(n):
                    k = Obj('std::string::String', kind='opaque'); k.attrs['ident'] = z3.BitVec(f'stored_ticker{j}', 256)
                    entries.append((k, Obj('astria_core::oracles::price_feed::market_map::v2::Market')))
                mm = Obj('astria_core::oracles::price_feed::market_map::v2::MarketMap')
                a_ = self.ex.adts.lookup(mm.ty)
                mm.fields[(None, a_['fields'].index('markets'))] = M.new_map('IndexMap<String, Market>', entries)
                return ok(some(mm))
            return f
        return self.fut(ctx, a, lambda ex, s2, fut: [(z3.And(pres, z3.Not(one)), mk(0)), (z3.And(pres, one), mk(1)), (z3.Not(pres), (lambda s3: ok(none())))])

    def opaque_family(self, ctx, fam, rw, meth):
        """a state_ext module that is not modelled cell by cell: reads return an arbitrary well-typed value (or fail), writes bump the family's version"""
        st = ctx.st
        is_async = 'Future' in ctx.ret_ty or 'Pin<Box' in ctx.ret_ty
        m = re.search(r'Result<(.*), (?:astria_eyre::eyre::Report|ErrReport|eyre::Report|Report)>', ctx.ret_ty)
        inner = m.group(1).strip() if m else None
        n = sum(1 for e in st.log if e[0] in ('read', 'write') and e[1] == fam)
        if rw == 'Read' or meth.startswith('get_'):
            st.log.append(('read', fam, meth))
            okv = z3.Bool(f'{fam}_{meth}_ok_{n}')

            def alts(ex, s2, fut):
                if inner is None:
                    return [(None, ex.fresh(s2, ctx.ret_ty, f'{fam}_{meth}'))]
                om = re.match(r'^(?:std::option::|core::option::)?Option<(.*)>$', inner)
                if om:
                    pres = z3.Bool(f'{fam}_{meth}_present_{n}')
                    return [(z3.And(okv, pres), (lambda s3: ok(some(ex.fresh(s3, om.group(1), f'{fam}_{meth}'))))), (z3.And(okv, z3.Not(pres)), (lambda s3: ok(none()))), (z3.Not(okv), (lambda s3: err()))]
                return [(okv, (lambda s3: ok(ex.fresh(s3, inner, f'{fam}_{meth}')))), (z3.Not(okv), (lambda s3: err()))]
            return self.fut(ctx, is_async, alts)
        ver = z3.BitVec(f'{fam}_version_{n}', 64)
        st.world[fam] = ver
        st.log.append(('write', fam, meth, None, False, self.state_token(st, ctx.args[0])))
        okv = z3.Bool(f'{fam}_{meth}_ok_{n}')

        def walts(ex, s2, fut):
            if inner is None:
                return [(None, ())]
            return [(okv, (lambda s3: ok(()))), (z3.Not(okv), (lambda s3: err()))]
        return self.fut(ctx, is_async, walts)

    # generic helpers -------------------------------------------------------------------------------------------------
    def getter(self, ctx, is_async, fam, keyargs, wrap):
        st = ctx.st
        key = self.key(st, fam, keyargs)

        def alts(ex, s2, fut, key=key):
            v, p = self.get(s2, fam, key)
            return [(None, wrap(v, p))]
        return self.fut(ctx, is_async, alts)

    def putter(self, ctx, fam, keyargs, val, present=True, ret_unit=False):
        st = ctx.st
        key = self.key(st, fam, keyargs)
        self.put(st, fam, key, val, present, self.state_token(st, ctx.args[0]))
        return [(None, () if ret_unit else ok(()))]

    # accounts --------------------------------------------------------------------------------------------------------
    def m_get_account_balance(self, ctx, a, comp):
        return self.getter(ctx, a, 'balance', ctx.args[1:3], lambda v, p: ok(v))

    def m_put_account_balance(self, ctx, a, comp):
        return self.putter(ctx, 'balance', ctx.args[1:3], ctx.args[3])

    def m_get_account_nonce(self, ctx, a, comp):
        return self.getter(ctx, a, 'nonce', ctx.args[1:2], lambda v, p: ok(v))

    def m_put_account_nonce(self, ctx, a, comp):
        return self.putter(ctx, 'nonce', ctx.args[1:2], ctx.args[2])

    # address ---------------------------------------------------------------------------------------------------------
    def m_ensure_base_prefix(self, ctx, a, comp):
        st = ctx.st
        ad = self.ex.deref_val(st, ctx.args[1])
        if 'base_prefixed' not in ad.attrs:
            ad.attrs['base_prefixed'] = z3.Bool(f'base_prefixed_{ad.lz}')
        b = ad.attrs['base_prefixed']
        return self.fut(ctx, a, lambda ex, s2, fut: [(b, ok(())), (z3.Not(b), err())])

    # authority / ibc privileged cells -----------------------------------------------------------------------------------
    def m_get_sudo_address(self, ctx, a, comp):
        return self.getter(ctx, a, 'sudo', [], lambda v, p: ok(v))

    def m_put_sudo_address(self, ctx, a, comp):
        return self.putter(ctx, 'sudo', [], self.addr(ctx.st, ctx.args[1]))

    def m_get_ibc_sudo_address(self, ctx, a, comp):
        return self.getter(ctx, a, 'ibc_sudo', [], lambda v, p: ok(v))

    def m_put_ibc_sudo_address(self, ctx, a, comp):
        return self.putter(ctx, 'ibc_sudo', [], self.addr(ctx.st, ctx.args[1]))

    def m_is_ibc_relayer(self, ctx, a, comp):
        return self.getter(ctx, a, 'ibc_relayer', ctx.args[1:2], lambda v, p: ok(v))

    def m_put_ibc_relayer_address(self, ctx, a, comp):
        return self.putter(ctx, 'ibc_relayer', ctx.args[1:2], z3.BoolVal(True))

    def m_delete_ibc_relayer_address(self, ctx, a, comp):
        return self.putter(ctx, 'ibc_relayer', ctx.args[1:2], z3.BoolVal(False), ret_unit=True)

    # bridge ----------------------------------------------------------------------------------------------------------
    def m_get_bridge_account_rollup_id(self, ctx, a, comp):
        return self.getter(ctx, a, 'bridge_rollup', ctx.args[1:2], lambda v, p: ok(self.opt_obj('Option<RollupId>', v, p)))

    def m_put_bridge_account_rollup_id(self, ctx, a, comp):
        return self.putter(ctx, 'bridge_rollup', ctx.args[1:2], self.ident(ctx.st, ctx.args[2]))

    def m_get_bridge_account_ibc_asset(self, ctx, a, comp):
        st = ctx.st; key = self.key(st, 'bridge_asset', ctx.args[1:2])

        def alts(ex, s2, fut):
            v, p = self.get(s2, 'bridge_asset', key)
            return [(p, ok(v)), (z3.Not(p), err())]
        return self.fut(ctx, a, alts)

    def m_put_bridge_account_ibc_asset(self, ctx, a, comp):
        return self.putter(ctx, 'bridge_asset', ctx.args[1:2], self.asset(ctx.st, ctx.args[2]))

    def m_get_bridge_account_sudo_address(self, ctx, a, comp):
        return self.getter(ctx, a, 'bridge_sudo', ctx.args[1:2], lambda v, p: ok(self.opt_obj('Option<[u8; 20]>', v, p)))

    def m_put_bridge_account_sudo_address(self, ctx, a, comp):
        return self.putter(ctx, 'bridge_sudo', ctx.args[1:2], self.addr(ctx.st, ctx.args[2]))

    def m_get_bridge_account_withdrawer_address(self, ctx, a, comp):
        return self.getter(ctx, a, 'bridge_withdrawer', ctx.args[1:2], lambda v, p: ok(self.opt_obj('Option<[u8; 20]>', v, p)))

    def m_put_bridge_account_withdrawer_address(self, ctx, a, comp):
        return self.putter(ctx, 'bridge_withdrawer', ctx.args[1:2], self.addr(ctx.st, ctx.args[2]))

    def m_get_bridge_account_disabled_status(self, ctx, a, comp):
        return self.getter(ctx, a, 'bridge_disabled', ctx.args[1:2], lambda v, p: ok(self.opt_obj('Option<bool>', v, p)))

    def m_put_bridge_account_disabled_status(self, ctx, a, comp):
        return self.putter(ctx, 'bridge_disabled', ctx.args[1:2], ctx.args[2])

    def m_get_withdrawal_event_rollup_block_number(self, ctx, a, comp):
        return self.getter(ctx, a, 'withdrawal_event', ctx.args[1:3], lambda v, p: ok(self.opt_obj('Option<u64>', v, p)))

    def m_put_withdrawal_event_rollup_block_number(self, ctx, a, comp):
        return self.putter(ctx, 'withdrawal_event', ctx.args[1:3], ctx.args[3])

    def m_get_last_transaction_id_for_bridge_account(self, ctx, a, comp):
        return self.getter(ctx, a, 'bridge_last_tx', ctx.args[1:2], lambda v, p: ok(self.opt_obj('Option<TransactionId>', v, p)))

    def m_put_last_transaction_id_for_bridge_account(self, ctx, a, comp):
        return self.putter(ctx, 'bridge_last_tx', ctx.args[1:2], self.ident(ctx.st, ctx.args[2]))

    def m_cache_deposit_event(self, ctx, a, comp):
        # L1 body (object_get/object_put of a HashMap keyed by rollup id) replaced by an ordered list in the ephemeral store
        st = ctx.st
        st.world['cached_deposits'].append(ctx.args[1])
        st.log.append(('write', 'cached_deposits', None, ctx.args[1], True, self.state_token(st, ctx.args[0])))
        return [(None, ())]

    # ibc -------------------------------------------------------------------------------------------------------------
    def m_get_ibc_channel_balance(self, ctx, a, comp):
        return self.getter(ctx, a, 'escrow', ctx.args[1:3], lambda v, p: ok(v))

    def m_put_ibc_channel_balance(self, ctx, a, comp):
        return self.putter(ctx, 'escrow', ctx.args[1:3], ctx.args[3])

    # fees / assets ---------------------------------------------------------------------------------------------------
    def m_is_allowed_fee_asset(self, ctx, a, comp):
        return self.getter(ctx, a, 'allowed_fee_asset', ctx.args[1:2], lambda v, p: ok(v))

    def m_put_allowed_fee_asset(self, ctx, a, comp):
        return self.putter(ctx, 'allowed_fee_asset', ctx.args[1:2], z3.BoolVal(True))

    def m_delete_allowed_fee_asset(self, ctx, a, comp):
        return self.putter(ctx, 'allowed_fee_asset', ctx.args[1:2], z3.BoolVal(False), ret_unit=True)

    def m_has_ibc_asset(self, ctx, a, comp):
        return self.getter(ctx, a, 'has_ibc_asset', ctx.args[1:2], lambda v, p: ok(v))

    def m_map_ibc_to_trace_prefixed_asset(self, ctx, a, comp):
        st = ctx.st
        aid = self.asset(st, ctx.args[1])

        def alts(ex, s2, fut):
            known, _ = self.get(s2, 'has_ibc_asset', aid)
            t = Obj('astria_core::primitive::v1::asset::TracePrefixed'); t.attrs['asset_id'] = aid
            return [(None, ok(self.opt_obj('Option<TracePrefixed>', t, known)))]
        return self.fut(ctx, a, alts)

    def m_put_ibc_asset(self, ctx, a, comp):
        return self.putter(ctx, 'has_ibc_asset', ctx.args[1:2], z3.BoolVal(True))

    def fee_tag(self, callee, st=None):
        m = re.search(r'(get_fees|put_fees)::<(.+)>$', callee)
        from mirsym.mir import split_top
        name = type_head(split_top(m.group(2))[-1]).split('::')[-1] if m else '?'
        if re.match(r'^[A-Z]\w{0,2}$', name):       # a generic parameter: bound by the obligation
            if st is None or 'generic_F' not in st.world:
                raise MirError('get_fees::<F> with unbound generic F')
            name = st.world['generic_F']
        if name not in self.fee_tags:
            self.fee_tags[name] = len(self.fee_tags) + 1
        return z3.BitVecVal(self.fee_tags[name], 8), name

    def m_get_fees(self, ctx, a, comp):
        st = ctx.st
        tag, name = self.fee_tag(ctx.callee, ctx.st)

        def alts(ex, s2, fut):
            b, p = self.get(s2, 'fees_base', tag)
            mult, _ = self.get(s2, 'fees_mult', tag)
            fc = Obj(f'astria_core::protocol::fees::v1::FeeComponents<{name}>')
            a_ = ex.adts.lookup('astria_core::protocol::fees::v1::FeeComponents')
            if not a_:
                raise MirError('FeeComponents not in ADT table')
            fc.fields[(None, a_['fields'].index('base'))] = b
            fc.fields[(None, a_['fields'].index('multiplier'))] = mult
            return [(None, ok(self.opt_obj(f'Option<FeeComponents<{name}>>', fc, p)))]
        return self.fut(ctx, a, alts)

    def m_put_fees(self, ctx, a, comp):
        st = ctx.st
        tag, name = self.fee_tag(ctx.callee, ctx.st)
        fc = self.ex.deref_val(st, ctx.args[1]); a_ = self.ex.adts.lookup('astria_core::protocol::fees::v1::FeeComponents')
        b = self.ex.read(st, ('field', fc, (None, a_['fields'].index('base'), 'u128')))
        mu = self.ex.read(st, ('field', fc, (None, a_['fields'].index('multiplier'), 'u128')))
        self.put(st, 'fees_base', tag, b, True, self.state_token(st, ctx.args[0]))
        self.put(st, 'fees_mult', tag, mu, True, self.state_token(st, ctx.args[0]))
        return [(None, ok(()))]

    def m_add_fee_to_block_fees(self, ctx, a, comp):
        # L1 body keeps a HashMap<IbcPrefixed,u128> in the ephemeral object store and records a `tx.fees` event;
        # modelled as an append to an ordered list (checked against its MIR separately in C03-3)
        st = ctx.st
        asset = self.asset(st, ctx.args[1])
        st.world['block_fees'].append((asset, ctx.args[2], ctx.args[3]))
        st.log.append(('write', 'block_fees', asset, ctx.args[2], True, self.state_token(st, ctx.args[0])))
        return [(None, ok(()))]

    def m_allowed_fee_assets(self, ctx, a, comp):
        o = Obj('AllowedFeeAssetsStream', kind='symstream'); o.attrs['family'] = 'allowed_fee_asset'
        return [(None, o)]

    # upgrades ----------------------------------------------------------------------------------------------------------
    def m_get_upgrade_change_info(self, ctx, a, comp):
        if ctx.st.world.get('all_upgrades_active'):
            return self.fut(ctx, a, lambda ex, s2, fut: [(None, ok(some(Obj('ChangeInfo'))))])
        if ctx.st.world.get('no_upgrade_active'):
            return self.fut(ctx, a, lambda ex, s2, fut: [(None, ok(none()))])
        return self.getter(ctx, a, 'upgrade_change', ctx.args[1:3], lambda v, p: ok(self.opt_obj('Option<ChangeInfo>', Obj('ChangeInfo'), p)))

    # app -------------------------------------------------------------------------------------------------------------
    def m_get_block_timestamp(self, ctx, a, comp):
        return self.getter(ctx, a, 'block_timestamp', [], lambda v, p: ok(v))

    def m_get_chain_id(self, ctx, a, comp):
        cid = Obj('tendermint::chain::Id'); cid.attrs['ident'] = z3.BitVec('chain_id', 256)
        return self.fut(ctx, a, lambda ex, s2, fut: [(None, ok(cid))])

    def m_try_base_prefixed(self, ctx, a, comp):
        okv = z3.Bool(f'base_prefix_ok_{len(ctx.st.log)}')
        return self.fut(ctx, a, lambda ex, s2, fut: [(okv, (lambda s3: ok(Obj('astria_core::primitive::v1::Address')))), (z3.Not(okv), err())])

    def m_get_block_height(self, ctx, a, comp):
        return self.getter(ctx, a, 'block_height', [], lambda v, p: ok(v))

    def m_get_revision_number(self, ctx, a, comp):
        return self.getter(ctx, a, 'revision_number', [], lambda v, p: ok(v))

    # authority validators ----------------------------------------------------------------------------------------------
    def m_get_block_validator_updates(self, ctx, a, comp):
        def alts(ex, s2, fut):
            inner = M.new_map('BTreeMap<[u8; 20], ValidatorUpdate>', [(k, ex.copy_val(v)) for k, v in s2.world['validator_updates']])
            vs = Obj('authority::ValidatorSet'); vs.fields[(None, 0)] = inner
            return [(None, ok(vs))]
        return self.fut(ctx, a, alts)

    def m_put_block_validator_updates(self, ctx, a, comp):
        st = ctx.st
        vs = self.ex.deref_val(st, ctx.args[1])
        inner = vs.fields[(None, 0)]
        st.world['validator_updates'] = list(inner.attrs['items'])
        st.log.append(('write', 'validator_updates', None, None, True, self.state_token(st, ctx.args[0])))
        return [(None, ok(()))]

    def vkey_addr(self, st, vk):
        """address of a verification key (SHA-256 based): an uninterpreted injective-enough function of the key"""
        vk = self.ex.deref_val(st, vk)
        f = z3.Function('vk_address', z3.BitVecSort(256), z3.BitVecSort(160))
        return f(vk)

    def m_get_validator(self, ctx, a, comp):
        st = ctx.st
        key = self.addr(st, ctx.args[1])

        def alts(ex, s2, fut):
            pw, p = self.get(s2, 'validator_power', key)
            vkey, _ = self.get(s2, 'validator_key', key)
            vu = self.validator_update_obj(ex, vkey, pw)
            return [(None, ok(self.opt_obj('Option<ValidatorUpdate>', vu, p)))]
        return self.fut(ctx, a, alts)

    def validator_update_obj(self, ex, vkey, power, name=None):
        a_ = ex.adts.lookup('astria_core::protocol::transaction::v1::action::ValidatorUpdate')
        if not a_:
            raise MirError('ValidatorUpdate not in ADT table')
        vu = Obj('astria_core::protocol::transaction::v1::action::ValidatorUpdate')
        vu.fields[(None, a_['fields'].index('power'))] = z3.ZeroExt(0, power) if power.size() == 32 else z3.Extract(31, 0, power)
        vu.fields[(None, a_['fields'].index('verification_key'))] = vkey
        return vu

    def m_put_validator(self, ctx, a, comp):
        st = ctx.st; ex = self.ex
        vu = ex.deref_val(st, ctx.args[1])
        a_ = ex.adts.lookup('astria_core::protocol::transaction::v1::action::ValidatorUpdate')
        power = ex.read(st, ('field', vu, (None, a_['fields'].index('power'), 'u32')))
        vkey = ex.read(st, ('field', vu, (None, a_['fields'].index('verification_key'), 'VerificationKey')))
        key = self.vkey_addr(st, vkey)
        tok = self.state_token(st, ctx.args[0])
        self.put(st, 'validator_power', key, z3.ZeroExt(32, power), True, tok)
        self.put(st, 'validator_key', key, vkey, True, tok)
        return [(None, ok(()))]

    def m_remove_validator(self, ctx, a, comp):
        st = ctx.st
        key = self.addr(st, ctx.args[1])
        tok = self.state_token(st, ctx.args[0])

        def alts(ex, s2, fut):
            self.put(s2, 'validator_power', key, None, False, tok)
            return [(None, ())]
        return self.fut(ctx, a, alts)

    def m_get_validator_count(self, ctx, a, comp):
        return self.getter(ctx, a, 'validator_count', [], lambda v, p: ok(v))

    def m_put_validator_count(self, ctx, a, comp):
        return self.putter(ctx, 'validator_count', [], ctx.args[1])


def _install_extra(cls):
    def m_get_block_fees(self, ctx, a, comp):
        st = ctx.st
        m = M.new_map('HashMap<IbcPrefixed, u128>', [(asset, amt) for asset, amt, *_ in st.world['block_fees']])
        st.log.append(('read', 'block_fees', None))
        return [(None, m)]

    def m_clear_block_validator_updates(self, ctx, a, comp):
        st = ctx.st
        st.world['validator_updates'] = []
        st.log.append(('write', 'validator_updates', None, None, False, self.state_token(st, ctx.args[0])))
        return [(None, ())]
    # pre-Aspen validator storage: one ValidatorSet object (world['pre_aspen_set'] = list of (address bv160, ValidatorUpdate object); None = deleted)
    def _set_obj(self, ex, entries):
        inner = M.new_map('BTreeMap<[u8; 20], ValidatorUpdate>', [(k, ex.copy_val(v)) for k, v in entries])
        vs = Obj('authority::ValidatorSet'); vs.fields[(None, 0)] = inner
        return vs

    def m_pre_aspen_get_validator_set(self, ctx, a, comp):
        def alts(ex, s2, fut):
            cur = s2.world.get('pre_aspen_set')
            s2.log.append(('read', 'pre_aspen_set', None))
            if cur is None:
                return [(None, err())]
            return [(None, ok(_set_obj(self, ex, cur)))]
        return self.fut(ctx, a, alts)

    def m_pre_aspen_put_validator_set(self, ctx, a, comp):
        st = ctx.st
        vs = self.ex.deref_val(st, ctx.args[1])
        st.world['pre_aspen_set'] = list(vs.fields[(None, 0)].attrs['items'])
        st.log.append(('write', 'pre_aspen_set', None, None, True, self.state_token(st, ctx.args[0])))
        return [(None, ok(()))]

    def m_aspen_upgrade_remove_validator_set(self, ctx, a, comp):
        st = ctx.st
        st.world['pre_aspen_set'] = None
        st.log.append(('write', 'pre_aspen_set', None, None, False, self.state_token(st, ctx.args[0])))
        return [(None, ok(()))]
    cls.m_get_block_fees = m_get_block_fees
    cls.m_clear_block_validator_updates = m_clear_block_validator_updates
    cls.m_pre_aspen_get_validator_set = m_pre_aspen_get_validator_set
    cls.m_pre_aspen_put_validator_set = m_pre_aspen_put_validator_set
    cls.m_aspen_upgrade_remove_validator_set = m_aspen_upgrade_remove_validator_set


_install_extra(World)
