"""C03 — transactions are atomic and execute at most once, in nonce order (CheckedTransaction::execute, App::execute_transaction)."""
import re
import z3
from vlib.oblig import obligation, mval
from vlib import loader, build as B, actions as A
from vlib.actions import unchanged, poll_result
from vlib.seqworld import World, initial_world, SCALARS
from mirsym.engine import Obj, Ref, Inconclusive, ok, err, enum
from mirsym import models as M


def h_pay_fees_and_execute(ctx):
    """oracle: an action may write anything to the state it is given and returns Ok or Err (fresh Bool per call); the call is logged"""
    st = ctx.st
    idx = ctx.args[4] if len(ctx.args) > 4 else None
    n = sum(1 for e in st.log if e[0] == 'action')
    okv = z3.Bool(f'action_{n}_ok')
    st.log.append(('action', n, idx, okv))

    def alts(ex, s2, fut):
        return [(okv, ok(())), (z3.Not(okv), err(Obj('CheckedActionExecutionError', kind='error')))]
    return [(None, M.thunk_future(alts))]


@obligation('C03', 'C03-1 CheckedTransaction::execute: nonce rule, increment by exactly one, stop at the first failing action')
def c03_1(run):
    hooks = [(re.compile(r'^CheckedAction::pay_fees_and_execute(::<.*>)?$'), h_pay_fees_and_execute)]
    for nact in ((0, 1, 2) if run.tier == 'quick' else (0, 1, 2, 3)):
        ex, W = A.engine(extra_hooks=hooks)
        f = ex.find(r'^checked_transaction::<impl at [^>]*>::execute$')
        run.bound(actions=f'lists of length 0..{2 if run.tier == "quick" else 3} (each action replaced by the oracle "writes anything, returns Ok/Err")', nonce='all u32', state='arbitrary symbolic chain state')
        run.assume('state reads succeed; awaited futures complete; address of the verification key is an uninterpreted function of the key')
        w0 = initial_world()
        tx = Obj('CheckedTransaction')
        acts = M.new_vec('Vec<CheckedAction>', [Obj('CheckedAction') for _ in range(nact)])
        a_ = ex.adts.lookup('CheckedTransaction')
        if not a_ or 'actions' not in a_['fields']:
            raise Inconclusive('CheckedTransaction.actions not found')
        tx.fields[(None, a_['fields'].index('actions'))] = acts
        st = ex.start(f, [B.cell(tx), B.cell(Obj('S', kind='cell'))], world=dict(w0))
        n_ok = 0
        for i, p in enumerate(run.explore(ex, st, poll=True)):
            lab = f'[{nact} actions, path {i}]'
            if p.kind != 'return':
                run.prove(f'no panic {lab}', p.pc, z3.BoolVal(False), detail=p.info); continue
            kind, r = poll_result(p)
            me = ex.read(p, p.roots['args'][0].loc)
            vk = B.fld(ex, p, me, 'verification_key', 'VerificationKey')
            signer = W.addr(p, vk)
            params = B.fld(ex, p, me, 'params', 'TransactionParams')
            pa = ex.adts.lookup(params.ty)
            tx_nonce = ex.read(p, ('field', params, (None, pa['fields'].index('nonce'), 'u32')))
            n0 = z3.Select(w0['nonce'], signer)
            calls = [e for e in p.log if e[0] == 'action']
            nonce_writes = [j for j, e in enumerate(p.log) if e[0] == 'write' and e[1] == 'nonce']
            first_call = min([j for j, e in enumerate(p.log) if e[0] == 'action'], default=None)
            run.sample({'actions': nact, 'path': i, 'result': kind, 'action_calls': len(calls), 'nonce_writes': len(nonce_writes)})
            if kind == 'Ok':
                n_ok += 1
                run.prove(f'Ok => tx nonce equals the stored nonce, stored nonce becomes nonce+1 without wrap {lab}', p.pc,
                          z3.And(tx_nonce == n0, p.world['nonce'] == z3.Store(w0['nonce'], signer, n0 + 1), n0 != z3.BitVecVal(0xffffffff, 32)))
                run.prove(f'Ok => every action ran, in order, and returned Ok {lab}', p.pc,
                          z3.And(z3.BoolVal(len(calls) == nact), *[c[3] for c in calls], *[c[2] == z3.BitVecVal(j, 64) for j, c in enumerate(calls)]))
                run.prove(f'Ok => nonce written exactly once, before the first action {lab}', p.pc,
                          z3.BoolVal(len(nonce_writes) == 1 and (first_call is None or nonce_writes[0] < first_call)))
            else:
                # writes made before a failure are discarded with the delta (C03-2); what matters is that a wrong nonce can never reach Ok (claimed above)
                run.reached(f'Err {lab}')
        if not n_ok:
            raise Inconclusive('vacuity: no Ok path')
    run.require_reached(*run.cur.reach)


def h_begin(ctx):
    st = ctx.st
    d = Obj('StateDelta', kind='cell'); d.attrs['delta'] = True
    st.log.append(('begin_tx', d.lz))
    return [(None, M.some(d))]


def h_tx_execute(ctx):
    st = ctx.st
    tok = W_token(ctx)
    okv = z3.Bool('tx_execute_ok')
    st.log.append(('tx_execute', tok, okv))

    def alts(ex, s2, fut):
        return [(okv, ok(())), (z3.Not(okv), err(Obj('CheckedTransactionExecutionError', kind='error')))]
    return [(None, M.thunk_future(alts))]


def W_token(ctx):
    v = ctx.ex.deref_val(ctx.st, ctx.args[1])
    while isinstance(v, Ref):
        v = ctx.ex.deref_val(ctx.st, v)
    return getattr(v, 'lz', None)


def h_apply(ctx):
    st = ctx.st
    v = ctx.ex.deref_val(st, ctx.args[0])
    st.log.append(('apply', getattr(v, 'lz', None)))
    evs = M.new_vec('Vec<Event>', [])
    return [(None, ((), evs))]


@obligation('C03', 'C03-2 App::execute_transaction: the transaction delta is applied iff execution succeeded')
def c03_2(run):
    hooks = [(re.compile(r'::try_begin_transaction$'), h_begin), (re.compile(r'^CheckedTransaction::execute(::<.*>)?$'), h_tx_execute),
             (re.compile(r'^(cnidarium::)?StateDelta::<.*>::apply$|^<.*StateDelta.*>::apply$'), h_apply)]
    ex, W = A.engine(extra_hooks=hooks)
    f = ex.find(r'^app::<impl at [^>]*>::execute_transaction$')
    run.bound(transaction='actions list of length 0 and 1 (symbolic action kind); CheckedTransaction::execute replaced by the oracle "returns Ok/Err"', unroll='any() over the concrete list')
    run.assume('cnidarium StateDelta semantics (dropping a delta discards its writes; apply commits them) are trusted')
    for nact in (0, 1):
        app = Obj('App'); tx = Obj('CheckedTransaction')
        a_ = ex.adts.lookup('CheckedTransaction')
        tx.fields[(None, a_['fields'].index('actions'))] = M.new_vec('Vec<CheckedAction>', [Obj('CheckedAction') for _ in range(nact)])
        arc = Obj('Arc<CheckedTransaction>', kind='arc'); arc.fields[('in', 0)] = tx
        st = ex.start(f, [B.cell(app), arc], world=dict(initial_world()))
        seen = set()
        for i, p in enumerate(run.explore(ex, st, poll=True)):
            lab = f'[{nact} actions, path {i}]'
            if p.kind != 'return':
                run.prove(f'no panic {lab}', p.pc, z3.BoolVal(False), detail=p.info); continue
            kind, r = poll_result(p)
            begins = [e for e in p.log if e[0] == 'begin_tx']; execs = [e for e in p.log if e[0] == 'tx_execute']; applies = [e for e in p.log if e[0] == 'apply']
            run.sample({'path': i, 'result': kind, 'log': [e[0] for e in p.log if e[0] in ('begin_tx', 'tx_execute', 'apply')]})
            seen.add(kind)
            run.prove(f'execute runs once, on the delta opened for this transaction {lab}', p.pc,
                      z3.BoolVal(len(begins) == 1 and len(execs) == 1 and execs[0][1] == begins[0][1]))
            if kind == 'Ok':
                run.prove(f'Ok => execute succeeded and that same delta was applied exactly once, after execute {lab}', p.pc,
                          z3.And(execs[0][2], z3.BoolVal(len(applies) == 1 and applies[0][1] == begins[0][1])))
            else:
                run.prove(f'Err => execute failed and nothing was applied {lab}', p.pc, z3.And(z3.Not(execs[0][2]), z3.BoolVal(len(applies) == 0)))
        if seen != {'Ok', 'Err'}:
            raise Inconclusive(f'vacuity: outcomes seen {seen}')
    run.require_reached(*run.cur.reach)
