"""C13 — mempool keeps nonce order, no duplicates, no silent loss (transactions_container.rs one-step relations)."""
import os
import re
import z3
from vlib.oblig import obligation, mval
from vlib import loader, build as B, actions as A
from mirsym.engine import Obj, Ref, Inconclusive
from mirsym import models as M

SCALARS = dict(A.SCALARS) if hasattr(A, 'SCALARS') else {}
SCALARS.update({'tokio::time::Instant': 96, 'std::time::Instant': 96, 'Instant': 96})


def engine(hooks=None):
    from vlib.seqworld import SCALARS as S2
    sc = dict(S2); sc.update(SCALARS)
    return loader.load(['astria-sequencer', 'astria-core', 'astria-core-address'], scalar_types=sc, hooks=hooks, max_steps=3_000_000)


def priority(ex, tag):
    g = Obj('astria_core::protocol::transaction::v1::Group')
    return B.struct(ex, 'TransactionPriority', nonce_diff=z3.BitVec(f'nonce_diff_{tag}', 32), time_first_seen=z3.BitVec(f'time_{tag}', 96), group=g), g


def ord_of(ex, st, r):
    return ex.discr_value(st, r)


@obligation('C13', 'C13-1 TransactionPriority is a total order: group first, then lower nonce difference, then earlier arrival')
def c13_1(run):
    ex = engine()
    f = ex.find(r'transactions_container::<impl at [^>]*>::cmp$')
    run.bound(inputs='all pairs / triples of priorities (all 4 groups, all u32 nonce differences, all instants)', unroll='loop-free')
    run.assume('tokio::time::Instant is a totally ordered 96-bit scalar')

    def cmp_expr(pa, pb):
        """run cmp(a, b) and fold the paths into one expression over the discriminant"""
        ps = run.explore(ex, ex.start(f, [B.cell(pa), B.cell(pb)]))
        e = None
        for p in ps:
            if p.kind != 'return':
                raise Inconclusive('cmp can diverge: ' + str(p.info))
            d = ord_of(ex, p, p.result); cond = z3.And(*p.pc) if p.pc else z3.BoolVal(True)
            e = d if e is None else z3.If(cond, d, e)
        return e, ps
    (pa, ga), (pb, gb), (pc, gc) = priority(ex, 'a'), priority(ex, 'b'), priority(ex, 'c')
    ab, ps = cmp_expr(pa, pb)
    # discriminants of the groups (symbolic, constrained to the declared values by the engine)
    st = ps[0]
    gda, gdb = ex.discr_value(st, ex.read(st, ('field', ex.read(st, st.roots['args'][0].loc), (None, 2, 'Group')))), None
    ba, _ = cmp_expr(pb, pa)
    bc, _ = cmp_expr(pb, pc)
    ac, _ = cmp_expr(pa, pc)
    fld = lambda o, n: o.fields[(None, ex.adts.lookup('TransactionPriority')['fields'].index(n))]
    gd = lambda g: g.discr if g.discr is not None else None
    rng = []
    for g in (ga, gb, gc):
        d = g.discr
        rng.append(z3.Or(*[d == z3.BitVecVal(v, 64) for v in (1, 2, 3, 4)]))
    one = z3.BitVecVal(1, 64); zero = z3.BitVecVal(0, 64); neg = z3.BitVecVal(-1, 64)
    run.prove('antisymmetry: cmp(a,b) is the reverse of cmp(b,a)', rng, ab == -ba)
    run.prove('results are only Less / Equal / Greater', rng, z3.Or(ab == neg, ab == zero, ab == one))
    same = z3.And(ga.discr == gb.discr, fld(pa, 'nonce_diff') == fld(pb, 'nonce_diff'), fld(pa, 'time_first_seen') == fld(pb, 'time_first_seen'))
    run.prove('consistent with equality: Equal <=> all three fields equal', rng, (ab == zero) == same)
    run.prove('transitivity: a >= b and b >= c implies a >= c', rng, z3.Implies(z3.And(ab >= zero, bc >= zero), ac >= zero))
    run.prove('same group and smaller nonce difference => strictly greater priority', rng,
              z3.Implies(z3.And(ga.discr == gb.discr, z3.ULT(fld(pa, 'nonce_diff'), fld(pb, 'nonce_diff'))), ab == one))
    run.prove('higher group value => greater priority regardless of nonce and time', rng, z3.Implies(ga.discr > gb.discr, ab == one))
    run.require_reached(*run.cur.reach)


# ---------------------------------------------------------------------------------------------------------------------
ASSET = z3.BitVec('fee_asset', 256)


def mk_ttx(ex, tag, nonce=None):
    n = nonce if nonce is not None else z3.BitVec(f'nonce_{tag}', 32)
    tx = Obj('CheckedTransaction')
    a = ex.adts.lookup('CheckedTransaction')
    params = Obj('astria_core::protocol::transaction::v1::TransactionParams')
    pa = ex.adts.lookup(params.ty)
    params.fields[(None, pa['fields'].index('nonce'))] = n
    tx.fields[(None, a['fields'].index('params'))] = params
    tx.fields[(None, a['fields'].index('tx_id'))] = z3.BitVec(f'txid_{tag}', 256)
    arc = Obj('Arc<CheckedTransaction>', kind='arc'); arc.fields[('in', 0)] = tx
    cost = z3.BitVec(f'cost_{tag}', 128)
    costs = M.new_map('HashMap<IbcPrefixed, u128>', [(ASSET, cost)])
    t = B.struct(ex, 'TimemarkedTransaction', checked_tx=arc, time_first_seen=z3.BitVec(f'time_{tag}', 96), costs=costs)
    t.attrs['tag'] = tag
    return t, n, cost, tx.fields[(None, a['fields'].index('tx_id'))]


def container_view(ex, p, cont):
    m = B.fld(ex, p, cont, 'txs', 'BTreeMap<u32, TimemarkedTransaction>')
    return [(k, ex.deref_val(p, v).attrs.get('tag')) for k, v in m.attrs['items']]


def add_obligation(kind):
    def ob(run):
        ex = engine()
        ex.const_params = {'MAX_TX_COUNT': z3.BitVec('max_tx_count', 64)}
        f = ex.find(r'^(mempool::transactions_container::)?TransactionsForAccount::add$')
        ty = 'PendingTransactionsForAccount' if kind == 'pending' else 'ParkedTransactionsForAccount'
        run.bound(container='0..2 existing transactions (distinct nonces = keys, one fee asset per transaction)', new_tx='arbitrary nonce / id / cost', balances='one asset, arbitrary u128',
                  account_nonce='all u32')
        run.assume('map key == nonce of the stored transaction (established by add itself); a single fee asset (multi-asset cost vectors are outside the bound)')
        for k in (0, 1, 2):
            olds = [mk_ttx(ex, f'old{i}') for i in range(k)]
            txs = M.new_map('BTreeMap<u32, TimemarkedTransaction>', [(n, t) for t, n, _, _ in olds])
            cont = B.struct(ex, ty, txs=txs)
            new, n, c, nid = mk_ttx(ex, 'new')
            acct = z3.BitVec('account_nonce', 32); bal = z3.BitVec('balance', 128)
            balances = M.new_map('HashMap<IbcPrefixed, u128>', [(ASSET, bal)])
            st = ex.start(f, [B.cell(cont), new, acct, B.cell(balances)])
            st.pc += [olds[i][1] != olds[j][1] for i in range(k) for j in range(i + 1, k)]
            st.pc += [z3.ULT(olds[i][1], olds[i + 1][1]) for i in range(k - 1)]
            pre = [(o[1], f'old{i}') for i, o in enumerate(olds)]
            in_keys = z3.Or(*[n == o[1] for o in olds]) if olds else z3.BoolVal(False)
            prev_in = z3.Or(*[n - 1 == o[1] for o in olds]) if olds else z3.BoolVal(False)
            total = z3.ZeroExt(4, c)
            for o in olds:
                total = total + z3.ZeroExt(4, o[2])
            affordable = z3.ULE(total, z3.ZeroExt(4, bal))
            n_ok = 0
            for i, p in enumerate(run.explore(ex, st, allow_havoc=(r'^Arguments::|fmt::',))):
                lab = f'[{kind}, {k} existing, path {i}]'
                if p.kind != 'return':
                    run.prove(f'no panic {lab}', p.pc, z3.BoolVal(False), detail=p.info); continue
                post = container_view(ex, p, ex.read(p, p.roots['args'][0].loc))
                tags = [t for _, t in post]
                res = p.result.discr
                run.sample({'kind': kind, 'existing': k, 'path': i, 'result': res, 'after': tags})
                if res == 'Ok':
                    n_ok += 1
                    base = z3.And(z3.BoolVal(sorted(tags) == sorted([t for _, t in pre] + ['new'])), z3.UGE(n, acct), z3.Not(in_keys), [kk for kk, t in post if t == 'new'][0] == n)
                    if kind == 'pending':
                        run.prove(f'accepted => nonce not used and not below the account nonce, predecessor ready (or it is the account nonce), all costs jointly affordable {lab}', p.pc,
                                  z3.And(base, z3.Or(prev_in, n == acct), affordable))
                    else:
                        run.prove(f'accepted => nonce not used and not below the account nonce, per-account limit not yet reached {lab}', p.pc,
                                  z3.And(base, z3.ULT(z3.BitVecVal(k, 64), ex.const_params['MAX_TX_COUNT'])))
                else:
                    run.prove(f'refused => container unchanged {lab}', p.pc, z3.BoolVal(post == pre if False else tags == [t for _, t in pre]))
            if not n_ok:
                raise Inconclusive('vacuity: no accepting path')
        run.require_reached(*run.cur.reach)
    return ob


obligation('C13', 'C13-2a PendingTransactionsForAccount::add preconditions')(add_obligation('pending'))
obligation('C13', 'C13-2b ParkedTransactionsForAccount::add preconditions')(add_obligation('parked'))


# ----------------------------------------------------------------------------------------------------------------- C13-3
def container_engine(acct_ty):
    def h_addr(ctx):
        t = ctx.ex.deref_val(ctx.st, ctx.args[0])
        return [(None, B.cell(t.attrs['addr']))]

    def h_new(ctx):
        return [(None, B.struct(ctx.ex, acct_ty, txs=M.new_map('BTreeMap<u32, TimemarkedTransaction>', [])))]
    return engine(hooks=[(re.compile(r'^(mempool::transactions_container::)?TimemarkedTransaction::address_bytes$'), h_addr),
                         (re.compile(r'TransactionsForAccount>::new$|^(mempool::transactions_container::)?TransactionsForAccount::new$'), h_new)])


def outer_view(ex, p, cont):
    m = B.fld(ex, p, cont, 'txs', 'HashMap')
    out = []
    for k, v in m.attrs['items']:
        out.append((k, [t for _, t in container_view(ex, p, ex.deref_val(p, v))]))
    return out


def container_obligation(kind):
    def ob(run):
        acct_ty = 'PendingTransactionsForAccount' if kind == 'pending' else 'ParkedTransactionsForAccount'
        cont_ty = 'PendingTransactions' if kind == 'pending' else 'ParkedTransactions'
        ex = container_engine(acct_ty)
        ex.const_params = {'MAX_TX_COUNT': z3.BitVecVal(15, 64), 'MAX_TX_COUNT_PER_ACCOUNT': z3.BitVecVal(15, 64), 'MAX_PARKED_TXS_PER_ACCOUNT': z3.BitVecVal(15, 64)}
        f = ex.find(r'^(mempool::transactions_container::)?TransactionsContainer::add$')
        run.bound(container='0..2 accounts holding 1..2 transactions each (every shape), arbitrary total limit', new_tx='arbitrary signer (equal to an existing account or new), nonce, cost', per_account_limit='15 (the deployed constant)')
        run.assume('accounts in the container are keyed by the signer of the transactions they hold; map key == nonce; a single fee asset')
        n_ok = 0
        shapes = [(), (1,), (2,), (1, 1), (2, 1), (2, 2)]
        for shape in shapes:
            accts = []; pre = []; pc = []
            for ai, cnt in enumerate(shape):
                addr = z3.BitVec(f'acct{ai}', 160)
                olds = [mk_ttx(ex, f'a{ai}t{j}') for j in range(cnt)]
                for o in olds:
                    o[0].attrs['addr'] = addr
                pc += [z3.ULT(olds[j][1], olds[j + 1][1]) for j in range(cnt - 1)]
                inner = B.struct(ex, acct_ty, txs=M.new_map('BTreeMap<u32, TimemarkedTransaction>', [(n, t) for t, n, _, _ in olds]))
                accts.append((addr, inner, olds)); pre.append((addr, [f'a{ai}t{j}' for j in range(cnt)]))
            pc += [accts[i][0] != accts[j][0] for i in range(len(accts)) for j in range(i + 1, len(accts))]
            outer = M.new_map(f'HashMap<[u8; 20], {acct_ty}>', [(a, inner) for a, inner, _ in accts])
            maxc = z3.BitVec('max_tx_count', 64)
            fields = dict(txs=outer, tx_ttl=z3.BitVec('ttl', 96))
            if kind == 'parked':
                fields['max_tx_count'] = maxc
            cont = B.struct(ex, cont_ty, **fields)
            new, n, c, nid = mk_ttx(ex, 'new'); signer = z3.BitVec('new_signer', 160); new.attrs['addr'] = signer
            acct = z3.BitVec('account_nonce', 32); bal = z3.BitVec('balance', 128)
            balances = M.new_map('HashMap<IbcPrefixed, u128>', [(ASSET, bal)])
            st = ex.start(f, [B.cell(cont), new, acct, B.cell(balances)])
            st.pc += pc
            total = sum(shape)
            for i, p in enumerate(run.explore(ex, st, allow_havoc=(r'^Arguments::|fmt::',))):
                lab = f'[{kind}, shape {shape}, path {i}]'
                if p.kind != 'return':
                    run.prove(f'no panic {lab}', p.pc, z3.BoolVal(False), detail=p.info); continue
                post = outer_view(ex, p, ex.read(p, p.roots['args'][0].loc))
                res = p.result.discr
                run.sample({'kind': kind, 'shape': list(shape), 'path': i, 'result': res, 'after': [t for _, t in post]})
                if res == 'Ok':
                    n_ok += 1
                    # where did the new transaction go?
                    homes = [k for k, tags in post if 'new' in tags]
                    others_same = sorted(tuple(t for t in tags if t != 'new') for _, tags in post if [t for t in tags if t != 'new']) == sorted(tuple(t) for _, t in pre)
                    claim = [z3.BoolVal(len(homes) == 1 and others_same and sum(len(t) for _, t in post) == total + 1)]
                    if len(homes) == 1:
                        claim.append(homes[0] == signer)
                        for k, tags in post:
                            olds_here = [t for t in tags if t != 'new']
                            if olds_here:
                                orig = [a for a, tg in pre if tg == olds_here]
                                claim.append(z3.BoolVal(len(orig) == 1))
                                if orig: claim.append(k == orig[0])
                    if kind == 'parked':
                        claim.append(z3.ULT(z3.BitVecVal(total, 64), maxc))
                    run.prove(f'accepted => exactly one transaction added, filed under its own signer, every other transaction stays where it was' + (', and the total was below the pool limit before (so it is within the limit after)' if kind == 'parked' else '') + f' {lab}',
                              p.pc, z3.And(*claim))
                else:
                    same = sorted((str(k), tuple(t)) for k, t in post if t) == sorted((str(k), tuple(t)) for k, t in pre)
                    run.prove(f'refused => container unchanged {lab}', p.pc, z3.BoolVal(same))
        if not n_ok:
            raise Inconclusive('vacuity: no accepting path')
        run.require_reached(*run.cur.reach)
    return ob


obligation('C13', 'C13-3a PendingTransactions::add (container): filed under the signer, nothing else moves')(container_obligation('pending'))
obligation('C13', 'C13-3b ParkedTransactions::add (container): total pool limit respected, filed under the signer, nothing else moves')(container_obligation('parked'))


# ----------------------------------------------------------------------------------------------------------------- C13-4
from mirsym.engine import ok, err, some, none


def maint_hooks(cfg):
    """the two containers are oracles at their method boundary (their own behaviour is decided in C13-2/3); every transaction that leaves one is logged"""
    R = re.compile

    def h_addresses(ctx):
        which = 'pending' if 'PendingTransactions ' in ctx.callee or 'PendingTransactions as' in ctx.callee else 'parked'
        v = M.new_vec('Vec<[u8; 20]>', [cfg['addr']] if which == 'pending' else [])
        it = Obj('Iter', kind='iter'); it.attrs['src'] = v; it.attrs['pos'] = 0; it.attrs['mode'] = 'ref'
        return [(None, it)]

    def h_clean(ctx):
        which = 'pending' if 'PendingTransactions as' in ctx.callee else 'parked'
        ids = cfg['stale_' + which]
        v = M.new_vec('Vec<(TransactionId, RemovalReason)>', [mk_tuple(i) for i in ids])
        ctx.st.log.append(('cleaned', which, tuple(ids)))
        return [(None, v)]

    def mk_tuple(i):
        t = Obj('(TransactionId, RemovalReason)'); t.fields[(None, 0)] = i; r = Obj('RemovalReason'); r.attrs['tag'] = 'stale-or-expired'; t.fields[(None, 1)] = r
        return t

    def h_recost(ctx):
        return [(None, M.thunk_future(lambda ex, s2, fut: [(None, ())]))]

    def h_find(kind):
        def h(ctx):
            ctx.st.log.append(('took', kind, len(cfg[kind])))
            return [(None, M.new_vec('Vec<TimemarkedTransaction>', list(cfg[kind])))]
        return h

    def h_add(ctx):
        which = 'pending' if 'PendingTransactions as' in ctx.callee else 'parked'
        t = ctx.ex.deref_val(ctx.st, ctx.args[1])
        n = sum(1 for e in ctx.st.log if e[0] == 'add')
        okv = z3.Bool(f'{which}_add_ok_{t.attrs["tag"]}')
        ctx.st.log.append(('add', which, t.attrs['tag'], okv))
        e = Obj('InsertionError'); e.discr = z3.BitVec(f'insertion_error_{n}', 64)
        return [(okv, ok(())), (z3.Not(okv), (lambda s2: err(Obj('InsertionError', kind='error'))))]

    def h_balances(ctx):
        okv = z3.Bool('balances_available')
        return [(None, M.thunk_future(lambda ex, s2, fut: [(okv, (lambda s3: ok(M.new_map('HashMap<IbcPrefixed, u128>', [(ASSET, z3.BitVec('balance', 128))])))), (z3.Not(okv), (lambda s3: err(Obj('eyre::Report', kind='error'))))]))]

    def h_removal_add(ctx):
        idv = ctx.ex.deref_val(ctx.st, ctx.args[1]); r = ctx.ex.deref_val(ctx.st, ctx.args[2])
        ctx.st.log.append(('removal', idv, r.discr if isinstance(r, Obj) else None))
        return [(None, ())]
    unit = lambda ctx: [(None, ())]
    return [(R(r'as TransactionsContainer<.*>>::addresses(::<.*>)?$'), h_addresses), (R(r'as TransactionsContainer<.*>>::clean_account_stale_expired$'), h_clean),
            (R(r'as TransactionsContainer<.*>>::recost_transactions(::<.*>)?$'), h_recost), (R(r'^(mempool::transactions_container::)?PendingTransactions::find_demotables$'), h_find('demote')),
            (R(r'^(mempool::transactions_container::)?ParkedTransactions::<.*>::find_promotables$'), h_find('promote')), (R(r'as TransactionsContainer<.*>>::add$'), h_add),
            (R(r'^(mempool::)?get_account_balances(::<.*>)?$'), h_balances), (R(r'^(mempool::)?RemovalCache::add$'), h_removal_add),
            (R(r'^(mempool::)?RecentExecutionResults::add$'), unit), (R(r'^(mempool::)?RecentExecutionResults::len$'), lambda ctx: [(None, z3.BitVec('results_len', 64))]),
            (R(r'^(metrics::)?Metrics::\w+$'), unit), (R(r'PendingTransactions::subtract_contained_costs$'), lambda ctx: [(None, ctx.ex.deref_val(ctx.st, ctx.args[2]) if len(ctx.args) > 2 else Obj('HashMap'))]),
            (R(r'PendingTransactions::pending_nonce$'), lambda ctx: [(None, none())]), (R(r'^(telemetry::display::)?base64'), lambda ctx: [(None, Obj('b64'))])]


@obligation('C13', 'C13-4 run_maintenance accounting: a transaction that leaves ready/parked is re-filed, or it is untracked AND reported as removed with a reason')
def c13_4(run):
    from vlib.seqworld import initial_world
    n_lost_checked = 0
    for shape in ('demote1', 'demote2', 'promote1', 'promote2', 'stale'):
        cfg = {'addr': z3.BitVec('account', 160), 'demote': [], 'promote': [], 'stale_pending': [], 'stale_parked': []}
        ex, W = A.engine(extra_hooks=maint_hooks(cfg))
        moved = []
        k = 2 if shape.endswith('2') else 1
        if shape.startswith('demote') or shape.startswith('promote'):
            for j in range(k):
                t, n, c, tid = mk_ttx(ex, f'm{j}')
                moved.append((t, tid))
            cfg['demote' if shape.startswith('demote') else 'promote'] = [t for t, _ in moved]
        stale = [z3.BitVec('stale_id0', 256)] if shape == 'stale' else []
        cfg['stale_pending'] = stale
        others = [z3.BitVec('other_id', 256)]
        ids = [tid for _, tid in moved] + stale + others
        contained = M.new_map('HashSet<TransactionId>', [(i, ()) for i in ids])
        inner = B.struct(ex, 'MempoolInner', pending=Obj('PendingTransactions', kind='opaque'), parked=Obj('ParkedTransactions', kind='opaque'), comet_bft_removal_cache=Obj('RemovalCache', kind='opaque'),
                         recent_execution_results=Obj('RecentExecutionResults', kind='opaque'), contained_txs=contained, metrics=B.cell(Obj('Metrics', kind='opaque')))
        cands = [n for n in ex.fns if n.endswith('::run_maintenance') and 'closure' not in n and ex.impl_self(n) == (None, 'MempoolInner')]
        if len(cands) != 1:
            raise Inconclusive(f'MempoolInner::run_maintenance not found: {cands}')
        f = cands[0]
        st = ex.start(f, [B.cell(inner), B.cell(Obj('S', kind='cell')), z3.Bool('recost'), M.new_map('HashMap<TransactionId, Arc<ExecTxResult>>', []), z3.BitVec('block_height', 64)], world=dict(initial_world()))
        st.pc += [ids[a] != ids[b] for a in range(len(ids)) for b in range(a + 1, len(ids))]
        for i, p in enumerate(run.explore(ex, st, poll=True, allow_havoc=(r'^Arguments::|fmt::',))):
            lab = f'[{shape}, path {i}]'
            if p.kind != 'return':
                run.prove(f'no panic {lab}', p.pc, z3.BoolVal(False), detail=p.info); continue
            post = B.fld(ex, p, ex.read(p, p.roots['args'][0].loc), 'contained_txs', 'HashSet')
            post_ids = [k_ for k_, _ in post.attrs['items']]
            removals = [e for e in p.log if e[0] == 'removal']
            adds = {e[2]: e[3] for e in p.log if e[0] == 'add'}
            took = any(e[0] == 'took' and e[2] > 0 for e in p.log)
            run.sample({'shape': shape, 'path': i, 'adds': len(adds), 'removals': len(removals), 'tracked_after': len(post_ids)})
            tracked = lambda x: z3.Or(*[x == y for y in post_ids]) if post_ids else z3.BoolVal(False)
            reported = lambda x: z3.Or(*[x == e[1] for e in removals]) if removals else z3.BoolVal(False)
            claim = []
            for t, tid in moved:
                tag = t.attrs['tag']
                if tag in adds:
                    n_lost_checked += 1
                    claim.append(z3.If(adds[tag], z3.And(tracked(tid), z3.Not(reported(tid))), z3.And(z3.Not(tracked(tid)), reported(tid))))
                else:
                    claim.append(z3.BoolVal(not took))     # the account was skipped before anything was taken out
                    claim.append(tracked(tid))
            cleaned = any(e[0] == 'cleaned' for e in p.log)
            for sid in stale:
                claim.append(z3.If(z3.BoolVal(cleaned), z3.And(z3.Not(tracked(sid)), reported(sid)), tracked(sid)))
            for o in others:
                claim.append(z3.And(tracked(o), z3.Not(reported(o))))
            run.prove(f'every transaction taken out of a container is re-filed and still tracked, or untracked and in the removal cache with a reason; untouched transactions stay tracked {lab}', p.pc, z3.And(*claim),
                      replay=replay_demotion if shape.startswith('demote') else None)
    if not n_lost_checked:
        raise Inconclusive('vacuity: no re-filing step reached')
    run.require_reached(*run.cur.reach)


def replay_demotion(model, path):
    """native replay in the shape of the counterexample: a demotion refused by a full parked pool"""
    from vlib import replay
    code = open('/verif/replay_templates/c13_maint.rs').read()
    r = replay.run_crate_test('astria-sequencer', 'crates/astria-sequencer/src/mempool/mod.rs', code, 'verif_replay_c13')
    if not r['lines']:
        return {'mode': 'native-crate-test', 'reproduced': None, 'error': r['output'][-1500:]}
    o = r['lines'][-1]
    return {'mode': 'native-crate-test', 'scenario': 'parked pool limit 1 (held by another account), ready transaction loses its balance, run_maintenance', 'observed': o,
            'reproduced': o['before'] == 'pending' and o['after'] == 'unknown'}


# ----------------------------------------------------------------------------------------------------------------- C13-5
def _impl_fn(ex, name, self_ty):
    cands = [n for n in ex.fns if n.endswith('::' + name) and 'closure' not in n and ((ex.impl_self(n) or (None, ''))[1] or '').split('<')[0] == self_ty]
    if len(cands) != 1:
        raise Inconclusive(f'{self_ty}::{name} not found: {cands}')
    return cands[0]


def _acct(ex, ty, k, tagp='t'):
    olds = [mk_ttx(ex, f'{tagp}{i}') for i in range(k)]
    cont = B.struct(ex, ty, txs=M.new_map('BTreeMap<u32, TimemarkedTransaction>', [(n, t) for t, n, _, _ in olds]))
    pc = [z3.ULT(olds[i][1], olds[i + 1][1]) for i in range(k - 1)] + [z3.ULT(o[1], z3.BitVecVal(0xFFFFFFFF, 32)) for o in olds]
    return cont, olds, pc


def _vec_tags(ex, p, v):
    v = ex.deref_val(p, v)
    if isinstance(v, Obj) and v.kind == 'iter':
        items = v.attrs['src'].attrs['items'][v.attrs.get('pos', 0):]
        items = [x[1] if isinstance(x, tuple) else x for x in items]
    else:
        items = v.attrs['items']
    return [ex.deref_val(p, x).attrs.get('tag') for x in items]


@obligation('C13', 'C13-5a find_demotables: keeps exactly the longest jointly affordable prefix (in nonce order), hands back the rest, loses nothing')
def c13_5a(run):
    ex = engine()
    f = _impl_fn(ex, 'find_demotables', 'PendingTransactionsForAccount')
    run.bound(container='0..3 ready transactions of one account, nonces strictly increasing and < u32::MAX, one fee asset', balances='one asset, arbitrary u128')
    run.assume('nonce u32::MAX is excluded (split point saturates there); a single fee asset')
    for k in (0, 1, 2, 3):
        cont, olds, pc = _acct(ex, 'PendingTransactionsForAccount', k)
        bal = z3.BitVec('balance', 128)
        st = ex.start(f, [B.cell(cont), M.new_map('HashMap<IbcPrefixed, u128>', [(ASSET, bal)])])
        st.pc += pc
        for i, p in enumerate(run.explore(ex, st, allow_havoc=(r'^Arguments::|fmt::',))):
            lab = f'[{k} txs, path {i}]'
            if p.kind != 'return':
                run.prove(f'no panic {lab}', p.pc, z3.BoolVal(False), detail=p.info); continue
            kept = [t for _, t in container_view(ex, p, ex.read(p, p.roots['args'][0].loc))]
            out = _vec_tags(ex, p, p.result)
            run.sample({'txs': k, 'path': i, 'kept': kept, 'demoted': out})
            order = [f't{j}' for j in range(k)]
            j = len(kept)
            cum = lambda n_: sum((z3.ZeroExt(4, olds[x][2]) for x in range(n_)), z3.BitVecVal(0, 132))
            claim = [z3.BoolVal(kept == order[:j] and sorted(out) == sorted(order[j:])), z3.ULE(cum(j), z3.ZeroExt(4, bal))]
            if j < k:
                claim.append(z3.UGT(cum(j + 1), z3.ZeroExt(4, bal)))
            run.prove(f'kept = longest affordable prefix, demoted = exactly the rest {lab}', p.pc, z3.And(*claim))
    run.require_reached(*run.cur.reach)


@obligation('C13', 'C13-5b find_promotables: hands out exactly the longest run of consecutive nonces from the target that is jointly affordable, keeps the rest')
def c13_5b(run):
    ex = engine()
    ex.const_params = {'MAX_TX_COUNT': z3.BitVecVal(15, 64)}
    f = _impl_fn(ex, 'find_promotables', 'ParkedTransactionsForAccount')
    run.bound(container='0..3 parked transactions of one account, nonces strictly increasing and < u32::MAX, one fee asset', target='all u32', balances='one asset, arbitrary u128')
    for k in (0, 1, 2, 3):
        cont, olds, pc = _acct(ex, 'ParkedTransactionsForAccount', k)
        bal = z3.BitVec('balance', 128); target = z3.BitVec('target_nonce', 32)
        st = ex.start(f, [B.cell(cont), target, M.new_map('HashMap<IbcPrefixed, u128>', [(ASSET, bal)])])
        st.pc += pc
        for i, p in enumerate(run.explore(ex, st, allow_havoc=(r'^Arguments::|fmt::',))):
            lab = f'[{k} txs, path {i}]'
            if p.kind != 'return':
                run.prove(f'no panic {lab}', p.pc, z3.BoolVal(False), detail=p.info); continue
            kept = [t for _, t in container_view(ex, p, ex.read(p, p.roots['args'][0].loc))]
            out = _vec_tags(ex, p, p.result)
            run.sample({'txs': k, 'path': i, 'kept': kept, 'promoted': out})
            order = [f't{j}' for j in range(k)]
            j = len(out)
            cum = lambda n_: sum((z3.ZeroExt(4, olds[x][2]) for x in range(n_)), z3.BitVecVal(0, 132))
            claim = [z3.BoolVal(out == order[:j] and kept == order[j:]), z3.ULE(cum(j), z3.ZeroExt(4, bal))]
            claim += [olds[x][1] == target + x for x in range(j)]
            if j < k:
                claim.append(z3.Or(olds[j][1] != target + j, z3.UGT(cum(j + 1), z3.ZeroExt(4, bal))))
            run.prove(f'promoted = longest run target, target+1, ... that is jointly affordable; kept = the rest {lab}', p.pc, z3.And(*claim))
    run.require_reached(*run.cur.reach)


# ----------------------------------------------------------------------------------------------------------------- C13-6
@obligation('C13', 'C13-6 builder_queue: every ready transaction enters the sort with priority (group, nonce - account\'s first ready nonce, arrival time); the result is the descending order of that key')
def c13_6(run):
    captured = {}

    def h_sort(ctx):
        v = M.shaped(ctx.ex, ctx.st, ctx.args[0], 'queue')
        ctx.st.log.append(('sorted_by_key', tuple(v.attrs['items'])))
        return [(None, ())]
    ex = container_engine('PendingTransactionsForAccount')
    ex.hooks.insert(0, (re.compile(r'sort_unstable_by_key(::<.*>)?$'), h_sort)) if hasattr(ex, 'hooks') else None
    f = _impl_fn(ex, 'builder_queue', 'PendingTransactions')
    run.bound(container='1..2 accounts with 1..2 ready transactions each', sort='sort_unstable_by_key is the standard library (ascending by the key closure); the total order of the key is decided in C13-1')
    run.assume('map key == nonce of the stored transaction; the sort is modelled as ascending order of the captured keys (identity permutation: the captured list is taken to be that order)')
    for shape in [(1,), (2,), (1, 1), (2, 1), (2, 2)]:
        accts = []; pc = []; allt = []
        for ai, cnt in enumerate(shape):
            addr = z3.BitVec(f'acct{ai}', 160)
            olds = [mk_ttx(ex, f'a{ai}t{j}') for j in range(cnt)]
            for o in olds:
                o[0].attrs['addr'] = addr
                tx = ex.deref_val(None, o[0]) if False else None
            pc += [z3.ULT(olds[j][1], olds[j + 1][1]) for j in range(cnt - 1)]
            inner = B.struct(ex, 'PendingTransactionsForAccount', txs=M.new_map('BTreeMap<u32, TimemarkedTransaction>', [(n, t) for t, n, _, _ in olds]))
            accts.append((addr, inner, olds)); allt += [(o, olds[0][1]) for o in olds]
        pc += [accts[i][0] != accts[j][0] for i in range(len(accts)) for j in range(i + 1, len(accts))]
        cont = B.struct(ex, 'PendingTransactions', txs=M.new_map('HashMap<[u8; 20], PendingTransactionsForAccount>', [(a, inner) for a, inner, _ in accts]), tx_ttl=z3.BitVec('ttl', 96))
        st = ex.start(f, [B.cell(cont)])
        st.pc += pc
        for i, p in enumerate(run.explore(ex, st, allow_havoc=(r'^Arguments::|fmt::',))):
            lab = f'[shape {shape}, path {i}]'
            if p.kind != 'return':
                run.prove(f'no panic {lab}', p.pc, z3.BoolVal(False), detail=p.info); continue
            sorts = [e for e in p.log if e[0] == 'sorted_by_key']
            if len(sorts) != 1:
                run.prove(f'the queue is sorted exactly once {lab}', p.pc, z3.BoolVal(False)); continue
            entries = [ex.deref_val(p, x) for x in sorts[0][1]]
            out = [ex.deref_val(p, x) for x in ex.deref_val(p, p.result).attrs['items']]
            def txid(arc):
                a_ = ex.deref_val(p, arc); inner = ex.deref_val(p, a_.fields[('in', 0)]) if isinstance(a_, Obj) and a_.kind == 'arc' else a_
                return B.fld(ex, p, inner, 'tx_id', 'TransactionId')
            def qfield(e_, name):
                # QueueEntry is local to builder_queue (not in the ADT table): fields in declaration order checked_tx, priority
                keys = sorted(k_ for k_ in e_.fields if k_[0] is None)
                byname = {k_: v_ for k_, v_ in e_.fields.items() if k_[0] == name or (len(k_) > 2 and k_[2] == name)}
                if byname:
                    return ex.deref_val(p, list(byname.values())[0])
                return ex.deref_val(p, e_.fields[(None, 0 if name == 'checked_tx' else 1)])
            claim = [z3.BoolVal(len(entries) == len(allt) and len(out) == len(entries))]
            if len(entries) == len(allt):
                for e_, ((t, n, c, tid), first) in zip(entries, allt):
                    pr = qfield(e_, 'priority')
                    claim += [txid(qfield(e_, 'checked_tx')) == tid, B.fld(ex, p, pr, 'nonce_diff', 'u32') == n - first,
                              B.fld(ex, p, pr, 'time_first_seen', 'Instant') == B.fld(ex, p, t, 'time_first_seen', 'Instant')]
                for o_, e_ in zip(out, reversed(entries)):
                    claim.append(txid(o_) == txid(qfield(e_, 'checked_tx')))
            run.sample({'shape': list(shape), 'path': i, 'entries': len(entries), 'out': len(out)})
            run.prove(f'every ready transaction is queued once with nonce difference relative to its account\'s first ready nonce and its own arrival time; output = reverse of the ascending sort {lab}', p.pc, z3.And(*claim))
    run.require_reached(*run.cur.reach)


# ----------------------------------------------------------------------------------------------------------------- C13-7
@obligation('C13', 'C13-7 MempoolInner::insert accounting: accepted => filed in exactly one container and tracked; refused => not tracked; promoted transactions are re-filed or reported')
def c13_7(run):
    n_ok = 0
    run.bound(promotable='0..2 parked transactions become promotable', containers='pending / parked add and find_promotables are oracles that may refuse with any InsertionError (decided in C13-2/3/5)')
    run.assume('transaction nonce < u32::MAX: insert() panics (`expect`) when a transaction with nonce u32::MAX becomes ready, which needs 2^32-1 executed transactions of one account; excluded as unreachable and listed in DESIGN.md')
    for k in (0, 1, 2):
        cfg = {'addr': z3.BitVec('account', 160), 'demote': [], 'promote': [], 'stale_pending': [], 'stale_parked': []}
        hooks = maint_hooks(cfg)

        def h_add(ctx):
            which = 'pending' if 'PendingTransactions as' in ctx.callee else 'parked'
            t = ctx.ex.deref_val(ctx.st, ctx.args[1])
            tag = t.attrs.get('tag', 'new')
            okv = z3.Bool(f'{which}_add_ok_{tag}')
            code = z3.BitVec(f'{which}_add_error_{tag}', 64)
            ctx.st.log.append(('add', which, tag, okv, code))
            a = ctx.ex.adts.lookup('InsertionError')
            nvar = len(a['variants'])

            def mk_err(s2):
                e = Obj('mempool::transactions_container::InsertionError'); e.discr = code
                s2.pc.append(z3.ULT(code, nvar))
                return err(e)
            return [(okv, ok(())), (z3.Not(okv), mk_err)]

        def h_new_ttx(ctx):
            arc = ctx.args[0]
            t = B.struct(ctx.ex, 'TimemarkedTransaction', checked_tx=arc, time_first_seen=z3.BitVec('now', 96), costs=ctx.args[1])
            t.attrs['tag'] = 'new'; t.attrs['addr'] = cfg['addr']
            return [(None, t)]
        hooks = [(re.compile(r'as TransactionsContainer<.*>>::add$'), h_add), (re.compile(r'^(mempool::transactions_container::)?TimemarkedTransaction::new$'), h_new_ttx),
                 (re.compile(r'^(mempool::transactions_container::)?TimemarkedTransaction::address_bytes$'), lambda ctx: [(None, B.cell(cfg['addr']))]),
                 (re.compile(r'as TransactionsContainer<.*>>::len$'), lambda ctx: [(None, z3.BitVec('parked_len', 64))])] + hooks
        ex, W = A.engine(extra_hooks=hooks)
        promo = []
        for j in range(k):
            t, n, c, tid = mk_ttx(ex, f'm{j}'); promo.append((t, tid))
        cfg['promote'] = [t for t, _ in promo]
        new, nn, nc, nid = mk_ttx(ex, 'newsrc')
        arc = B.fld(ex, None, new, 'checked_tx', 'Arc<CheckedTransaction>') if False else new.fields[(None, ex.adts.lookup('TimemarkedTransaction')['fields'].index('checked_tx'))]
        other = z3.BitVec('other_id', 256)
        ids = [tid for _, tid in promo] + [other]
        contained = M.new_map('HashSet<TransactionId>', [(i, ()) for i in ids])
        inner = B.struct(ex, 'MempoolInner', pending=Obj('PendingTransactions', kind='opaque'), parked=Obj('ParkedTransactions', kind='opaque'), comet_bft_removal_cache=Obj('RemovalCache', kind='opaque'),
                         recent_execution_results=Obj('RecentExecutionResults', kind='opaque'), contained_txs=contained, metrics=B.cell(Obj('Metrics', kind='opaque')))
        f = _impl_fn(ex, 'insert', 'MempoolInner')
        st = ex.start(f, [B.cell(inner), arc, z3.BitVec('account_nonce', 32), B.cell(M.new_map('HashMap<IbcPrefixed, u128>', [(ASSET, z3.BitVec('balance', 128))])), M.new_map('HashMap<IbcPrefixed, u128>', [(ASSET, nc)])])
        allids = ids + [nid]
        st.pc += [allids[a] != allids[b] for a in range(len(allids)) for b in range(a + 1, len(allids))]
        st.pc.append(nn != z3.BitVecVal(0xFFFFFFFF, 32))
        a_ie = ex.adts.lookup('InsertionError'); vidx = {v['name']: i for i, v in enumerate(a_ie['variants'])}
        for i, p in enumerate(run.explore(ex, st, allow_havoc=(r'^Arguments::|fmt::',))):
            lab = f'[{k} promotable, path {i}]'
            if p.kind != 'return':
                run.prove(f'no panic {lab}', p.pc, z3.BoolVal(False), detail=p.info); continue
            post = B.fld(ex, p, ex.read(p, p.roots['args'][0].loc), 'contained_txs', 'HashSet')
            post_ids = [k_ for k_, _ in post.attrs['items']]
            removals = [e for e in p.log if e[0] == 'removal']
            adds = [e for e in p.log if e[0] == 'add']
            tracked = lambda x: z3.Or(*[x == y for y in post_ids]) if post_ids else z3.BoolVal(False)
            reported = lambda x: z3.Or(*[x == e[1] for e in removals]) if removals else z3.BoolVal(False)
            res = p.result
            kind = res.discr
            newadds = [e for e in adds if e[2] == 'new']
            pend = [e for e in newadds if e[1] == 'pending']; park = [e for e in newadds if e[1] == 'parked']
            run.sample({'promotable': k, 'path': i, 'result': kind, 'adds': [(e[1], e[2]) for e in adds], 'removals': len(removals)})
            claim = [tracked(other), z3.Not(reported(other)), z3.BoolVal(len(pend) == 1 and len(park) <= 1)]
            if kind == 'Ok':
                n_ok += 1
                status = ex.deref_val(p, res.fields[('Ok', 0)])
                sd = ex.discr_value(p, status) if not isinstance(status.discr, str) else status.discr
                a_st = ex.adts.lookup('InsertionStatus'); sidx = {v['name']: j_ for j_, v in enumerate(a_st['variants'])}
                in_pending = pend[0][3] if pend else z3.BoolVal(False)
                in_parked = z3.And(z3.Not(in_pending), park[0][3]) if park else z3.BoolVal(False)
                gap_or_bal = z3.Or(pend[0][4] == vidx['NonceGap'], pend[0][4] == vidx['AccountBalanceTooLow']) if pend else z3.BoolVal(False)
                is_pending = (sd == sidx['AddedToPending']) if not isinstance(sd, str) else z3.BoolVal(sd == 'AddedToPending')
                claim += [tracked(nid), z3.Xor(in_pending, in_parked), is_pending == in_pending, z3.Implies(in_parked, gap_or_bal), z3.BoolVal(not park) if False else z3.BoolVal(True)]
                # the parked container is only consulted after a gap / balance refusal
                claim.append(z3.BoolVal(bool(park)) == z3.And(z3.Not(in_pending), gap_or_bal) if pend else z3.BoolVal(False))
                for t, tid in promo:
                    e_ = [e for e in adds if e[2] == t.attrs['tag']]
                    if e_:
                        claim.append(z3.BoolVal(len(e_) == 1 and e_[0][1] == 'pending'))
                        claim.append(z3.If(e_[0][3], z3.And(tracked(tid), z3.Not(reported(tid))), z3.And(z3.Not(tracked(tid)), reported(tid))))
                    else:
                        claim.append(z3.And(tracked(tid), z3.Not(reported(tid))))
                        claim.append(z3.Not(in_pending))          # promotables are taken out only after the new transaction became ready
            else:
                claim += [z3.Not(tracked(nid)), z3.Not(pend[0][3]) if pend else z3.BoolVal(False)] + [z3.Not(e[3]) for e in park]
                claim += [z3.And(tracked(tid), z3.Not(reported(tid))) for _, tid in promo] + [z3.BoolVal(not any(e[2] != 'new' for e in adds))]
            run.prove(f'insert files the transaction in exactly one container iff it reports success, tracks it iff filed, and every promoted transaction is re-filed or reported {lab}', p.pc, z3.And(*claim))
    if not n_ok:
        raise Inconclusive('vacuity: no accepting path')
    run.require_reached(*run.cur.reach)


# ----------------------------------------------------------------------------------------------------------------- C13-8
def _same(a, b):
    """equality that is simply false when the two values are not even of the same shape (a changed implementation may hand back something else)"""
    if z3.is_expr(a) and z3.is_expr(b) and a.sort() == b.sort():
        return a == b
    return z3.BoolVal(False)


@obligation('C13', 'C13-8 clean_account_stale_expired: exactly the used nonces are removed (included / stale), an expired first transaction takes every later one with it, everything else stays; each removal is reported with its reason')
def c13_8(run):
    def h_expired(ctx):
        t = ctx.ex.deref_val(ctx.st, ctx.args[0])
        return [(None, z3.Bool(f'expired_{t.attrs["tag"]}'))]
    hooks = [(re.compile(r'^(mempool::transactions_container::)?TimemarkedTransaction::is_expired$'), h_expired),
             (re.compile(r'^(tokio::time::|std::time::)?Instant::now$'), lambda ctx: [(None, z3.BitVec('now', 96))]),
             (re.compile(r'^<Arc<.*ExecTxResult> as Clone>::clone$'), lambda ctx: [(None, ctx.ex.deref_val(ctx.st, ctx.args[0]))]),
             (re.compile(r'^(mempool::transactions_container::)?TimemarkedTransaction::address_bytes$'), lambda ctx: [(None, B.cell(ctx.ex.deref_val(ctx.st, ctx.args[0]).attrs['addr']))])]
    ex = engine(hooks=hooks)
    f = ex.find(r'^(mempool::transactions_container::)?TransactionsContainer::clean_account_stale_expired$')
    a_rr = ex.adts.lookup('RemovalReason'); rr = {v['name']: i for i, v in enumerate(a_rr['variants'])}
    run.bound(account='0..3 transactions of the cleaned account (nonces strictly increasing), one other account', included='0..1 transaction ids reported as included in the block', expiry='TimemarkedTransaction::is_expired is an oracle per transaction',
              instantiation='Self = PendingTransactions (the default trait method is shared with ParkedTransactions)')
    n = 0
    for k in (0, 1, 2, 3):
        for ninc in (0, 1):
            addr, other = z3.BitVec('account', 160), z3.BitVec('other_account', 160)
            olds = [mk_ttx(ex, f't{j}') for j in range(k)]
            for o in olds: o[0].attrs['addr'] = addr
            oth = mk_ttx(ex, 'other'); oth[0].attrs['addr'] = other
            mine = B.struct(ex, 'PendingTransactionsForAccount', txs=M.new_map('BTreeMap<u32, TimemarkedTransaction>', [(n_, t) for t, n_, _, _ in olds]))
            theirs = B.struct(ex, 'PendingTransactionsForAccount', txs=M.new_map('BTreeMap<u32, TimemarkedTransaction>', [(oth[1], oth[0])]))
            entries = ([(addr, mine)] if k else []) + [(other, theirs)]
            cont = B.struct(ex, 'PendingTransactions', txs=M.new_map('HashMap<[u8; 20], PendingTransactionsForAccount>', entries), tx_ttl=z3.BitVec('ttl', 96))
            inc_ids = [z3.BitVec(f'included_id{j}', 256) for j in range(ninc)]
            included = M.new_map('HashMap<TransactionId, Arc<ExecTxResult>>', [(i_, Obj('Arc<ExecTxResult>', kind='arc')) for i_ in inc_ids])
            cur = z3.BitVec('current_nonce', 32)
            st = ex.start(f, [B.cell(cont), B.cell(addr), cur, B.cell(included), z3.BitVec('block_height', 64)])
            st.pc += [z3.ULT(olds[j][1], olds[j + 1][1]) for j in range(k - 1)] + [addr != other]
            ids = [o[3] for o in olds]
            st.pc += [ids[a] != ids[b] for a in range(k) for b in range(a + 1, k)]
            for i, p in enumerate(run.explore(ex, st, allow_havoc=(r'^Arguments::|fmt::',))):
                lab = f'[{k} txs, {ninc} included ids, path {i}]'
                if p.kind != 'return':
                    run.prove(f'no panic {lab}', p.pc, z3.BoolVal(False), detail=p.info); continue
                n += 1
                post = outer_view(ex, p, ex.read(p, p.roots['args'][0].loc))
                kept = [tags for kk, tags in post if 't0' in tags or 't1' in tags or 't2' in tags]
                kept = kept[0] if kept else []
                others_ok = any(tags == ['other'] for _, tags in post) and len(post) == (2 if kept else 1)
                removed = []
                for x in ex.deref_val(p, p.result).attrs['items']:
                    x = ex.deref_val(p, x)
                    idv, reason = (x if isinstance(x, tuple) else (x.fields[(None, 0)], x.fields[(None, 1)]))
                    reason = ex.deref_val(p, reason)
                    removed.append((ex.deref_val(p, idv), reason.discr if isinstance(reason.discr, str) else None))
                run.sample({'txs': k, 'included': ninc, 'path': i, 'kept': kept, 'removed': [r for _, r in removed]})
                order = [f't{j}' for j in range(k)]
                # kept must be a contiguous suffix-start: stale prefix removed; possibly everything removed by expiry
                claim = [z3.BoolVal(others_ok)]
                js = len(order) - len(kept) if kept else None
                if kept:
                    s_ = k - len(kept)
                    claim.append(z3.BoolVal(kept == order[s_:] and len(removed) == s_))
                    claim += [z3.ULT(olds[j][1], cur) for j in range(s_)] + [z3.UGE(olds[s_][1], cur), z3.Not(z3.Bool(f'expired_t{s_}'))]
                    for j in range(s_):
                        inc = z3.Or(*[ids[j] == x for x in inc_ids]) if inc_ids else z3.BoolVal(False)
                        claim += [_same(removed[j][0], ids[j]), z3.If(inc, z3.BoolVal(removed[j][1] == 'IncludedInBlock'), z3.BoolVal(removed[j][1] == 'NonceStale'))]
                else:
                    claim.append(z3.BoolVal(len(removed) == k))
                    if len(removed) == k:
                        # some prefix is stale, the rest (if any) went with an expired first transaction
                        alts = []
                        for s_ in range(k + 1):
                            c_ = [z3.ULT(olds[j][1], cur) for j in range(s_)]
                            for j in range(s_):
                                inc = z3.Or(*[ids[j] == x for x in inc_ids]) if inc_ids else z3.BoolVal(False)
                                c_ += [_same(removed[j][0], ids[j]), z3.If(inc, z3.BoolVal(removed[j][1] == 'IncludedInBlock'), z3.BoolVal(removed[j][1] == 'NonceStale'))]
                            if s_ < k:
                                c_ += [z3.UGE(olds[s_][1], cur), z3.Bool(f'expired_t{s_}'), _same(removed[s_][0], ids[s_]), z3.BoolVal(removed[s_][1] == 'Expired')]
                                c_ += [z3.And(_same(removed[j][0], ids[j]), z3.BoolVal(removed[j][1] == 'LowerNonceInvalidated')) for j in range(s_ + 1, k)]
                            alts.append(z3.And(*c_) if c_ else z3.BoolVal(True))
                        claim.append(z3.Or(*alts))
                run.prove(f'removed = the used nonces (reason included / stale) plus, if the first remaining transaction expired, it (Expired) and all later ones (LowerNonceInvalidated); the rest is kept in order; other accounts untouched {lab}',
                          p.pc, z3.And(*claim))
    if not n:
        raise Inconclusive('vacuity')
    run.require_reached(*run.cur.reach)


# ----------------------------------------------------------------------------------------------------------------- C13-9
@obligation('C13', 'C13-9 TransactionsContainer::remove: removes the transaction at that nonce and every higher nonce of the account, reports exactly their ids, keeps lower nonces and other accounts; unknown account / nonce => nothing changes')
def c13_9(run):
    def h_addr(ctx):
        t = ctx.ex.deref_val(ctx.st, ctx.args[0])
        if isinstance(t, Obj) and t.kind == 'arc':
            t = ctx.ex.deref_val(ctx.st, t.fields[('in', 0)])
        return [(None, B.cell(t.attrs['addr']))]
    hooks = [(re.compile(r'^(mempool::transactions_container::)?TimemarkedTransaction::address_bytes$|CheckedTransaction as ([\w:]+::)?AddressBytes>::address_bytes$|^(checked_transaction::)?CheckedTransaction::address_bytes$'), h_addr)]
    ex = engine(hooks=hooks)
    f = ex.find(r'^(mempool::transactions_container::)?TransactionsContainer::remove$')
    run.bound(account='0..3 transactions (nonces strictly increasing) of the account, one other account', target='arbitrary transaction: signer equal to the account or not, arbitrary nonce',
              instantiation='Self = PendingTransactions (default trait method shared with ParkedTransactions)')
    seen = set()
    for k in (0, 1, 2, 3):
        addr, other = z3.BitVec('account', 160), z3.BitVec('other_account', 160)
        olds = [mk_ttx(ex, f't{j}') for j in range(k)]
        for o in olds: o[0].attrs['addr'] = addr
        oth = mk_ttx(ex, 'other'); oth[0].attrs['addr'] = other
        mine = B.struct(ex, 'PendingTransactionsForAccount', txs=M.new_map('BTreeMap<u32, TimemarkedTransaction>', [(n_, t) for t, n_, _, _ in olds]))
        theirs = B.struct(ex, 'PendingTransactionsForAccount', txs=M.new_map('BTreeMap<u32, TimemarkedTransaction>', [(oth[1], oth[0])]))
        entries = ([(addr, mine)] if k else []) + [(other, theirs)]
        cont = B.struct(ex, 'PendingTransactions', txs=M.new_map('HashMap<[u8; 20], PendingTransactionsForAccount>', entries), tx_ttl=z3.BitVec('ttl', 96))
        tgt, tn, _, tid = mk_ttx(ex, 'target')
        arc = tgt.fields[(None, ex.adts.lookup('TimemarkedTransaction')['fields'].index('checked_tx'))]
        signer = z3.BitVec('target_signer', 160)
        ex.deref_val(None, arc) if False else None
        inner_tx = arc.fields[('in', 0)]; inner_tx.attrs['addr'] = signer
        st = ex.start(f, [B.cell(cont), arc])
        st.pc += [z3.ULT(olds[j][1], olds[j + 1][1]) for j in range(k - 1)] + [addr != other, signer != other]
        ids = [o[3] for o in olds]
        for i, p in enumerate(run.explore(ex, st, allow_havoc=(r'^Arguments::|fmt::',))):
            lab = f'[{k} txs, path {i}]'
            if p.kind != 'return':
                run.prove(f'no panic {lab}', p.pc, z3.BoolVal(False), detail=p.info); continue
            post = outer_view(ex, p, ex.read(p, p.roots['args'][0].loc))
            kept = [tags for kk, tags in post if any(t.startswith('t') and t != 'other' for t in tags)]
            kept = kept[0] if kept else []
            others_ok = any(tags == ['other'] for _, tags in post) and len(post) == (2 if kept else 1)
            res = p.result.discr; seen.add(res)
            order = [f't{j}' for j in range(k)]
            run.sample({'txs': k, 'path': i, 'result': res, 'kept': kept})
            if res == 'Ok':
                got = [ex.deref_val(p, x) for x in ex.deref_val(p, p.result.fields[('Ok', 0)]).attrs['items']]
                s_ = len(kept)
                run.prove(f'removed = the transaction at the target nonce and all higher nonces, ids reported in nonce order; lower nonces and other accounts kept {lab}', p.pc,
                          z3.And(z3.BoolVal(others_ok and kept == order[:s_] and len(got) == k - s_ and s_ < k), signer == addr, olds[s_][1] == tn if s_ < k else z3.BoolVal(False),
                                 *[got[j - s_] == ids[j] for j in range(s_, k) if len(got) == k - s_]))
            else:
                run.prove(f'not found => account unknown or no transaction at that nonce; container unchanged {lab}', p.pc,
                          z3.And(z3.BoolVal(others_ok and kept == order), z3.Or(signer != addr, z3.BoolVal(k == 0), *[z3.BoolVal(True)] if False else [z3.And(*[o[1] != tn for o in olds])])))
    if seen != {'Ok', 'Err'}:
        raise Inconclusive(f'vacuity: outcomes {seen}')
    run.require_reached(*run.cur.reach)


# ----------------------------------------------------------------------------------------------------------------- C13-10
@obligation('C13', 'C13-10 remove_tx_invalid accounting: every transaction removed from ready / parked is untracked and reported with a reason (the failing one with the given reason); nothing else changes')
def c13_10(run):
    n_removed = 0
    for shape in [(0, 0, 0), (1, 0, 0), (2, 1, 0), (1, 2, 0), (0, 0, 1), (0, 0, 2)]:
        npend, nclear, npark = shape
        pend_ids = [z3.BitVec(f'pending_removed{j}', 256) for j in range(npend)]
        clear_ids = [z3.BitVec(f'parked_cleared{j}', 256) for j in range(nclear)]
        park_ids = [z3.BitVec(f'parked_removed{j}', 256) for j in range(npark)]

        def h_remove(ctx):
            which = 'pending' if 'PendingTransactions as' in ctx.callee else 'parked'
            ids_ = pend_ids if which == 'pending' else park_ids
            ctx.st.log.append(('remove', which))
            tx = ctx.args[1]
            if ids_:
                return [(None, ok(M.new_vec('Vec<TransactionId>', list(ids_))))]
            return [(None, err(tx))]

        def h_clear(ctx):
            ctx.st.log.append(('clear_account', 'parked'))
            return [(None, M.new_vec('Vec<TransactionId>', list(clear_ids)))]

        def h_removal_add(ctx):
            idv = ctx.ex.deref_val(ctx.st, ctx.args[1]); r = ctx.ex.deref_val(ctx.st, ctx.args[2])
            ctx.st.log.append(('removal', idv, r.attrs.get('tag') if isinstance(r, Obj) else None, r.discr if isinstance(r, Obj) else None))
            return [(None, ())]
        hooks = [(re.compile(r'as TransactionsContainer<.*>>::remove$'), h_remove), (re.compile(r'as TransactionsContainer<.*>>::clear_account$'), h_clear),
                 (re.compile(r'^(mempool::)?RemovalCache::add$'), h_removal_add),
                 (re.compile(r'CheckedTransaction as ([\w:]+::)?AddressBytes>::address_bytes$|^(checked_transaction::)?CheckedTransaction::address_bytes$'), lambda ctx: [(None, B.cell(z3.BitVec('signer', 160)))])]
        ex, W = A.engine(extra_hooks=hooks)
        f = _impl_fn(ex, 'remove_tx_invalid', 'MempoolInner')
        tgt, tn, _, tid = mk_ttx(ex, 'target')
        arc = tgt.fields[(None, ex.adts.lookup('TimemarkedTransaction')['fields'].index('checked_tx'))]
        other = z3.BitVec('other_id', 256)
        all_ids = pend_ids + clear_ids + park_ids + [other]
        contained = M.new_map('HashSet<TransactionId>', [(i_, ()) for i_ in all_ids])
        inner = B.struct(ex, 'MempoolInner', pending=Obj('PendingTransactions', kind='opaque'), parked=Obj('ParkedTransactions', kind='opaque'), comet_bft_removal_cache=Obj('RemovalCache', kind='opaque'),
                         recent_execution_results=Obj('RecentExecutionResults', kind='opaque'), contained_txs=contained, metrics=B.cell(Obj('Metrics', kind='opaque')))
        reason = Obj('mempool::RemovalReason'); reason.discr = 'FailedExecution'; reason.attrs['tag'] = 'given-reason'
        st = ex.start(f, [B.cell(inner), arc, reason])
        st.pc += [all_ids[a] != all_ids[b] for a in range(len(all_ids)) for b in range(a + 1, len(all_ids))]
        # the failing transaction is the one the containers found at its nonce (first removed id), when something was found
        first = (pend_ids or park_ids)
        if first:
            st.pc.append(first[0] == tid)
        for i, p in enumerate(run.explore(ex, st, allow_havoc=(r'^Arguments::|fmt::',))):
            lab = f'[pending {npend}, parked cleared {nclear}, parked removed {npark}, path {i}]'
            if p.kind != 'return':
                run.prove(f'no panic {lab}', p.pc, z3.BoolVal(False), detail=p.info); continue
            post = B.fld(ex, p, ex.read(p, p.roots['args'][0].loc), 'contained_txs', 'HashSet')
            post_ids = [k_ for k_, _ in post.attrs['items']]
            removals = [e for e in p.log if e[0] == 'removal']
            tracked = lambda x: z3.Or(*[x == y for y in post_ids]) if post_ids else z3.BoolVal(False)
            reported = lambda x: z3.Or(*[x == e[1] for e in removals]) if removals else z3.BoolVal(False)
            gone = pend_ids + (clear_ids if pend_ids else []) + (park_ids if not pend_ids else [])
            run.sample({'shape': list(shape), 'path': i, 'removals': len(removals), 'tracked_after': len(post_ids)})
            claim = [tracked(other), z3.Not(reported(other))]
            for g in gone:
                n_removed += 1
                claim += [z3.Not(tracked(g)), reported(g)]
            if gone:
                claim += [removals[0][1] == tid, z3.BoolVal(removals[0][2] == 'given-reason')] if removals else [z3.BoolVal(False)]
            else:
                claim += [z3.BoolVal(not removals)] + [tracked(x) for x in all_ids]
            if pend_ids:
                claim.append(z3.BoolVal(any(e[0] == 'clear_account' for e in p.log)))       # parked transactions of the account sit behind the removed nonce: all cleared
            run.prove(f'every id handed back by the containers is untracked and reported; the failing transaction first, with the given reason; untouched ids stay tracked {lab}', p.pc, z3.And(*claim))
    if not n_removed:
        raise Inconclusive('vacuity')
    run.require_reached(*run.cur.reach)


# ----------------------------------------------------------------------------------------------------------------- C13-11
@obligation('C13', 'C13-11 RemovalCache::add: the first reason recorded for a transaction is kept; a new entry evicts only the oldest one and only when the cache is full; every other report survives; size stays within the limit')
def c13_11(run):
    ex, W = A.engine()
    f = _impl_fn(ex, 'add', 'RemovalCache')
    run.bound(cache='limit 1..2 entries, queue of 0..limit ids, every cached id is in the queue (the invariant new / add keep), all ids symbolic (the added id may alias any of them)')
    n = 0
    x = z3.BitVec('any_id', 256)
    for limit in (1, 2):
        for k in range(0, limit + 1):
            for cached in ([tuple(c) for c in ([[]] + [[i] for i in range(k)] + ([[0, 1]] if k == 2 else []))]):
                q = [z3.BitVec(f'queued{i}', 256) for i in range(k)]
                ents = []
                for i in cached:
                    r = Obj('mempool::RemovalReason'); r.discr = 'Expired'; r.attrs['tag'] = f'old{i}'
                    ents.append((q[i], r))
                cache = B.struct(ex, 'RemovalCache', cache=M.new_map('HashMap<TransactionId, RemovalReason>', ents), remove_queue=M.new_vec('VecDeque<TransactionId>', list(q)), max_size=z3.BitVecVal(limit, 64))
                new = Obj('mempool::RemovalReason'); new.discr = 'FailedExecution'; new.attrs['tag'] = 'new'
                tid = z3.BitVec('added_id', 256)
                st = ex.start(f, [B.cell(cache), tid, new])
                if k == 2:
                    st.pc.append(q[0] != q[1])
                for i, p in enumerate(run.explore(ex, st, allow_havoc=(r'^Arguments::|fmt::',))):
                    lab = f'[limit {limit}, queue {k}, cached {list(cached)}, path {i}]'
                    if p.kind != 'return':
                        run.prove(f'no panic {lab}', p.pc, z3.BoolVal(False), detail=p.info); continue
                    n += 1
                    post = ex.read(p, p.roots['args'][0].loc)
                    c1 = [(kk, ex.deref_val(p, v).attrs.get('tag')) for kk, v in B.fld(ex, p, post, 'cache', 'HashMap').attrs['items']]
                    q1 = [ex.deref_val(p, v) for v in B.fld(ex, p, post, 'remove_queue', 'VecDeque').attrs['items']]
                    was_cached = z3.Or(*[tid == kk for kk, _ in ents]) if ents else z3.BoolVal(False)
                    def tag_of(entries, key):
                        """(present, tag-is) helper: returns dict tag -> condition"""
                        out = {}
                        for kk, t in entries:
                            out[t] = z3.Or(out.get(t, z3.BoolVal(False)), kk == key)
                        return out
                    pre_t = tag_of([(kk, ex.deref_val(p, v).attrs.get('tag')) for kk, v in ents], x); post_t = tag_of(c1, x)
                    pre_in = z3.Or(*pre_t.values()) if pre_t else z3.BoolVal(False); post_in = z3.Or(*post_t.values()) if post_t else z3.BoolVal(False)
                    full = k == limit
                    evicted = q[0] if (full and k > 0) else None
                    same_tag = z3.And(*[post_t.get(t, z3.BoolVal(False)) == c for t, c in pre_t.items()]) if pre_t else z3.BoolVal(True)
                    keep = z3.Implies(z3.And(pre_in, x != tid, *( [x != evicted] if evicted is not None else [])), z3.And(post_in, same_tag))
                    run.prove(f'already reported => nothing changes (first reason kept) {lab}', p.pc,
                              z3.Implies(was_cached, z3.And(z3.BoolVal(len(c1) == len(ents) and len(q1) == k), z3.Implies(pre_in, z3.And(post_in, same_tag)), *[a == b for a, b in zip(q1, q)])))
                    run.prove(f'new id => reported with the given reason; every other report survives except the oldest one when the cache was full {lab}', p.pc,
                              z3.Implies(z3.Not(was_cached), z3.And(z3.Implies(x == tid, post_t.get('new', z3.BoolVal(False))), keep,
                                                                    z3.BoolVal(len(q1) == (k if full and k > 0 else k + 1)), q1[-1] == tid if q1 else z3.BoolVal(False),
                                                                    *[a == b for a, b in zip(q1[:-1], q[1:] if full and k > 0 else q)])))
                    ks = [kk for kk, _ in c1]
                    run.prove(f'size stays within the limit and every cached id is still queued {lab}', p.pc,
                              z3.And(z3.BoolVal(len(q1) <= limit and len(c1) <= limit), *[z3.Or(*[kk == qq for qq in q1]) if q1 else z3.BoolVal(False) for kk in ks]))
    if not n:
        raise Inconclusive('vacuity')
    run.require_reached(*run.cur.reach)


# ----------------------------------------------------------------------------------------------------------------- C13-12
@obligation('C13', 'C13-12 CheckTx (check_tx): a transaction the mempool already knows (ready, parked or reported removed) is never inserted again; a new one is inserted only after it passed CheckedTransaction::new, with the nonce, balances and costs of ITS signer; the answer mirrors what happened')
def c13_12(run):
    R = re.compile
    TXID = z3.BitVec('tx_id', 256); SIGNER = z3.BitVec('tx_signer', 160)

    def h_status(ctx):
        st = ctx.st; st.log.append(('status', ctx.ex.deref_val(st, ctx.args[1])))
        s = z3.BitVec('known_status', 8); st.pc.append(z3.ULE(s, 3))       # 0 unknown, 1 parked, 2 pending, 3 removed

        def mk(variant):
            def f(s3):
                a = ex.adts.lookup('mempool::TransactionStatus'); o = Obj(a['path'] if a else 'mempool::TransactionStatus'); o.discr = variant
                if variant == 'Removed':
                    r = Obj('mempool::RemovalReason'); r.discr = 'Expired'; r.attrs['tag'] = 'recorded_reason'; o.fields[('Removed', 0)] = r
                return some(o)
            return f
        return [(None, M.thunk_future(lambda ex_, s2, fut: [(s == 0, none()), (s == 1, mk('Parked')), (s == 2, mk('Pending')), (s == 3, mk('Removed'))]))]

    def h_new(ctx):
        st = ctx.st; st.log.append(('checked_new',)); okv = z3.Bool('checks_pass')

        def mk(s3):
            t = Obj('CheckedTransaction'); t.attrs['tag'] = 'the_checked_tx'
            return ok(t)

        def mk_err(s3):
            a = ex.adts.lookup('CheckedTransactionInitialCheckError'); e = Obj(a['path']); e.discr = z3.BitVec('check_error_kind', 64)
            s3.pc.append(z3.Or(*[e.discr == z3.BitVecVal(v['index'], 64) for v in a['variants']]))
            return err(e)
        return [(None, M.thunk_future(lambda ex_, s2, fut: [(okv, mk), (z3.Not(okv), mk_err)]))]

    def h_costs(ctx):
        tx = ctx.ex.deref_val(ctx.st, ctx.args[0]); ctx.st.log.append(('costs_of', tx.attrs.get('tag')))
        okv = z3.Bool('costs_ok')
        c = M.new_map('HashMap<IbcPrefixed, u128>', []); c.attrs['tag'] = 'costs_of_this_tx'
        return [(None, M.thunk_future(lambda ex_, s2, fut: [(okv, (lambda s3: ok(s3.tr(c)))), (z3.Not(okv), (lambda s3: err(Obj('CheckedActionFeeError', kind='error'))))], c=c))]

    def h_balances(ctx):
        who = W.addr(ctx.st, ctx.args[1]); ctx.st.log.append(('balances_of', who))
        okv = z3.Bool('balances_ok')
        b = M.new_map('HashMap<IbcPrefixed, u128>', []); b.attrs['tag'] = 'balances_read'
        return [(None, M.thunk_future(lambda ex_, s2, fut: [(okv, (lambda s3: ok(s3.tr(b)))), (z3.Not(okv), (lambda s3: err()))], b=b))]

    def h_insert(ctx):
        st = ctx.st; e = ctx.ex
        tx = e.deref_val(st, ctx.args[1]); tx = e.deref_val(st, tx.fields[('in', 0)]) if isinstance(tx, Obj) and tx.kind == 'arc' else tx
        st.log.append(('insert', tx.attrs.get('tag') if isinstance(tx, Obj) else None, e.deref_val(st, ctx.args[2]), e.deref_val(st, ctx.args[3]).attrs.get('tag'), e.deref_val(st, ctx.args[4]).attrs.get('tag')))
        oc = z3.BitVec('insert_outcome', 8); st.pc.append(z3.ULE(oc, 2))       # 0 pending, 1 parked, 2 refused

        def mk(variant):
            def f(s3):
                a = ex.adts.lookup('mempool::InsertionStatus'); o = Obj(a['path'] if a else 'InsertionStatus'); o.discr = variant
                return ok(o)
            return f
        return [(None, M.thunk_future(lambda ex_, s2, fut: [(oc == 0, mk('AddedToPending')), (oc == 1, mk('AddedToParked')), (oc == 2, (lambda s3: err(Obj('InsertionError', kind='error'))))]))]
    hooks = [(R(r'Mempool::transaction_status$'), h_status), (R(r'CheckedTransaction::new(::<.*>)?$'), h_new), (R(r'CheckedTransaction::total_costs(::<.*>)?$'), h_costs),
             (R(r'(^|::)get_account_balances(::<.*>)?$'), h_balances), (R(r'Mempool::insert$'), h_insert),
             (R(r'Mempool::len$'), lambda ctx: [(None, M.thunk_future(lambda ex_, s2, fut: [(None, z3.BitVec('mempool_len', 64))]))]),
             (R(r'CheckedTransaction::address_bytes$|<CheckedTransaction as ([\w:]+::)?AddressBytes>::address_bytes$'), lambda ctx: (ctx.st.log.append(('signer_of', ctx.ex.deref_val(ctx.st, ctx.args[0]).attrs.get('tag'))), [(None, B.cell(SIGNER))])[1]),
             (R(r'CheckedTransaction::checked_actions$'), lambda ctx: [(None, B.cell(M.new_vec('Vec<CheckedAction>', [])))]),
             (R(r'CheckedTransaction::encoded_bytes$'), lambda ctx: [(None, B.cell(Obj('bytes::Bytes', kind='opaque')))]),
             (R(r'TransactionId::new$'), lambda ctx: [(None, TXID)]), (R(r'Digest>::digest'), lambda ctx: [(None, Obj('digest', kind='opaque'))]),
             (R(r'GenericArray<.*> as Into<\[u8; 32\]>>::into$'), lambda ctx: [(None, z3.BitVec('digest_bytes', 256))]),
             (R(r'Instant::(now|elapsed|saturating_duration_since)$'), lambda ctx: [(None, Obj('t', kind='opaque'))]),
             (R(r'^(astria_eyre::eyre::)?(Report|ErrReport)(::<.*>)?::(new|wrap_err)(::<.*>)?$|^<[^{]*Engine>::encode(::<.*>)?$'), lambda ctx: [(None, Obj(ctx.ret_ty, kind='error'))])]
    ex, W = A.engine(extra_hooks=hooks)
    f = ex.find(r'service::mempool::check_tx$')
    run.bound(inputs='arbitrary transaction bytes; the mempool status lookup, CheckedTransaction::new, cost / balance reads and Mempool::insert (C13-7) are oracles with every outcome')
    w0 = initial_world_13()
    world = dict(w0, block_fees=[], cached_deposits=[], events=[], validator_updates=[])
    st = ex.start(f, [Obj('bytes::Bytes', kind='opaque'), Obj('S', kind='cell'), B.cell(Obj('Mempool')), B.cell(Obj('Metrics'))], world=world)
    n = 0
    ks, ins_oc = z3.BitVec('known_status', 8), z3.BitVec('insert_outcome', 8)
    for i, p in enumerate(run.explore(ex, st, poll=True, allow_havoc=(r'^Arguments::|fmt::', r'Bytes::len$'))):
        if p.kind != 'return':
            run.prove(f'no panic [path {i}]', p.pc, z3.BoolVal(False), detail=p.info); continue
        n += 1
        out = ex.deref_val(p, p.result.fields[('Ready', 0)] if isinstance(p.result, Obj) and ('Ready', 0) in p.result.fields else p.result)
        oname = out.discr if isinstance(out.discr, str) else ex.adts.variant_name(out.ty, out.discr)
        names = [e[0] for e in p.log]
        ins = [e for e in p.log if e[0] == 'insert']
        run.sample({'path': i, 'outcome': oname, 'effects': names})
        if os.environ.get('C13_DEBUG'):
            import sys; print(i, oname, [(e[0],) + tuple(str(x)[:40] for x in e[1:]) for e in p.log], [str(c)[:60] for c in p.pc if 'ok' in str(c) or 'outcome' in str(c) or 'status' in str(c)], file=sys.stderr)
        run.prove(f'the status is looked up first, for this transaction id [path {i}]', p.pc, z3.And(z3.BoolVal(names[:1] == ['status']), p.log[0][1] == TXID))
        run.prove(f'known to the mempool => answered from the status alone: nothing is checked or inserted again [path {i}]', p.pc,
                  z3.Implies(ks != 0, z3.And(z3.BoolVal(names == ['status']), z3.BoolVal(oname == {1: 'AlreadyInParked', 2: 'AlreadyInPending', 3: 'RemovedFromMempool'}.get(0, oname)),
                                               z3.Or(z3.And(ks == 1, z3.BoolVal(oname == 'AlreadyInParked')), z3.And(ks == 2, z3.BoolVal(oname == 'AlreadyInPending')), z3.And(ks == 3, z3.BoolVal(oname == 'RemovedFromMempool'))))))
        if ins:
            e = ins[0]
            run.prove(f'inserted => unknown before and checks passed; exactly one insertion, of the transaction that was checked [path {i}]', p.pc,
                      z3.And(ks == 0, z3.Bool('checks_pass'), z3.BoolVal(len(ins) == 1 and e[1] == 'the_checked_tx')))
            run.prove(f'inserted with the balances that were read and the costs of this transaction [path {i}] (got {e[3]!r}, {e[4]!r})', p.pc, z3.BoolVal(e[3] == 'balances_read' and e[4] == 'costs_of_this_tx'))
            who = SIGNER if any(e_ == ('signer_of', 'the_checked_tx') for e_ in p.log) else None
            bal = [b[1] for b in p.log if b[0] == 'balances_of']
            run.prove(f'inserted with the stored nonce of ITS signer; balances were read for that signer [path {i}]', p.pc,
                      z3.And(z3.BoolVal(who is not None and len(bal) == 1), e[2] == z3.Select(w0['nonce'], who) if who is not None else z3.BoolVal(False), bal[0] == who if who is not None and bal else z3.BoolVal(False)))
        run.prove(f'the answer mirrors what happened [path {i}]', p.pc,
                  z3.And(z3.BoolVal(oname == 'AddedToPending') == z3.And(z3.BoolVal(bool(ins)), ins_oc == 0), z3.BoolVal(oname == 'AddedToParked') == z3.And(z3.BoolVal(bool(ins)), ins_oc == 1),
                         z3.BoolVal(oname == 'FailedInsertion') == z3.And(z3.BoolVal(bool(ins)), ins_oc == 2),
                         z3.BoolVal(oname == 'FailedChecks') == z3.And(ks == 0, z3.Not(z3.Bool('checks_pass')), z3.BoolVal('checked_new' in names))))
    if n < 8:
        raise Inconclusive(f'vacuity: {n} paths')
    run.require_reached(*run.cur.reach)


from vlib.seqworld import initial_world as initial_world_13


# ----------------------------------------------------------------------------------------------------------------- C13-13
@obligation('C13', 'C13-13 CheckedTransaction::total_costs (what the mempool\'s affordability check uses): per asset, the fees of all actions plus every outbound transfer of that asset (saturating), nothing else')
def c13_13(run):
    R = re.compile
    cfg = {}
    A1, A2 = z3.BitVec('asset_a', 256), z3.BitVec('asset_b', 256)

    def h_fees(ctx):
        okv = z3.Bool('fees_ok')
        def mk(s3):
            return ok(M.new_map('HashMap<IbcPrefixed, u128>', [(a, f_) for a, f_ in cfg['fees']]))
        return [(None, M.thunk_future(lambda ex_, s2, fut: [(okv, mk), (z3.Not(okv), (lambda s3: err(Obj('CheckedActionFeeError', kind='error'))))]))]

    def h_transfer(ctx):
        act = ctx.ex.deref_val(ctx.st, ctx.args[0])
        t = cfg['transfers'][act.attrs['idx']]
        return [(None, some((t[0], t[1])) if t else none())]
    hooks = [(R(r'(^|::)total_fees::<'), h_fees), (R(r'CheckedAction::asset_and_amount_to_transfer$'), h_transfer),
             (R(r'^<ActionRef<.*> as From<.*>>::from$'), lambda ctx: [(None, Obj('ActionRef', kind='opaque'))])]
    ex, W = A.engine(extra_hooks=hooks)
    f = ex.find(r'checked_transaction::<impl at [^>]*>::total_costs$')
    fa, ta, ta2, tb = z3.BitVec('fee_a', 128), z3.BitVec('transfer_a', 128), z3.BitVec('transfer_a2', 128), z3.BitVec('transfer_b', 128)
    shapes = [([], []), ([(A1, fa)], []), ([], [(A1, ta)]), ([(A1, fa)], [(A1, ta)]), ([(A1, fa)], [(A2, tb)]), ([(A1, fa)], [(A1, ta), None, (A1, ta2)]), ([(A1, fa)], [(A1, ta), (A2, tb)]), ([], [None])]
    run.bound(transactions=f'{len(shapes)} shapes: fees in 0..1 assets (total_fees is an oracle; the fee formula is C01-2), 0..3 actions of which each may transfer an amount of asset A or B (A != B)')
    n = 0
    x = z3.BitVec('any_asset', 256)
    sat = lambda a, b: z3.If(z3.BVAddNoOverflow(a, b, False), a + b, z3.BitVecVal((1 << 128) - 1, 128))
    for si, (fees, transfers) in enumerate(shapes):
        cfg['fees'] = fees; cfg['transfers'] = transfers
        acts = []
        for i in range(len(transfers)):
            a_ = Obj('CheckedAction'); a_.attrs['idx'] = i; acts.append(a_)
        tx = B.struct(ex, 'CheckedTransaction', actions=M.new_vec('Vec<CheckedAction>', acts))
        st = ex.start(f, [B.cell(tx), B.cell(Obj('S', kind='cell'))])
        st.pc.append(A1 != A2)
        for i, p in enumerate(run.explore(ex, st, poll=True, allow_havoc=(r'^Arguments::|fmt::',))):
            lab = f'[shape {si}, path {i}]'
            if p.kind != 'return':
                run.prove(f'no panic {lab}', p.pc, z3.BoolVal(False), detail=p.info); continue
            kind, r = A.poll_result(p)
            if kind != 'Ok':
                run.prove(f'an error only when the fees cannot be computed {lab}', p.pc, z3.Not(z3.Bool('fees_ok'))); continue
            n += 1
            items = ex.deref_val(p, r.fields[('Ok', 0)]).attrs['items']
            # expected cost of asset x
            def expect(asset):
                tot = None
                for a, v in fees:
                    if a is asset: tot = v
                for t in transfers:
                    if t and t[0] is asset:
                        tot = t[1] if tot is None else sat(tot, t[1])
                return tot
            claims = []
            for asset in (A1, A2):
                e = expect(asset)
                hits = [ex.deref_val(p, v) for k, v in items if z3.is_true(z3.simplify(ex.deref_val(p, k) == asset)) or ex.deref_val(p, k) is asset]
                claims.append(z3.BoolVal(len(hits) == (1 if e is not None else 0)))
                if e is not None and hits:
                    claims.append(hits[0] == e)
            claims.append(z3.BoolVal(len(items) == sum(1 for a in (A1, A2) if expect(a) is not None)))
            run.prove(f'cost per asset = fees + every outbound transfer of that asset (saturating); no other entries {lab}', p.pc, z3.And(*claims))
    if not n:
        raise Inconclusive('vacuity')
    run.require_reached(*run.cur.reach)


# ----------------------------------------------------------------------------------------------------------------- C13-14
@obligation('C13', 'C13-14 PendingTransactionsForAccount::subtract_contained_costs / pending_account_nonce (what maintenance uses to decide promotions and what clients are told): the remaining balance is the given balance minus the cost of every ready transaction (floored at 0), the container is untouched; the pending nonce is the highest ready nonce + 1, None only for an empty account')
def c13_14(run):
    ex = engine()
    f = _impl_fn(ex, 'subtract_contained_costs', 'PendingTransactionsForAccount')
    g = _impl_fn(ex, 'pending_account_nonce', 'PendingTransactionsForAccount')
    run.bound(container='0..3 ready transactions of one account, nonces strictly increasing, one fee asset each', balances='one asset, arbitrary u128')
    run.assume('a single fee asset that is present in the balance map (a cost in an asset the map lacks is skipped by the code with an error log; outside the bound)')
    for k in (0, 1, 2, 3):
        cont, olds, pc = _acct(ex, 'PendingTransactionsForAccount', k)
        pc = pc[:max(k - 1, 0)]          # nonce u32::MAX allowed here
        bal = z3.BitVec('balance', 128)
        balances = M.new_map('HashMap<IbcPrefixed, u128>', [(ASSET, bal)])
        st = ex.start(f, [B.cell(cont), B.cell(balances)])
        st.pc += pc
        order = [f't{j}' for j in range(k)]
        total = sum((z3.ZeroExt(4, o[2]) for o in olds), z3.BitVecVal(0, 132))
        want = z3.If(z3.ULE(total, z3.ZeroExt(4, bal)), z3.ZeroExt(4, bal) - total, z3.BitVecVal(0, 132))
        for i, p in enumerate(run.explore(ex, st, allow_havoc=(r'^Arguments::|fmt::',))):
            lab = f'[{k} txs, path {i}]'
            if p.kind != 'return':
                run.prove(f'no panic {lab}', p.pc, z3.BoolVal(False), detail=p.info); continue
            kept = [t for _, t in container_view(ex, p, ex.read(p, p.roots['args'][0].loc))]
            m = ex.deref_val(p, ex.read(p, p.roots['args'][1].loc))
            items = m.attrs['items']
            run.sample({'txs': k, 'path': i, 'kept': kept, 'balance_entries': len(items)})
            if len(items) != 1:
                run.prove(f'balance map keeps exactly its asset {lab}', p.pc, z3.BoolVal(False)); continue
            after = ex.deref_val(p, items[0][1])
            run.prove(f'remaining = max(0, balance - sum of the ready costs); container untouched {lab}', p.pc,
                      z3.And(z3.BoolVal(kept == order), z3.ZeroExt(4, after) == want))
        st = ex.start(g, [B.cell(cont)])
        st.pc += pc
        for i, p in enumerate(run.explore(ex, st, allow_havoc=(r'^Arguments::|fmt::',))):
            lab = f'[nonce, {k} txs, path {i}]'
            if p.kind != 'return':
                run.prove(f'no panic {lab}', p.pc, z3.BoolVal(False), detail=p.info); continue
            r = p.result
            if k == 0:
                run.prove(f'empty account => None {lab}', p.pc, z3.BoolVal(r.discr == 'None'))
            else:
                last = olds[-1][1]
                v = ex.deref_val(p, r.fields.get(('Some', 0))) if r.discr == 'Some' else None
                run.prove(f'pending nonce = highest ready nonce + 1 (saturating) {lab}', p.pc,
                          z3.BoolVal(False) if v is None else v == z3.If(last == 0xFFFFFFFF, last, last + 1))
    run.require_reached(*run.cur.reach)


# ----------------------------------------------------------------------------------------------------------------- C13-15
@obligation('C13', 'C13-15 recost_transactions (fee re-costing during maintenance): every transaction of the account, and only those, is re-costed with the costs computed for THAT transaction; a failed computation keeps the old costs; no transaction is added, dropped or moved')
def c13_15(run):
    R = re.compile

    def h_costs(ctx):
        tx = ctx.ex.deref_val(ctx.st, ctx.args[0])
        tx = ctx.ex.deref_val(ctx.st, tx.fields[('in', 0)]) if isinstance(tx, Obj) and tx.kind == 'arc' else tx
        tag = tx.attrs.get('tag'); ctx.st.log.append(('costs_of', tag))
        okv = z3.Bool(f'costs_ok_{tag}')
        c = M.new_map('HashMap<IbcPrefixed, u128>', [(ASSET, z3.BitVec(f'newcost_{tag}', 128))]); c.attrs['tag'] = f'new_costs_{tag}'
        return [(None, M.thunk_future(lambda ex_, s2, fut: [(okv, (lambda s3: ok(s3.tr(c)))), (z3.Not(okv), (lambda s3: err(Obj('CheckedActionFeeError', kind='error'))))], c=c))]
    hooks = [(R(r'CheckedTransaction::total_costs(::<.*>)?$'), h_costs),
             (R(r'^(astria_eyre::eyre::)?(Report|ErrReport)(::<.*>)?::(new|wrap_err)(::<.*>)?$|^<Result<.*> as (astria_eyre::eyre::)?WrapErr<.*>>::wrap_err(::<.*>)?$'), lambda ctx: [(None, Obj(ctx.ret_ty, kind='error'))])]
    ex = engine(hooks=hooks)
    f = ex.find(r'^(mempool::transactions_container::)?TransactionsContainer::recost_transactions$')
    run.bound(account='0..3 transactions of the re-costed account (nonces strictly increasing), one other account with one transaction', costs='CheckedTransaction::total_costs (C13-13) is an oracle per transaction: Ok(new costs) or Err',
              instantiation='Self = PendingTransactions (the default trait method is shared with ParkedTransactions)')
    n = 0
    for k in (0, 1, 2, 3):
        addr, other = z3.BitVec('account', 160), z3.BitVec('other_account', 160)
        olds = [mk_ttx(ex, f't{j}') for j in range(k)]
        a_t = ex.adts.lookup('TimemarkedTransaction'); ci = a_t['fields'].index('checked_tx'); cc = a_t['fields'].index('costs')
        for j, o in enumerate(olds):
            o[0].fields[(None, ci)].fields[('in', 0)].attrs['tag'] = f't{j}'
            o[0].fields[(None, cc)].attrs['tag'] = f'old_costs_t{j}'
        oth = mk_ttx(ex, 'other'); oth[0].fields[(None, ci)].fields[('in', 0)].attrs['tag'] = 'other'; oth[0].fields[(None, cc)].attrs['tag'] = 'old_costs_other'
        mine = B.struct(ex, 'PendingTransactionsForAccount', txs=M.new_map('BTreeMap<u32, TimemarkedTransaction>', [(n_, t) for t, n_, _, _ in olds]))
        theirs = B.struct(ex, 'PendingTransactionsForAccount', txs=M.new_map('BTreeMap<u32, TimemarkedTransaction>', [(oth[1], oth[0])]))
        entries = ([(addr, mine)] if k else []) + [(other, theirs)]
        cont = B.struct(ex, 'PendingTransactions', txs=M.new_map('HashMap<[u8; 20], PendingTransactionsForAccount>', entries), tx_ttl=z3.BitVec('ttl', 96))
        st = ex.start(f, [B.cell(cont), B.cell(addr), B.cell(Obj('S', kind='cell'))])
        st.pc += [z3.ULT(olds[j][1], olds[j + 1][1]) for j in range(k - 1)] + [addr != other]
        for i, p in enumerate(run.explore(ex, st, poll=True, allow_havoc=(r'^Arguments::|fmt::',))):
            lab = f'[{k} txs, path {i}]'
            if p.kind != 'return':
                run.prove(f'no panic {lab}', p.pc, z3.BoolVal(False), detail=p.info); continue
            n += 1
            c0 = ex.read(p, p.roots['args'][0].loc)
            post = outer_view(ex, p, c0)
            mine_after = [tags for kk, tags in post if tags and tags[0].startswith('t')]
            order = [f't{j}' for j in range(k)]
            shape_ok = (mine_after == ([order] if k else [])) and any(tags == ['other'] for _, tags in post) and len(post) == (2 if k else 1)
            asked = [e[1] for e in p.log if e[0] == 'costs_of']
            # costs now stored per transaction
            stored = {}
            m = B.fld(ex, p, c0, 'txs', 'HashMap')
            for kk, v in m.attrs['items']:
                inner = B.fld(ex, p, ex.deref_val(p, v), 'txs', 'BTreeMap<u32, TimemarkedTransaction>')
                for _, t in inner.attrs['items']:
                    t = ex.deref_val(p, t)
                    stored[t.attrs.get('tag')] = ex.deref_val(p, t.fields[(None, cc)]).attrs.get('tag')
            run.sample({'txs': k, 'path': i, 'asked': asked, 'stored': stored})
            claim = [z3.BoolVal(shape_ok), z3.BoolVal(sorted(asked) == order), z3.BoolVal(stored.get('other') == 'old_costs_other')]
            for j in range(k):
                okv = z3.Bool(f'costs_ok_t{j}')
                claim.append(z3.If(okv, z3.BoolVal(stored.get(f't{j}') == f'new_costs_t{j}'), z3.BoolVal(stored.get(f't{j}') == f'old_costs_t{j}')))
            run.prove(f'each transaction of the account asked once and given its own new costs (old ones kept on failure); other accounts and the set of transactions untouched {lab}', p.pc, z3.And(*claim))
    if n < 4:
        raise Inconclusive(f'vacuity: {n} paths')
    run.require_reached(*run.cur.reach)
