"""C17 — untrusted wire data never panics a decoder; accepted values are self-consistent.
Decided here: (1) the Merkle proof checks every decoder relies on are total (Kani index lemmas + proof walk, shared with C08); (2) the astria-core
`try_from_raw` constructors contain no reachable panic (unwrap/expect/index/overflow) in their own code for arbitrary raw messages (library calls that leave
the crate — prost/bytes/tendermint conversions — are havocked and listed).  Byte-level protobuf decoding is NOT encoded."""
import os
import re
import z3
from vlib.oblig import obligation, mval
from vlib import loader, build as B
from mirsym.engine import Obj, Ref, Inconclusive
from obligations import c08
from vlib import build as B

obligation('C17', 'C17-1a merkle index arithmetic is total (Kani, full 64-bit)')(c08.c08_k)
obligation('C17', 'C17-1b verifying any decodable merkle proof never panics (proof walk, every tree size / leaf index, <= K segments)')(c08.c08_walk)

RAW = 'astria_core::generated::astria::sequencerblock::v1::'
TARGETS_OLD = [
    (r'^sequencerblock::v1::celestia::<impl at [^>]*>::try_from_raw$', 'SubmittedRollupData', RAW + 'SubmittedRollupData'),
    (r'^sequencerblock::v1::block::<impl at [^>]*>::try_from_raw$', 'RollupTransactions', RAW + 'RollupTransactions'),
    (r'^sequencerblock::v1::block::<impl at [^>]*>::try_from_raw$', 'Deposit', RAW + 'Deposit'),
    (r'^sequencerblock::v1::block::<impl at [^>]*>::try_from_raw$', 'Price', RAW + 'Price'),
    (r'^sequencerblock::v1::block::<impl at [^>]*>::try_from_raw$', 'SequencerBlockHeader', RAW + 'SequencerBlockHeader'),
    (r'^sequencerblock::v1::<impl at [^>]*>::try_from_raw$', 'Proof', 'astria_core::generated::astria::sequencerblock::v1::Proof'),
]


SWEEP_RX = re.compile(r'::(try_from_raw|try_from_raw_ref|from_raw)$')


def _sweep_targets(ex):
    """every raw -> domain constructor of astria-core whose input is a generated (wire) type: (fn name, domain type, param type)"""
    out = []
    for n in sorted(ex.fns):
        if not SWEEP_RX.search(n) or 'closure' not in n and False:
            continue
        if 'closure' in n:
            continue
        try:
            fn = ex.fns[n].parse()
        except Exception:
            continue
        if not fn.ptypes:
            continue
        pt = fn.ptypes[0].strip()
        a = ex.adts.lookup(pt.lstrip('&').strip())
        if not a or '::generated::' not in a['path']:
            continue          # input is a domain type with invariants of its own (e.g. Unchecked*): not a wire input
        out.append((n, (ex.impl_self(n) or (None, '?'))[1], pt))
    return out


@obligation('C17', 'C17-2 raw -> domain constructors (every try_from_raw / try_from_raw_ref / from_raw of astria-core over a generated wire type): no reachable panic in the crates\' own conversion code for arbitrary raw messages')
def c17_2(run):
    ex = loader.load(['astria-core', 'astria-merkle', 'astria-core-address'], scalar_types={'astria_core::primitive::v1::RollupId': 256, 'RollupId': 256, 'std::num::NonZero': 64, 'NonZero': 64}, dep_adts=['tendermint'])
    targets = _sweep_targets(ex)
    lens = (0, 1, 2) if run.tier == 'quick' else (0, 1, 2, 3)
    run.bound(raw_messages='arbitrary raw structs: every scalar field symbolic, byte buffers opaque with symbolic length, every repeated / map field with exactly L lazily created elements, L in ' + str(list(lens)),
              constructors=f'{len(targets)} constructors discovered from the MIR of the current tree', budget='per constructor and L: 4000 paths / 600k steps; L >= 2 only where L = 1 had <= 100 paths (quick) / 200 (thorough); genesis (operator-supplied) constructors only in the thorough tier; path budget 1500 (quick) / 40000 (thorough); beyond that: not decided, listed in notes',
              library='calls that leave astria-core / astria-merkle / astria-core-address are havocked (arbitrary result)')
    run.assume('havocked library calls (prost, bytes, tendermint, bech32, sha2 conversions) do not panic themselves; only panics in the crates\' own code are decided')
    run.assume('a wire RollupId is modelled as exactly 32 bytes (its wrong-length rejection path is not explored)')
    if len(targets) < 40:
        raise Inconclusive(f'only {len(targets)} raw constructors found; the discovery is broken (refactored?)')
    done = 0; undecided = []; havocs = set(); sizes = {}; timing = []
    cap = 100 if run.tier == 'quick' else 200
    ex.max_paths = 1500 if run.tier == 'quick' else 40000
    for n, tyname, pt in targets:
        if run.tier == 'quick' and 'Genesis' in tyname:
            undecided.append(f'{tyname}(thorough only)'); continue
        for L in lens:
            if L >= 2 and sizes.get(n, 0) > cap:
                undecided.append(f'{tyname}@L{L}(size)'); continue
            ex.lazy_vec_len = L; ex.stats['steps'] = 0; ex.max_steps = 600000
            raw = Obj(pt.lstrip('&').strip())
            import time as _t; _t0 = _t.time()
            try:
                paths = ex.run(ex.start(n, [B.cell(raw) if pt.startswith('&') else raw]))
                timing.append((round(_t.time() - _t0, 1), tyname, n.rsplit('::', 1)[1], L, len(paths)))
            except Inconclusive as e:
                timing.append((round(_t.time() - _t0, 1), tyname, n.rsplit('::', 1)[1], L, str(e)[:30]))
                undecided.append(f'{tyname}@L{L}({str(e)[:24]})'); break
            except Exception as e:
                undecided.append(f'{tyname}@L{L}({type(e).__name__}: {str(e)[:40]})'); break
            run.absorb(ex)
            if L == 1:
                sizes[n] = len(paths)
            npan = nret = 0
            for i, p in enumerate(paths):
                if p.kind == 'infeasible':
                    continue
                for e in p.events:
                    if e[0] == 'havoc':
                        havocs.add(re.sub(r'<.*', '', e[1])[:60])
                if p.kind == 'abort':
                    undecided.append(f'{tyname}@L{L}[{re.sub(r"Obj[0-9]+", "Obj", str(p.info))[:50]}]'); continue
                run.cur.paths += 1
                if p.kind == 'panic':
                    npan += 1
                    clean = not any(e[0] == 'havoc' for e in p.events)
                    run.prove(f'{tyname}::{n.rsplit("::", 1)[1]}: no panic [L={L}, path {i}]', p.pc, z3.BoolVal(False), detail={'panic': p.info, 'path_free_of_havoc': clean, 'fn': n})
                else:
                    nret += 1
            if nret:
                run.reached(f'{tyname}::{n.rsplit("::", 1)[1]} returns')
                done += 1
            run.sample({'type': tyname, 'fn': n.rsplit('::', 1)[1], 'L': L, 'paths': len(paths), 'panics': npan})
    ex.lazy_vec_len = None
    run.note('slowest: ' + str(sorted(timing, reverse=True)[:12]))
    if os.environ.get('C17_DEBUG'):
        import sys; print(sorted(timing, reverse=True)[:25], sorted(set(undecided)), file=sys.stderr)
    run.note(f'{len(targets)} constructors; not decided (budget / unmodelled construct), deduplicated: ' + ', '.join(sorted(set(undecided)))[:3000])
    run.note('havocked library calls: ' + ', '.join(sorted(havocs))[:1500])
    if done < 100:
        raise Inconclusive(f'only {done} (constructor, length) pairs could be analysed')
    run.require_reached(*run.cur.reach)


# ----------------------------------------------------------------------------------------------------------------- C17-3
from mirsym.engine import ok, err, some, none
from mirsym import models as M
from vlib import build as B


def _oracle(name, mk=lambda s: Obj('v', kind='opaque'), boolean=False):
    def h(ctx):
        st = ctx.st
        n = sum(1 for e in st.log if e[0] == 'oracle' and e[1] == name)
        okv = z3.Bool(f'{name}_{n}')
        st.log.append(('oracle', name, okv))
        if boolean:
            return [(None, okv)]
        return [(okv, (lambda s2: ok(mk(s2)))), (z3.Not(okv), (lambda s2: err(Obj('Error', kind='error'))))]
    return h


def must_verify(tyname):
  def c17_3(run):
      def mk_header(s):
          return B.struct(run._ex, 'SequencerBlockHeader', rollup_transactions_root=z3.BitVec('header_rollup_transactions_root', 256), data_hash=z3.BitVec('header_data_hash', 256))

      def mk_rt(s):
          o = Obj('astria_core::sequencerblock::v1::block::RollupTransactions'); o.fields[(None, run._ex.adts.lookup('RollupTransactions')['fields'].index('rollup_id'))] = z3.BitVec('rt_rollup_id', 256)
          return o
      hooks = [(re.compile(r'(^|::)Proof::try_from_raw$|Proof as ([\w:]+::)?Protobuf>::try_from_raw$'), _oracle('proof_wellformed', lambda s: Obj('astria_merkle::audit::Proof', kind='opaque'))),
               (re.compile(r'SequencerBlockHeader::try_from_raw$'), _oracle('header_wellformed', mk_header)),
               (re.compile(r'RollupTransactions::try_from_raw$'), _oracle('rollup_transactions_wellformed', mk_rt)),
               (re.compile(r'(^|::)Proof::verify$'), _oracle('root_proof_verifies', boolean=True)),
               (re.compile(r'^(sequencerblock::v1::block::)?are_rollup_txs_included$'), _oracle('rollup_txs_included', boolean=True)),
               (re.compile(r'^(sequencerblock::v1::block::)?are_rollup_ids_included(::<.*>)?$'), _oracle('rollup_ids_included', boolean=True)),
               (re.compile(r'do_rollup_transactions_match_root$'), _oracle('rollup_txs_match_root', boolean=True)),
               (re.compile(r'ExtendedCommitInfoWithProof::try_from_raw$'), _oracle('extended_commit_info_ok', lambda s: Obj('ExtendedCommitInfoWithProof', kind='opaque'))),
               (re.compile(r'ChangeHash as TryFrom<&\[u8\]>>::try_from$'), _oracle('change_hash_ok', lambda s: Obj('ChangeHash', kind='opaque'))),
               (re.compile(r'Digest>::digest(::<.*>)?$|Sha256::digest'), lambda ctx: [(None, z3.BitVec('sha256_of_root', 256))]),
               (re.compile(r'as TryInto<.*Hash>>::try_into$|block::Hash as TryFrom<&\[u8\]>>::try_from$'), _oracle('block_hash_wellformed', lambda s: z3.BitVec('block_hash', 256))),
               (re.compile(r'^<(bytes::)?Bytes as AsRef<\[u8\]>>::as_ref$|(bytes::)?Bytes::len$'), lambda ctx: [(None, ctx.ex.deref_val(ctx.st, ctx.args[0]) if 'as_ref' in ctx.callee else z3.BitVec('len', 64))])]
      ex = loader.load(['astria-core', 'astria-merkle', 'astria-core-address'], scalar_types={'astria_core::primitive::v1::RollupId': 256, 'RollupId': 256, 'primitive::v1::RollupId': 256, 'block::Hash': 256, 'sequencerblock::v1::block::Hash': 256},
                       hooks=hooks, dep_adts=['tendermint'])
      run._ex = ex
      cands = [n for n in ex.fns if n.endswith('::try_from_raw') and 'closure' not in n and (ex.impl_self(n) or (None, ''))[1] == tyname and (ex.impl_self(n) or (None,))[0] is None]
      if len(cands) != 1:
          raise Inconclusive(f'{tyname}::try_from_raw not found: {cands}')
      run.bound(raw='raw blocks with 0..1 rollup entries, proofs / header present or absent, 0 upgrade hashes, extended commit info present or absent', checks='every conversion and every Merkle check is an oracle that may fail; what is decided is that none of them can be skipped')
      n_ok = 0
      RAW = 'astria_core::generated::astria::sequencerblock::v1::'
      for k in (0, 1):
          for has_eci in (False, True):
              optp = lambda tag: (lambda o: o)(_opt(tag))
              extra = dict(all_rollup_ids=M.new_vec('Vec<RollupId>', [])) if tyname == 'FilteredSequencerBlock' else {}
              if tyname == 'SubmittedMetadata':
                  if k:
                      continue
                  raw = B.struct(ex, RAW + tyname, block_hash=Obj('bytes::Bytes', kind='opaque'), header=_opt('header'), rollup_ids=M.new_vec('Vec<RollupId>', []), rollup_transactions_proof=_opt('rtp'), rollup_ids_proof=_opt('rip'),
                                 upgrade_change_hashes=M.new_vec('Vec<Bytes>', []), extended_commit_info_with_proof=(some(Obj('raw-eci', kind='opaque')) if has_eci else none()))
              else:
                raw = B.struct(ex, RAW + tyname, **extra, block_hash=Obj('bytes::Bytes', kind='opaque'), header=_opt('header'), rollup_transactions=M.new_vec('Vec<RollupTransactions>', [Obj(RAW + 'RollupTransactions', kind='opaque') for _ in range(k)]),
                             rollup_transactions_proof=_opt('rtp'), rollup_ids_proof=_opt('rip'), upgrade_change_hashes=M.new_vec('Vec<Bytes>', []),
                             extended_commit_info_with_proof=(some(Obj('raw-eci', kind='opaque')) if has_eci else none()))
              st = ex.start(cands[0], [raw])
              for i, p in enumerate(run.explore(ex, st, allow_havoc=(r'^Arguments::|fmt::', r'SequencerBlockError::', r'SubmittedMetadataError::'))):
                  lab = f'[{k} rollups, extended commit info {has_eci}, path {i}]'
                  if p.kind != 'return':
                      run.prove(f'no panic {lab}', p.pc, z3.BoolVal(False), detail=p.info); continue
                  orc = {}
                  for e in p.log:
                      if e[0] == 'oracle':
                          orc.setdefault(e[1], []).append(e[2])
                  run.sample({'rollups': k, 'eci': has_eci, 'path': i, 'result': p.result.discr, 'checks': {a: len(b) for a, b in orc.items()}})
                  if p.result.discr != 'Ok':
                      continue
                  n_ok += 1
                  txs_check = 'rollup_txs_included' if tyname == 'SequencerBlock' else 'rollup_txs_match_root'
                  need = ['proof_wellformed', 'header_wellformed', 'root_proof_verifies', 'rollup_ids_included'] + ([txs_check] if (tyname == 'SequencerBlock' or (k and tyname != 'SubmittedMetadata')) else []) + (['extended_commit_info_ok'] if has_eci else [])
                  claim = [z3.BoolVal(all(nm in orc for nm in need) and len(orc.get('proof_wellformed', [])) == 2 and len(orc.get('rollup_transactions_wellformed', [])) == k and (tyname != 'FilteredSequencerBlock' or len(orc.get('rollup_txs_match_root', [])) == k))]
                  claim += [b for nm in need + (['rollup_transactions_wellformed'] if k else []) for b in orc.get(nm, [])]
                  run.prove(f'accepted => both proofs and the header are well-formed, the transactions root proof verifies, every rollup\'s transactions and the rollup ids are included under the data hash (and the extended commit info, when present, was checked) {lab}',
                            p.pc, z3.And(*claim))
      if not n_ok:
          raise Inconclusive('vacuity: no accepting path')
      run.require_reached(*run.cur.reach)


  return c17_3


obligation('C17', 'C17-3a SequencerBlock::try_from_raw accepts a raw block only after the rollup-transactions root, every rollup\'s transactions and the rollup ids were all shown to be included under the header\'s data hash')(must_verify('SequencerBlock'))
obligation('C17', 'C17-3c SubmittedMetadata::try_from_raw (Celestia metadata) accepts only after both proofs / the header were converted, the rollup-transactions root proof verified and the rollup ids were shown to be included under the data hash')(must_verify('SubmittedMetadata'))
obligation('C17', 'C17-3b FilteredSequencerBlock::try_from_raw accepts a raw block only after the rollup-transactions root proof, every served rollup\'s transactions against that root and the rollup ids were all checked')(must_verify('FilteredSequencerBlock'))


def _opt(tag):
    o = Obj('std::option::Option<raw>')
    o.discr = z3.If(z3.Bool(f'{tag}_present'), z3.BitVecVal(1, 64), z3.BitVecVal(0, 64)); o.fields[('Some', 0)] = Obj('raw-' + tag, kind='opaque')
    return o


# ----------------------------------------------------------------------------------------------------------------- shared with C09 / C02
from obligations import c09 as _c09, c02 as _c02
obligation('C17', 'C17-4 Celestia blobs: decode_raw_blobs never fails or panics; undecodable or foreign blobs are dropped as a whole (= C09-5)')(_c09.c09_5)
obligation('C17', 'C17-5 a decoded transaction is accepted only if its signature verifies under its own key over exactly the decoded body bytes (= C02-S1)')(_c02.c02_s1)
