"""C17 — untrusted wire data never panics a decoder; accepted values are self-consistent.
Decided here: (1) the Merkle proof checks every decoder relies on are total (Kani index lemmas + proof walk, shared with C08); (2) the astria-core
`try_from_raw` constructors contain no reachable panic (unwrap/expect/index/overflow) in their own code for arbitrary raw messages (library calls that leave
the crate — prost/bytes/tendermint conversions — are havocked and listed).  Byte-level protobuf decoding is NOT encoded."""
import re
import z3
from vlib.oblig import obligation, mval
from vlib import loader, build as B
from mirsym.engine import Obj, Ref, Inconclusive
from obligations import c08

obligation('C17', 'C17-1a merkle index arithmetic is total (Kani, full 64-bit)')(c08.c08_k)
obligation('C17', 'C17-1b verifying any decodable merkle proof never panics (proof walk, every tree size / leaf index, <= K segments)')(c08.c08_walk)

RAW = 'astria_core::generated::astria::sequencerblock::v1::'
TARGETS = [
    (r'^sequencerblock::v1::celestia::<impl at [^>]*>::try_from_raw$', 'SubmittedRollupData', RAW + 'SubmittedRollupData'),
    (r'^sequencerblock::v1::block::<impl at [^>]*>::try_from_raw$', 'RollupTransactions', RAW + 'RollupTransactions'),
    (r'^sequencerblock::v1::block::<impl at [^>]*>::try_from_raw$', 'Deposit', RAW + 'Deposit'),
    (r'^sequencerblock::v1::block::<impl at [^>]*>::try_from_raw$', 'Price', RAW + 'Price'),
    (r'^sequencerblock::v1::block::<impl at [^>]*>::try_from_raw$', 'SequencerBlockHeader', RAW + 'SequencerBlockHeader'),
    (r'^sequencerblock::v1::<impl at [^>]*>::try_from_raw$', 'Proof', 'astria_core::generated::astria::sequencerblock::v1::Proof'),
]


@obligation('C17', 'C17-2 try_from_raw constructors: no reachable panic in the crate\'s own conversion code for arbitrary raw messages')
def c17_2(run):
    ex = loader.load(['astria-core', 'astria-merkle', 'astria-core-address'], scalar_types={'astria_core::primitive::v1::RollupId': 256, 'RollupId': 256, 'std::num::NonZero': 64, 'NonZero': 64}, dep_adts=['tendermint'])
    run.bound(raw_messages='arbitrary raw structs (every field symbolic; repeated/bytes fields opaque)', library='calls that leave astria-core/astria-merkle are havocked (arbitrary result)')
    run.assume('havocked library calls (prost, bytes, tendermint, bech32 conversions) do not panic themselves; only panics in the crates\' own code are decided')
    done = 0
    havocs = set()
    for pat, tyname, rawty in TARGETS:
        cands = [n for n in ex.fns if re.search(pat, n) and 'closure' not in n and ex.impl_self(n)[1] == tyname]
        if len(cands) != 1:
            run.note(f'{tyname}::try_from_raw not uniquely found ({len(cands)}); skipped'); continue
        raw = Obj(rawty)
        st = ex.start(cands[0], [raw])
        paths = ex.run(st)
        run.absorb(ex)
        npan = 0
        for i, p in enumerate(paths):
            if p.kind in ('infeasible',):
                continue
            for e in p.events:
                if e[0] == 'havoc':
                    havocs.add(re.sub(r'<.*', '', e[1])[:80])
            if p.kind == 'abort':
                run.note(f'{tyname}: path {i} leaves the modelled fragment ({str(p.info)[:120]}); not decided'); continue
            run.cur.paths += 1
            if p.kind == 'panic':
                npan += 1
                clean = not any(e[0] == 'havoc' for e in p.events)
                run.prove(f'{tyname}::try_from_raw: no panic [path {i}]', p.pc, z3.BoolVal(False), detail={'panic': p.info, 'path_free_of_havoc': clean})
            else:
                run.reached(f'{tyname}::try_from_raw returns')
        run.sample({'type': tyname, 'paths': len(paths), 'panics': npan})
        done += 1
    run.note('havocked library calls: ' + ', '.join(sorted(havocs))[:1500])
    if done < 3:
        raise Inconclusive('fewer than 3 constructors could be analysed')
    run.require_reached(*run.cur.reach)
