"""C17 — untrusted wire data never panics a decoder; accepted values are self-consistent.
Decided here: (1) the Merkle proof checks every decoder relies on are total (Kani index lemmas + proof walk, shared with C08); (2) the astria-core
`try_from_raw` constructors contain no reachable panic (unwrap/expect/index/overflow) in their own code for arbitrary raw messages (library calls that leave
the crate — prost/bytes/tendermint conversions — are havocked and listed).  Byte-level protobuf decoding is NOT encoded."""
import re
import z3
from vlib.oblig import obligation, mval
from vlib import loader, build as B
from mirsym.engine import Obj, Ref, Inconclusive
from obligations import c08

obligation('C17', 'C17-1a merkle index arithmetic is total (Kani, full 64-bit)')(c08.c08_k)
obligation('C17', 'C17-1b verifying any decodable merkle proof never panics (proof walk, every tree size / leaf index, <= K segments)')(c08.c08_walk)

RAW = 'astria_core::generated::astria::sequencerblock::v1::'
TARGETS = [
    (r'^sequencerblock::v1::celestia::<impl at [^>]*>::try_from_raw$', 'SubmittedRollupData', RAW + 'SubmittedRollupData'),
    (r'^sequencerblock::v1::block::<impl at [^>]*>::try_from_raw$', 'RollupTransactions', RAW + 'RollupTransactions'),
    (r'^sequencerblock::v1::block::<impl at [^>]*>::try_from_raw$', 'Deposit', RAW + 'Deposit'),
    (r'^sequencerblock::v1::block::<impl at [^>]*>::try_from_raw$', 'Price', RAW + 'Price'),
    (r'^sequencerblock::v1::block::<impl at [^>]*>::try_from_raw$', 'SequencerBlockHeader', RAW + 'SequencerBlockHeader'),
    (r'^sequencerblock::v1::<impl at [^>]*>::try_from_raw$', 'Proof', 'astria_core::generated::astria::sequencerblock::v1::Proof'),
]


@obligation('C17', 'C17-2 try_from_raw constructors: no reachable panic in the crate\'s own conversion code for arbitrary raw messages')
def c17_2(run):
    ex = loader.load(['astria-core', 'astria-merkle', 'astria-core-address'], scalar_types={'astria_core::primitive::v1::RollupId': 256, 'RollupId': 256, 'std::num::NonZero': 64, 'NonZero': 64}, dep_adts=['tendermint'])
    run.bound(raw_messages='arbitrary raw structs (every field symbolic; repeated/bytes fields opaque)', library='calls that leave astria-core/astria-merkle are havocked (arbitrary result)')
    run.assume('havocked library calls (prost, bytes, tendermint, bech32 conversions) do not panic themselves; only panics in the crates\' own code are decided')
    done = 0
    havocs = set()
    for pat, tyname, rawty in TARGETS:
        cands = [n for n in ex.fns if re.search(pat, n) and 'closure' not in n and ex.impl_self(n)[1] == tyname]
        if len(cands) != 1:
            run.note(f'{tyname}::try_from_raw not uniquely found ({len(cands)}); skipped'); continue
        raw = Obj(rawty)
        st = ex.start(cands[0], [raw])
        paths = ex.run(st)
        run.absorb(ex)
        npan = 0
        for i, p in enumerate(paths):
            if p.kind in ('infeasible',):
                continue
            for e in p.events:
                if e[0] == 'havoc':
                    havocs.add(re.sub(r'<.*', '', e[1])[:80])
            if p.kind == 'abort':
                run.note(f'{tyname}: path {i} leaves the modelled fragment ({str(p.info)[:120]}); not decided'); continue
            run.cur.paths += 1
            if p.kind == 'panic':
                npan += 1
                clean = not any(e[0] == 'havoc' for e in p.events)
                run.prove(f'{tyname}::try_from_raw: no panic [path {i}]', p.pc, z3.BoolVal(False), detail={'panic': p.info, 'path_free_of_havoc': clean})
            else:
                run.reached(f'{tyname}::try_from_raw returns')
        run.sample({'type': tyname, 'paths': len(paths), 'panics': npan})
        done += 1
    run.note('havocked library calls: ' + ', '.join(sorted(havocs))[:1500])
    if done < 3:
        raise Inconclusive('fewer than 3 constructors could be analysed')
    run.require_reached(*run.cur.reach)


# ----------------------------------------------------------------------------------------------------------------- C17-3
from mirsym.engine import ok, err, some, none
from mirsym import models as M
from vlib import build as B


def _oracle(name, mk=lambda s: Obj('v', kind='opaque'), boolean=False):
    def h(ctx):
        st = ctx.st
        n = sum(1 for e in st.log if e[0] == 'oracle' and e[1] == name)
        okv = z3.Bool(f'{name}_{n}')
        st.log.append(('oracle', name, okv))
        if boolean:
            return [(None, okv)]
        return [(okv, (lambda s2: ok(mk(s2)))), (z3.Not(okv), (lambda s2: err(Obj('Error', kind='error'))))]
    return h


def must_verify(tyname):
  def c17_3(run):
      def mk_header(s):
          return B.struct(run._ex, 'SequencerBlockHeader', rollup_transactions_root=z3.BitVec('header_rollup_transactions_root', 256), data_hash=z3.BitVec('header_data_hash', 256))

      def mk_rt(s):
          o = Obj('astria_core::sequencerblock::v1::block::RollupTransactions'); o.fields[(None, run._ex.adts.lookup('RollupTransactions')['fields'].index('rollup_id'))] = z3.BitVec('rt_rollup_id', 256)
          return o
      hooks = [(re.compile(r'(^|::)Proof::try_from_raw$|Proof as ([\w:]+::)?Protobuf>::try_from_raw$'), _oracle('proof_wellformed', lambda s: Obj('astria_merkle::audit::Proof', kind='opaque'))),
               (re.compile(r'SequencerBlockHeader::try_from_raw$'), _oracle('header_wellformed', mk_header)),
               (re.compile(r'RollupTransactions::try_from_raw$'), _oracle('rollup_transactions_wellformed', mk_rt)),
               (re.compile(r'(^|::)Proof::verify$'), _oracle('root_proof_verifies', boolean=True)),
               (re.compile(r'^(sequencerblock::v1::block::)?are_rollup_txs_included$'), _oracle('rollup_txs_included', boolean=True)),
               (re.compile(r'^(sequencerblock::v1::block::)?are_rollup_ids_included(::<.*>)?$'), _oracle('rollup_ids_included', boolean=True)),
               (re.compile(r'do_rollup_transactions_match_root$'), _oracle('rollup_txs_match_root', boolean=True)),
               (re.compile(r'ExtendedCommitInfoWithProof::try_from_raw$'), _oracle('extended_commit_info_ok', lambda s: Obj('ExtendedCommitInfoWithProof', kind='opaque'))),
               (re.compile(r'ChangeHash as TryFrom<&\[u8\]>>::try_from$'), _oracle('change_hash_ok', lambda s: Obj('ChangeHash', kind='opaque'))),
               (re.compile(r'Digest>::digest(::<.*>)?$|Sha256::digest'), lambda ctx: [(None, z3.BitVec('sha256_of_root', 256))]),
               (re.compile(r'as TryInto<.*Hash>>::try_into$|block::Hash as TryFrom<&\[u8\]>>::try_from$'), _oracle('block_hash_wellformed', lambda s: z3.BitVec('block_hash', 256))),
               (re.compile(r'^<(bytes::)?Bytes as AsRef<\[u8\]>>::as_ref$|(bytes::)?Bytes::len$'), lambda ctx: [(None, ctx.ex.deref_val(ctx.st, ctx.args[0]) if 'as_ref' in ctx.callee else z3.BitVec('len', 64))])]
      ex = loader.load(['astria-core', 'astria-merkle', 'astria-core-address'], scalar_types={'astria_core::primitive::v1::RollupId': 256, 'RollupId': 256, 'primitive::v1::RollupId': 256, 'block::Hash': 256, 'sequencerblock::v1::block::Hash': 256},
                       hooks=hooks, dep_adts=['tendermint'])
      run._ex = ex
      cands = [n for n in ex.fns if n.endswith('::try_from_raw') and 'closure' not in n and (ex.impl_self(n) or (None, ''))[1] == tyname and (ex.impl_self(n) or (None,))[0] is None]
      if len(cands) != 1:
          raise Inconclusive(f'{tyname}::try_from_raw not found: {cands}')
      run.bound(raw='raw blocks with 0..1 rollup entries, proofs / header present or absent, 0 upgrade hashes, extended commit info present or absent', checks='every conversion and every Merkle check is an oracle that may fail; what is decided is that none of them can be skipped')
      n_ok = 0
      RAW = 'astria_core::generated::astria::sequencerblock::v1::'
      for k in (0, 1):
          for has_eci in (False, True):
              optp = lambda tag: (lambda o: o)(_opt(tag))
              extra = dict(all_rollup_ids=M.new_vec('Vec<RollupId>', [])) if tyname == 'FilteredSequencerBlock' else {}
              if tyname == 'SubmittedMetadata':
                  if k:
                      continue
                  raw = B.struct(ex, RAW + tyname, block_hash=Obj('bytes::Bytes', kind='opaque'), header=_opt('header'), rollup_ids=M.new_vec('Vec<RollupId>', []), rollup_transactions_proof=_opt('rtp'), rollup_ids_proof=_opt('rip'),
                                 upgrade_change_hashes=M.new_vec('Vec<Bytes>', []), extended_commit_info_with_proof=(some(Obj('raw-eci', kind='opaque')) if has_eci else none()))
              else:
                raw = B.struct(ex, RAW + tyname, **extra, block_hash=Obj('bytes::Bytes', kind='opaque'), header=_opt('header'), rollup_transactions=M.new_vec('Vec<RollupTransactions>', [Obj(RAW + 'RollupTransactions', kind='opaque') for _ in range(k)]),
                             rollup_transactions_proof=_opt('rtp'), rollup_ids_proof=_opt('rip'), upgrade_change_hashes=M.new_vec('Vec<Bytes>', []),
                             extended_commit_info_with_proof=(some(Obj('raw-eci', kind='opaque')) if has_eci else none()))
              st = ex.start(cands[0], [raw])
              for i, p in enumerate(run.explore(ex, st, allow_havoc=(r'^Arguments::|fmt::', r'SequencerBlockError::', r'SubmittedMetadataError::'))):
                  lab = f'[{k} rollups, extended commit info {has_eci}, path {i}]'
                  if p.kind != 'return':
                      run.prove(f'no panic {lab}', p.pc, z3.BoolVal(False), detail=p.info); continue
                  orc = {}
                  for e in p.log:
                      if e[0] == 'oracle':
                          orc.setdefault(e[1], []).append(e[2])
                  run.sample({'rollups': k, 'eci': has_eci, 'path': i, 'result': p.result.discr, 'checks': {a: len(b) for a, b in orc.items()}})
                  if p.result.discr != 'Ok':
                      continue
                  n_ok += 1
                  txs_check = 'rollup_txs_included' if tyname == 'SequencerBlock' else 'rollup_txs_match_root'
                  need = ['proof_wellformed', 'header_wellformed', 'root_proof_verifies', 'rollup_ids_included'] + ([txs_check] if (tyname == 'SequencerBlock' or (k and tyname != 'SubmittedMetadata')) else []) + (['extended_commit_info_ok'] if has_eci else [])
                  claim = [z3.BoolVal(all(nm in orc for nm in need) and len(orc.get('proof_wellformed', [])) == 2 and len(orc.get('rollup_transactions_wellformed', [])) == k and (tyname != 'FilteredSequencerBlock' or len(orc.get('rollup_txs_match_root', [])) == k))]
                  claim += [b for nm in need + (['rollup_transactions_wellformed'] if k else []) for b in orc.get(nm, [])]
                  run.prove(f'accepted => both proofs and the header are well-formed, the transactions root proof verifies, every rollup\'s transactions and the rollup ids are included under the data hash (and the extended commit info, when present, was checked) {lab}',
                            p.pc, z3.And(*claim))
      if not n_ok:
          raise Inconclusive('vacuity: no accepting path')
      run.require_reached(*run.cur.reach)


  return c17_3


obligation('C17', 'C17-3a SequencerBlock::try_from_raw accepts a raw block only after the rollup-transactions root, every rollup\'s transactions and the rollup ids were all shown to be included under the header\'s data hash')(must_verify('SequencerBlock'))
obligation('C17', 'C17-3c SubmittedMetadata::try_from_raw (Celestia metadata) accepts only after both proofs / the header were converted, the rollup-transactions root proof verified and the rollup ids were shown to be included under the data hash')(must_verify('SubmittedMetadata'))
obligation('C17', 'C17-3b FilteredSequencerBlock::try_from_raw accepts a raw block only after the rollup-transactions root proof, every served rollup\'s transactions against that root and the rollup ids were all checked')(must_verify('FilteredSequencerBlock'))


def _opt(tag):
    o = Obj('std::option::Option<raw>')
    o.discr = z3.If(z3.Bool(f'{tag}_present'), z3.BitVecVal(1, 64), z3.BitVecVal(0, 64)); o.fields[('Some', 0)] = Obj('raw-' + tag, kind='opaque')
    return o
