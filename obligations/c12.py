"""C12 — relayer batching preserves every block and respects the payload bound (NextSubmission::try_add / TakeSubmission decision logic).
Brotli compression, the encode(relayer)->decode(conductor) agreement and real compressed sizes are NOT decided here (see DESIGN.md §4 C12)."""
import re
import z3
from vlib.oblig import obligation, mval
from vlib import loader, build as B
from mirsym.engine import Obj, Ref, Inconclusive, ok, err
from mirsym import models as M
from mirsym.mir import MirError


def h_extend(ctx):
    ex, st = ctx.ex, ctx.st
    inp = ex.deref_val(st, ctx.args[0]); blk = ctx.args[1]
    inp.attrs['blocks'] = tuple(inp.attrs.get('blocks', ())) + (getattr(blk, 'lz', None),)
    st.log.append(('extend', getattr(blk, 'lz', None)))
    return [(None, ())]


def h_try_into_payload(ctx):
    ex, st = ctx.ex, ctx.st
    inp = ex.deref_val(st, ctx.args[0])
    okv = z3.Bool('payload_ok')
    size = z3.BitVec('compressed_size', 64)
    pl = B.struct(ex, 'Payload', compressed_size=size)
    pl.attrs['from_blocks'] = tuple(inp.attrs.get('blocks', ()))
    return [(okv, (lambda s2: ok(s2.tr(pl)))), (z3.Not(okv), (lambda s2: err(Obj('TryIntoPayloadError', kind='error'))))]


def h_num_blocks(ctx):
    inp = ctx.ex.deref_val(ctx.st, ctx.args[0])
    return [(None, z3.BitVecVal(len(inp.attrs.get('blocks', ())), 64))]


def h_box_from(ctx):
    o = Obj('Box', kind='box'); o.fields[('in', 0)] = ctx.args[0]
    return [(None, o)]


def engine():
    hooks = [(re.compile(r'^Input::extend_from_sequencer_block$'), h_extend), (re.compile(r'^Input::try_into_payload$'), h_try_into_payload),
             (re.compile(r'^Input::num_blocks$'), h_num_blocks), (re.compile(r'^<Box<.*SequencerBlock> as From<.*SequencerBlock>>::from$|as Into<Box<.*SequencerBlock>>>::into$'), h_box_from),
             (re.compile(r'SequencerBlock::height$'), lambda ctx: [(None, z3.BitVec('block_height', 64))])]
    return loader.load(['astria-sequencer-relayer'], hooks=hooks, scalar_types={'tendermint::block::Height': 64, 'SequencerHeight': 64})


@obligation('C12', 'C12-1 NextSubmission::try_add commits the candidate iff it fits the payload bound; otherwise nothing changes and the block is handed back')
def c12_1(run):
    ex = engine()
    cands = [n for n in ex.fns if n.endswith('::try_add') and 'closure' not in n and ex.impl_self(n) == (None, 'NextSubmission')]
    if len(cands) != 1:
        raise Inconclusive(f'NextSubmission::try_add not found: {cands}')
    MAXP = ex.named_const('MAX_PAYLOAD_SIZE_BYTES')
    if MAXP is None:
        raise Inconclusive('MAX_PAYLOAD_SIZE_BYTES not found in the source')
    run.bound(pending_blocks='0..2 blocks already in the batch', payload='try_into_payload is an oracle: fails, or yields an arbitrary compressed size', unroll='loop-free')
    run.assume('Input::extend_from_sequencer_block / try_into_payload / num_blocks are replaced by their abstract effect (block list, arbitrary size, length); brotli itself is not encoded')
    n_ok = 0
    for k in (0, 1, 2):
        inp = Obj('relayer::write::conversion::Input'); inp.attrs['blocks'] = tuple(f'old{i}' for i in range(k))
        pl0 = B.struct(ex, 'Payload', compressed_size=z3.BitVec('old_compressed_size', 64)); pl0.attrs['from_blocks'] = inp.attrs['blocks']
        ns = B.struct(ex, 'NextSubmission', input=inp, payload=pl0)
        blk = Obj('astria_core::sequencerblock::v1::SequencerBlock'); blk.attrs['tag'] = 'new'
        st = ex.start(cands[0], [B.cell(ns), blk])
        for i, p in enumerate(run.explore(ex, st, allow_havoc=(r'Instant::(now|elapsed)',))):
            lab = f'[{k} pending, path {i}]'
            if p.kind != 'return':
                run.prove(f'no panic {lab}', p.pc, z3.BoolVal(False), detail=p.info); continue
            ns1 = ex.read(p, p.roots['args'][0].loc)
            inp1 = B.fld(ex, p, ns1, 'input', 'Input'); pl1 = B.fld(ex, p, ns1, 'payload', 'Payload')
            blocks1 = tuple(inp1.attrs.get('blocks', ())); size = z3.BitVec('compressed_size', 64)
            res = p.result.discr
            fits = z3.ULE(size, MAXP)
            run.sample({'pending': k, 'path': i, 'result': res, 'blocks_after': [str(b) for b in blocks1]})
            if res == 'Ok':
                n_ok += 1
                run.prove(f'committed <=> the candidate payload is within the bound; batch = old batch + this block; payload = the candidate built from exactly that batch {lab}', p.pc,
                          z3.And(z3.Bool('payload_ok'), fits, z3.BoolVal(blocks1 == inp.attrs['blocks'] + (blk.lz,) and tuple(pl1.attrs.get('from_blocks', ())) == blocks1),
                                 B.fld(ex, p, pl1, 'compressed_size', 'usize') == size))
            else:
                e = p.result.fields[('Err', 0)]
                kind = e.discr if isinstance(e, Obj) else None
                run.prove(f'refused => batch and payload unchanged {lab}', p.pc,
                          z3.And(z3.BoolVal(blocks1 == inp.attrs['blocks'] and tuple(pl1.attrs.get('from_blocks', ())) == inp.attrs['blocks']),
                                 B.fld(ex, p, pl1, 'compressed_size', 'usize') == z3.BitVec('old_compressed_size', 64)))
                if kind == 'Full':
                    boxed = e.fields[('Full', 0)]
                    inner = ex.deref_val(p, boxed.fields[('in', 0)]) if isinstance(boxed, Obj) and boxed.kind == 'box' else None
                    run.prove(f'Full => the payload would exceed the bound, the batch was not empty, and the very same block is handed back {lab}', p.pc,
                              z3.And(z3.Bool('payload_ok'), z3.Not(fits), z3.BoolVal(k >= 1 and isinstance(inner, Obj) and inner.lz == blk.lz)))
                elif kind == 'OversizedBlock':
                    run.prove(f'OversizedBlock => the block alone exceeds the bound {lab}', p.pc, z3.And(z3.Bool('payload_ok'), z3.Not(fits), z3.BoolVal(k == 0)))
    if not n_ok:
        raise Inconclusive('vacuity: no committing path')
    run.require_reached(*run.cur.reach)
