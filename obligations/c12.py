"""C12 — relayer batching preserves every block and respects the payload bound (NextSubmission::try_add / TakeSubmission decision logic).
Brotli compression, the encode(relayer)->decode(conductor) agreement and real compressed sizes are NOT decided here (see DESIGN.md §4 C12)."""
import re
import z3
from vlib.oblig import obligation, mval
from vlib import loader, build as B
from mirsym.engine import Obj, Ref, Inconclusive, ok, err, some, none
from mirsym import models as M
from mirsym.mir import MirError


def h_extend(ctx):
    ex, st = ctx.ex, ctx.st
    inp = ex.deref_val(st, ctx.args[0]); blk = ctx.args[1]
    inp.attrs['blocks'] = tuple(inp.attrs.get('blocks', ())) + (getattr(blk, 'lz', None),)
    st.log.append(('extend', getattr(blk, 'lz', None)))
    return [(None, ())]


def h_try_into_payload(ctx):
    ex, st = ctx.ex, ctx.st
    inp = ex.deref_val(st, ctx.args[0])
    okv = z3.Bool('payload_ok')
    size = z3.BitVec('compressed_size', 64)
    pl = B.struct(ex, 'Payload', compressed_size=size)
    pl.attrs['from_blocks'] = tuple(inp.attrs.get('blocks', ()))
    return [(okv, (lambda s2: ok(s2.tr(pl)))), (z3.Not(okv), (lambda s2: err(Obj('TryIntoPayloadError', kind='error'))))]


def h_num_blocks(ctx):
    inp = ctx.ex.deref_val(ctx.st, ctx.args[0])
    return [(None, z3.BitVecVal(len(inp.attrs.get('blocks', ())), 64))]


def h_box_from(ctx):
    o = Obj('Box', kind='box'); o.fields[('in', 0)] = ctx.args[0]
    return [(None, o)]


def engine():
    hooks = [(re.compile(r'^Input::extend_from_sequencer_block$'), h_extend), (re.compile(r'^Input::try_into_payload$'), h_try_into_payload),
             (re.compile(r'^Input::num_blocks$'), h_num_blocks), (re.compile(r'^<Box<.*SequencerBlock> as From<.*SequencerBlock>>::from$|as Into<Box<.*SequencerBlock>>>::into$'), h_box_from),
             (re.compile(r'SequencerBlock::height$'), lambda ctx: [(None, z3.BitVec('block_height', 64))])]
    return loader.load(['astria-sequencer-relayer'], hooks=hooks, scalar_types={'tendermint::block::Height': 64, 'SequencerHeight': 64})


@obligation('C12', 'C12-1 NextSubmission::try_add commits the candidate iff it fits the payload bound; otherwise nothing changes and the block is handed back')
def c12_1(run):
    ex = engine()
    cands = [n for n in ex.fns if n.endswith('::try_add') and 'closure' not in n and ex.impl_self(n) == (None, 'NextSubmission')]
    if len(cands) != 1:
        raise Inconclusive(f'NextSubmission::try_add not found: {cands}')
    MAXP = ex.named_const('MAX_PAYLOAD_SIZE_BYTES')
    if MAXP is None:
        raise Inconclusive('MAX_PAYLOAD_SIZE_BYTES not found in the source')
    run.bound(pending_blocks='0..2 blocks already in the batch', payload='try_into_payload is an oracle: fails, or yields an arbitrary compressed size', unroll='loop-free')
    run.assume('Input::extend_from_sequencer_block / try_into_payload / num_blocks are replaced by their abstract effect (block list, arbitrary size, length); brotli itself is not encoded')
    n_ok = 0
    for k in (0, 1, 2):
        inp = Obj('relayer::write::conversion::Input'); inp.attrs['blocks'] = tuple(f'old{i}' for i in range(k))
        pl0 = B.struct(ex, 'Payload', compressed_size=z3.BitVec('old_compressed_size', 64)); pl0.attrs['from_blocks'] = inp.attrs['blocks']
        ns = B.struct(ex, 'NextSubmission', input=inp, payload=pl0)
        blk = Obj('astria_core::sequencerblock::v1::SequencerBlock'); blk.attrs['tag'] = 'new'
        st = ex.start(cands[0], [B.cell(ns), blk])
        for i, p in enumerate(run.explore(ex, st, allow_havoc=(r'Instant::(now|elapsed)',))):
            lab = f'[{k} pending, path {i}]'
            if p.kind != 'return':
                run.prove(f'no panic {lab}', p.pc, z3.BoolVal(False), detail=p.info); continue
            ns1 = ex.read(p, p.roots['args'][0].loc)
            inp1 = B.fld(ex, p, ns1, 'input', 'Input'); pl1 = B.fld(ex, p, ns1, 'payload', 'Payload')
            blocks1 = tuple(inp1.attrs.get('blocks', ())); size = z3.BitVec('compressed_size', 64)
            res = p.result.discr
            fits = z3.ULE(size, MAXP)
            run.sample({'pending': k, 'path': i, 'result': res, 'blocks_after': [str(b) for b in blocks1]})
            if res == 'Ok':
                n_ok += 1
                run.prove(f'committed <=> the candidate payload is within the bound; batch = old batch + this block; payload = the candidate built from exactly that batch {lab}', p.pc,
                          z3.And(z3.Bool('payload_ok'), fits, z3.BoolVal(blocks1 == inp.attrs['blocks'] + (blk.lz,) and tuple(pl1.attrs.get('from_blocks', ())) == blocks1),
                                 B.fld(ex, p, pl1, 'compressed_size', 'usize') == size))
            else:
                e = p.result.fields[('Err', 0)]
                kind = e.discr if isinstance(e, Obj) else None
                run.prove(f'refused => batch and payload unchanged {lab}', p.pc,
                          z3.And(z3.BoolVal(blocks1 == inp.attrs['blocks'] and tuple(pl1.attrs.get('from_blocks', ())) == inp.attrs['blocks']),
                                 B.fld(ex, p, pl1, 'compressed_size', 'usize') == z3.BitVec('old_compressed_size', 64)))
                if kind == 'Full':
                    boxed = e.fields[('Full', 0)]
                    inner = ex.deref_val(p, boxed.fields[('in', 0)]) if isinstance(boxed, Obj) and boxed.kind == 'box' else None
                    run.prove(f'Full => the payload would exceed the bound, the batch was not empty, and the very same block is handed back {lab}', p.pc,
                              z3.And(z3.Bool('payload_ok'), z3.Not(fits), z3.BoolVal(k >= 1 and isinstance(inner, Obj) and inner.lz == blk.lz)))
                elif kind == 'OversizedBlock':
                    run.prove(f'OversizedBlock => the block alone exceeds the bound {lab}', p.pc, z3.And(z3.Bool('payload_ok'), z3.Not(fits), z3.BoolVal(k == 0)))
    if not n_ok:
        raise Inconclusive('vacuity: no committing path')
    run.require_reached(*run.cur.reach)


@obligation('C12', 'C12-2 TakeSubmission::poll moves the whole batch out exactly once: Some(batch, payload) iff the payload is non-empty, and the accumulator is left empty')
def c12_2(run):
    hooks = [(re.compile(r'^Input::num_blocks$'), h_num_blocks), (re.compile(r'^Payload::num_blobs$'), lambda ctx: [(None, z3.BitVec('num_blobs', 64))]),
             ]
    def h_project(ctx):
        # pin-project-lite generates `project` inside an anonymous const with the impl header in the macro crate: resolve it by signature
        from mirsym.engine import PUSHED
        names = [n for n in ctx.ex.fns if n.endswith('::project') and n.startswith('conversion::_::') and 'TakeSubmission' in ctx.ex.fns[n].sig]
        if len(names) != 1:
            raise Inconclusive(f'pin-project `project` for TakeSubmission not found: {names}')
        ctx.ex.push(ctx.st, names[0], list(ctx.args), ctx.dest, ctx.nxt)
        return PUSHED
    hooks.append((re.compile(r'<impl TakeSubmission<.*>>::project$'), h_project))
    ex = loader.load(['astria-sequencer-relayer'], hooks=hooks, scalar_types={'tendermint::block::Height': 64, 'SequencerHeight': 64})
    cands = [n for n in ex.fns if n.endswith('::poll') and 'closure' not in n and 'TakeSubmission' in (ex.impl_self(n) or (None, ''))[1]]
    if len(cands) != 1:
        raise Inconclusive(f'TakeSubmission::poll not found: {cands}')
    run.bound(batch='arbitrary accumulated batch; payload with 0 or 1 blobs', unroll='loop-free')
    n_some = n_none = 0
    for nblobs in (0, 1):
        inp = Obj('relayer::write::conversion::Input'); inp.attrs['blocks'] = ('b0',) if nblobs else (); inp.attrs['tag'] = 'batch'
        pl = B.struct(ex, 'Payload', compressed_size=z3.BitVec('compressed_size', 64), blobs=M.new_vec('Vec<Blob>', [Obj('Blob', kind='opaque') for _ in range(nblobs)])); pl.attrs['tag'] = 'payload'
        ns = B.struct(ex, 'NextSubmission', input=inp, payload=pl)
        opt = Obj('std::option::Option<&mut NextSubmission>'); opt.discr = 'Some'; opt.fields[('Some', 0)] = B.cell(ns)
        take = B.struct(ex, 'TakeSubmission', inner=opt)
        pin = Obj('Pin', kind='pin') if False else None
        st = ex.start(cands[0], [M.pin_of(B.cell(take)) if hasattr(M, 'pin_of') else B.cell(take), B.cell(Obj('Context', kind='opaque'))])
        for i, p in enumerate(run.explore(ex, st, allow_havoc=(r'^Arguments::|fmt::',))):
            lab = f'[{nblobs} blobs, path {i}]'
            if p.kind != 'return':
                run.prove(f'no panic on the first poll {lab}', p.pc, z3.BoolVal(False), detail=p.info); continue
            r = p.result
            ready = r.fields[('Ready', 0)] if isinstance(r, Obj) and r.discr == 'Ready' else None
            ns1 = ns if True else None
            inp1 = B.fld(ex, p, p.tr(ns), 'input', 'Input'); pl1 = B.fld(ex, p, p.tr(ns), 'payload', 'Payload')
            def empty_container(o, name, ty):
                try:
                    v = B.fld(ex, p, o, name, ty)
                    return isinstance(v, Obj) and v.attrs.get('items') == []
                except Exception:
                    return False
            left_empty = (isinstance(inp1, Obj) and inp1.attrs.get('tag') != 'batch' and empty_container(inp1, 'metadata', 'Vec<SubmittedMetadata>') and empty_container(inp1, 'rollup_data_for_namespace', 'HashMap')
                          and isinstance(pl1, Obj) and pl1.attrs.get('tag') != 'payload' and empty_container(pl1, 'blobs', 'Vec<Blob>'))
            run.sample({'blobs': nblobs, 'path': i, 'result': ready.discr if ready is not None else None, 'left_empty': bool(left_empty)})
            claim = [z3.BoolVal(ready is not None and bool(left_empty))]
            if ready is not None and ready.discr == 'Some':
                n_some += 1
                sub = ex.deref_val(p, ready.fields[('Some', 0)])
                si = B.fld(ex, p, sub, 'input', 'Input'); sp = B.fld(ex, p, sub, 'payload', 'Payload')
                claim.append(z3.BoolVal(nblobs > 0 and isinstance(si, Obj) and si.attrs.get('tag') == 'batch' and isinstance(sp, Obj) and sp.attrs.get('tag') == 'payload'))
            elif ready is not None:
                n_none += 1
                claim.append(z3.BoolVal(nblobs == 0))
            run.prove(f'the accumulated batch and payload are handed out together iff the payload has blobs, and the accumulator is reset to empty {lab}', p.pc, z3.And(*claim))
    if not n_some or not n_none:
        raise Inconclusive(f'vacuity: Some {n_some}, None {n_none}')
    run.require_reached(*run.cur.reach)


def _fresh_default(ctx):
    ty = 'Input' if 'Input' in ctx.callee else 'Payload'
    if ty == 'Payload':
        o = B.struct(ctx.ex, 'Payload', compressed_size=z3.BitVecVal(0, 64), uncompressed_size=z3.BitVecVal(0, 64), blobs=M.new_vec('Vec<Blob>', []))
    else:
        o = Obj('relayer::write::conversion::Input'); o.attrs['blocks'] = ()
    o.attrs['default'] = True
    return o


# ----------------------------------------------------------------------------------------------------------------- C12-3
@obligation('C12', 'C12-3 Input::extend_from_sequencer_block: the block\'s metadata is always added; exactly the rollup data the filter includes is added, under the rollup\'s namespace, in order; excluded rollups only get recorded as excluded')
def c12_3(run):
    INCL = z3.Function('filter_includes_rollup', z3.BitVecSort(256), z3.BoolSort())
    NS = z3.Function('namespace_of_rollup', z3.BitVecSort(256), z3.BitVecSort(232))

    def h_split(ctx):
        blk = ctx.ex.deref_val(ctx.st, ctx.args[0])
        return [(None, (blk.attrs['metadata'], M.new_vec('Vec<SubmittedRollupData>', list(blk.attrs['rollup_data']))))]

    def h_into_raw(ctx):
        v = ctx.ex.deref_val(ctx.st, ctx.args[0])
        o = Obj('raw', kind='opaque'); o.attrs['tag'] = 'raw:' + v.attrs['tag']
        return [(None, o)]
    hooks = [(re.compile(r'SequencerBlock::split_for_celestia$'), h_split), (re.compile(r'SequencerBlock::height$'), lambda ctx: [(None, ctx.ex.deref_val(ctx.st, ctx.args[0]).attrs['height'])]),
             (re.compile(r'(SubmittedMetadata|SubmittedRollupData)::into_raw$'), h_into_raw), (re.compile(r'SubmittedRollupData::rollup_id$'), lambda ctx: [(None, ctx.ex.deref_val(ctx.st, ctx.args[0]).attrs['rollup_id'])]),
             (re.compile(r'IncludeRollup::should_include$'), lambda ctx: [(None, INCL(ctx.ex.deref_val(ctx.st, ctx.args[1])))]),
             (re.compile(r'namespace_v0_from_rollup_id$'), lambda ctx: [(None, NS(ctx.ex.deref_val(ctx.st, ctx.args[0])))]),
             (re.compile(r'^(relayer::write::conversion::)?sequencer_namespace$'), lambda ctx: [(None, z3.BitVec('sequencer_namespace_of_block', 232))]),
             (re.compile(r'(^|::)Height::value$'), lambda ctx: [(None, ctx.ex.deref_val(ctx.st, ctx.args[0]))])]
    sc = {'tendermint::block::Height': 64, 'SequencerHeight': 64, 'astria_core::primitive::v1::RollupId': 256, 'RollupId': 256, 'celestia_types::nmt::Namespace': 232, 'Namespace': 232, 'nmt::Namespace': 232}
    ex = loader.load(['astria-sequencer-relayer'], hooks=hooks, scalar_types=sc)
    cands = [n for n in ex.fns if n.endswith('::extend_from_sequencer_block') and 'closure' not in n]
    if len(cands) != 1:
        raise Inconclusive(f'extend_from_sequencer_block not found: {cands}')
    run.bound(block='0..2 rollup data entries with arbitrary rollup ids (equal or different)', input='empty accumulator or one holding one earlier block with one included rollup', filter='arbitrary predicate on the rollup id (uninterpreted)')
    n = 0
    for pre in (0, 1):
        for k in (0, 1, 2):
            rids = [z3.BitVec(f'rollup_id{j}', 256) for j in range(k)]
            rds = []
            for j in range(k):
                r_ = Obj('astria_core::sequencerblock::v1::SubmittedRollupData', kind='opaque'); r_.attrs['tag'] = f'rd{j}'; r_.attrs['rollup_id'] = rids[j]
                rds.append(r_)
            md = Obj('astria_core::sequencerblock::v1::SubmittedMetadata', kind='opaque'); md.attrs['tag'] = 'md-new'
            blk = Obj('astria_core::sequencerblock::v1::SequencerBlock', kind='opaque'); blk.attrs.update(metadata=md, rollup_data=rds, height=z3.BitVec('block_height', 64))
            old_rid, old_ns = z3.BitVec('old_rollup_id', 256), z3.BitVec('old_namespace', 232)
            oldraw = Obj('raw', kind='opaque'); oldraw.attrs['tag'] = 'raw:old'
            oldmd = Obj('raw', kind='opaque'); oldmd.attrs['tag'] = 'raw:md-old'
            meta = B.struct(ex, 'InputMeta', sequencer_heights=M.new_map('BTreeSet<SequencerHeight>', [(z3.BitVec('old_height', 64), ())] if pre else []),
                            sequencer_namespace=(some(z3.BitVec('old_sequencer_namespace', 232)) if pre else none()),
                            rollups_included=M.new_map('HashMap<RollupId, Namespace>', [(old_rid, old_ns)] if pre else []), rollups_excluded=M.new_map('HashSet<RollupId>', []))
            inp = B.struct(ex, 'Input', metadata=M.new_vec('Vec<SubmittedMetadata>', [oldmd] if pre else []),
                           rollup_data_for_namespace=M.new_map('HashMap<Namespace, Vec<SubmittedRollupData>>', [(old_ns, M.new_vec('Vec<SubmittedRollupData>', [oldraw]))] if pre else []), meta=meta)
            st = ex.start(cands[0], [B.cell(inp), blk, B.cell(Obj('IncludeRollup', kind='opaque'))])
            if pre:
                st.pc.append(old_ns == NS(old_rid))
            for i, p in enumerate(run.explore(ex, st, allow_havoc=(r'^Arguments::|fmt::',))):
                lab = f'[{pre} earlier blocks, {k} rollup entries, path {i}]'
                if p.kind != 'return':
                    run.prove(f'no panic {lab}', p.pc, z3.BoolVal(False), detail=p.info); continue
                n += 1
                inp1 = ex.read(p, p.roots['args'][0].loc)
                mds = [ex.deref_val(p, x).attrs.get('tag') for x in B.fld(ex, p, inp1, 'metadata', 'Vec').attrs['items']]
                dmap = B.fld(ex, p, inp1, 'rollup_data_for_namespace', 'HashMap').attrs['items']
                per_ns = [(ex.deref_val(p, kk), [ex.deref_val(p, x).attrs.get('tag') for x in ex.deref_val(p, v).attrs['items']]) for kk, v in dmap]
                meta1 = B.fld(ex, p, inp1, 'meta', 'InputMeta')
                excl = [ex.deref_val(p, kk) for kk, _ in B.fld(ex, p, meta1, 'rollups_excluded', 'HashSet').attrs['items']]
                incl = [(ex.deref_val(p, kk), ex.deref_val(p, v)) for kk, v in B.fld(ex, p, meta1, 'rollups_included', 'HashMap').attrs['items']]
                run.sample({'pre': pre, 'entries': k, 'path': i, 'metadata': mds, 'data': [t for _, t in per_ns], 'excluded': len(excl)})
                claim = [z3.BoolVal(mds == (['raw:md-old'] if pre else []) + ['raw:md-new'])]
                placed = {f'raw:rd{j}': [] for j in range(k)}
                for nsv, tags in per_ns:
                    for t in tags:
                        if t in placed: placed[t].append(nsv)
                all_tags = [t for _, tags in per_ns for t in tags]
                for j in range(k):
                    inc = INCL(rids[j])
                    here = placed[f'raw:rd{j}']
                    claim.append(z3.If(inc, z3.BoolVal(len(here) == 1), z3.BoolVal(len(here) == 0)))
                    if len(here) == 1:
                        claim.append(here[0] == NS(rids[j]))
                        claim.append(z3.Or(*[z3.And(a == rids[j], b == NS(rids[j])) for a, b in incl]) if incl else z3.BoolVal(False))
                    else:
                        claim.append(z3.Or(*[e == rids[j] for e in excl]) if excl else z3.BoolVal(False))
                if pre:
                    claim.append(z3.BoolVal(all_tags.count('raw:old') == 1))
                # order of the block's entries inside one namespace list follows the block
                for nsv, tags in per_ns:
                    new = [t for t in tags if t.startswith('raw:rd')]
                    claim.append(z3.BoolVal(new == sorted(new)))
                claim.append(z3.BoolVal(len(all_tags) == len(set(all_tags))))
                run.prove(f'metadata appended unconditionally; every entry placed exactly once under its rollup\'s namespace iff the filter includes it, otherwise recorded as excluded; earlier content kept {lab}', p.pc, z3.And(*claim))
    if not n:
        raise Inconclusive('vacuity')
    run.require_reached(*run.cur.reach)


# ----------------------------------------------------------------------------------------------------------------- C12-4
@obligation('C12', 'C12-4 BlobSubmitter::add_sequencer_block_to_next_submission / has_capacity: a block the batch has no room for is parked as THE pending block (never dropped), and no new block is accepted while one is parked')
def c12_4(run):
    def h_try_add(ctx):
        blk = ctx.args[1]
        a = ctx.ex.adts.lookup('TryAddError'); vi = {v['name']: i for i, v in enumerate(a['variants'])}
        full = Obj('relayer::write::conversion::TryAddError'); full.discr = 'Full'
        bx = M.make_box(blk); full.fields[('Full', 0)] = bx
        other = Obj('relayer::write::conversion::TryAddError'); other.discr = 'OversizedBlock'
        r, f_ = z3.Bool('try_add_ok'), z3.Bool('try_add_full')
        ctx.st.log.append(('try_add', getattr(ctx.ex.deref_val(ctx.st, blk), 'lz', None)))
        return [(r, ok(())), (z3.And(z3.Not(r), f_), (lambda s2: err(s2.tr(full)))), (z3.And(z3.Not(r), z3.Not(f_)), (lambda s2: err(s2.tr(other))))]
    hooks = [(re.compile(r'NextSubmission::try_add$'), h_try_add), (re.compile(r'SequencerBlock::height$'), lambda ctx: [(None, z3.BitVec('block_height', 64))]),
             (re.compile(r'(^|::)Height::value$'), lambda ctx: [(None, ctx.ex.deref_val(ctx.st, ctx.args[0]))])]
    ex = loader.load(['astria-sequencer-relayer'], hooks=hooks, scalar_types={'tendermint::block::Height': 64, 'SequencerHeight': 64})
    def fn(name):
        c = [n for n in ex.fns if n.endswith('::' + name) and 'closure' not in n and (ex.impl_self(n) or (None, ''))[1] == 'BlobSubmitter']
        if len(c) != 1:
            raise Inconclusive(f'BlobSubmitter::{name} not found: {c}')
        return c[0]
    run.bound(try_add='NextSubmission::try_add is an oracle: Ok, Full(block handed back) or another error (decided in C12-1)', pending='no pending block before the call (the caller only adds when has_capacity() holds or right after take())')
    seen = set()
    blk = Obj('astria_core::sequencerblock::v1::SequencerBlock', kind='opaque'); blk.attrs['tag'] = 'new'
    me = B.struct(ex, 'BlobSubmitter', pending_block=none())
    st = ex.start(fn('add_sequencer_block_to_next_submission'), [B.cell(me), blk])
    for i, p in enumerate(run.explore(ex, st, allow_havoc=(r'^Arguments::|fmt::',))):
        if p.kind != 'return':
            run.prove(f'no panic [path {i}]', p.pc, z3.BoolVal(False), detail=p.info); continue
        me1 = ex.read(p, p.roots['args'][0].loc)
        pend = ex.deref_val(p, B.fld(ex, p, me1, 'pending_block', 'Option<SequencerBlock>'))
        res = p.result.discr; seen.add((res, pend.discr))
        run.sample({'path': i, 'result': res, 'pending_after': pend.discr})
        r, f_ = z3.Bool('try_add_ok'), z3.Bool('try_add_full')
        if res == 'Ok':
            parked = isinstance(pend.discr, str) and pend.discr == 'Some'
            inner = ex.deref_val(p, pend.fields[('Some', 0)]) if parked else None
            if isinstance(inner, Obj) and inner.kind == 'box':
                inner = ex.deref_val(p, inner.fields[('in', 0)])
            same_block = parked and isinstance(inner, Obj) and (inner.attrs.get('tag') == 'new' or inner.lz == blk.lz)
            run.sample({'parked_value': repr(inner), 'attrs': dict(getattr(inner, 'attrs', {})) if isinstance(inner, Obj) else None})
            run.prove(f'Ok => either the batch took the block (nothing parked) or the batch was full and exactly this block is parked [path {i}]', p.pc,
                      z3.If(r, z3.BoolVal(not parked), z3.And(f_, z3.BoolVal(bool(same_block)))))
        else:
            run.prove(f'Err => try_add failed with an error other than Full; nothing parked [path {i}]', p.pc, z3.And(z3.Not(r), z3.Not(f_), z3.BoolVal(pend.discr == 'None')))
    # has_capacity
    for has in (False, True):
        opt = some(Obj('astria_core::sequencerblock::v1::SequencerBlock', kind='opaque')) if has else none()
        me = B.struct(ex, 'BlobSubmitter', pending_block=opt)
        for i, p in enumerate(run.explore(ex, ex.start(fn('has_capacity'), [B.cell(me)]))):
            if p.kind != 'return':
                run.prove(f'has_capacity: no panic', p.pc, z3.BoolVal(False), detail=p.info); continue
            run.prove(f'has_capacity() <=> no block is parked [pending {has}]', p.pc, p.result == z3.BoolVal(not has))
    if not {('Ok', 'None'), ('Ok', 'Some')} <= seen:
        raise Inconclusive(f'vacuity: {seen}')
    run.require_reached(*run.cur.reach)


# ----------------------------------------------------------------------------------------------------------------- shared with C07 / C09
from obligations import c07 as _c07, c09 as _c09
obligation('C12', 'C12-5 splitting a block for Celestia: one metadata item plus one rollup-data item per rollup, each carrying this block\'s hash, that rollup\'s transactions and proof (= C07-3)')(_c07.c07_3)
obligation('C12', 'C12-6 decoding the way conductor does: foreign / undecodable blobs are dropped as a whole, everything else is kept in order (= C09-5)')(_c09.c09_5)


# ----------------------------------------------------------------------------------------------------------------- C12-7
@obligation('C12', 'C12-7 Input::try_into_payload: one blob with ALL block metadata (in order) under the sequencer namespace, then exactly one blob per rollup namespace carrying exactly that namespace\'s entries; any blob that cannot be added fails the whole conversion')
def c12_7(run):
    import re as _re
    from mirsym.engine import ok as _ok, err as _err, some as _some, none as _none
    def h_try_add(ctx):
        st = ctx.st
        ns = ctx.ex.deref_val(st, ctx.args[1]); lst = ctx.ex.deref_val(st, ctx.args[2])
        ents = ctx.ex.deref_val(st, lst.fields.get((None, 0))) if isinstance(lst, Obj) else None
        tags = [ctx.ex.deref_val(st, x).attrs.get('ident') for x in ents.attrs['items']] if isinstance(ents, Obj) and 'items' in ents.attrs else None
        k = sum(1 for e in st.log if e[0] == 'try_add')
        st.log.append(('try_add', ns, lst.ty.split('::')[-1] if isinstance(lst, Obj) and lst.ty else None, tags))
        okv = z3.Bool(f'blob_{k}_fits')
        return [(okv, _ok(())), (z3.Not(okv), (lambda s: _err(Obj('AddToPayloadError', kind='error'))))]
    hooks = [(_re.compile(r'^(conversion::)?Payload::try_add::<'), h_try_add), (_re.compile(r'^(conversion::)?Payload::with_capacity$'), lambda ctx: [(None, Obj('Payload', kind='opaque'))]),
             (_re.compile(r'as (prost::)?Name>::(type_url|full_name)$'), lambda ctx: [(None, Obj('String', kind='opaque'))])]
    ex = loader.load(['astria-sequencer-relayer'], hooks=hooks, scalar_types={'tendermint::block::Height': 64, 'SequencerHeight': 64, 'celestia_types::nmt::Namespace': 232, 'Namespace': 232})
    cands = [n for n in ex.fns if n.endswith('::try_into_payload') and 'closure' not in n and (ex.impl_self(n) or (None, ''))[1] == 'Input']
    if len(cands) != 1:
        raise Inconclusive(f'Input::try_into_payload not found: {cands}')
    run.bound(inputs='0..2 blocks of metadata, 0..2 rollup namespaces with 1..2 entries each, sequencer namespace present or not; Payload::try_add (encoding + brotli) is an oracle that may refuse')
    n_ok = 0
    seqns = z3.BitVec('sequencer_namespace', 232)
    for nmeta in (0, 1, 2):
        for shape in ([], [1], [2], [1, 2]):
            for has_ns in (True, False):
                metas = []
                for i in range(nmeta):
                    m_ = Obj('SubmittedMetadata', kind='opaque'); m_.attrs['ident'] = f'metadata_{i}'; metas.append(m_)
                nss = [z3.BitVec(f'rollup_namespace_{j}', 232) for j in range(len(shape))]
                groups = []
                for j, cnt in enumerate(shape):
                    es = []
                    for t in range(cnt):
                        e_ = Obj('SubmittedRollupData', kind='opaque'); e_.attrs['ident'] = f'rollup_data_{j}_{t}'; es.append(e_)
                    groups.append((nss[j], M.new_vec('Vec<SubmittedRollupData>', es)))
                meta = B.struct(ex, 'InputMeta', sequencer_namespace=_some(seqns) if has_ns else _none()) if ex.adts.lookup('InputMeta') else None
                if meta is None:
                    raise Inconclusive('InputMeta not in the ADT table (refactored?)')
                inp = B.struct(ex, 'Input', metadata=M.new_vec('Vec<SubmittedMetadata>', metas), rollup_data_for_namespace=M.new_map('IndexMap<Namespace, Vec<SubmittedRollupData>>', groups), meta=meta)
                st = ex.start(cands[0], [inp])
                if len(nss) == 2:
                    st.pc.append(nss[0] != nss[1])
                for i, p in enumerate(run.explore(ex, st, allow_havoc=(r'^Arguments::|fmt::',))):
                    lab = f'[{nmeta} metadata, namespaces {shape}, sequencer namespace {has_ns}, path {i}]'
                    if p.kind != 'return':
                        run.prove(f'no panic {lab}', p.pc, z3.BoolVal(False), detail=p.info); continue
                    adds = [e for e in p.log if e[0] == 'try_add']
                    run.sample({'metadata': nmeta, 'namespaces': shape, 'path': i, 'result': p.result.discr, 'blobs': len(adds)})
                    if adds:
                        a0 = adds[0]
                        run.prove(f'the first blob is the metadata list: all block metadata, in order, under the sequencer namespace {lab}', p.pc,
                                  z3.And(z3.BoolVal(has_ns and a0[3] == [f'metadata_{x}' for x in range(nmeta)] and 'Metadata' in (a0[2] or '')), a0[1] == seqns))
                    for j, a_ in enumerate(adds[1:]):
                        run.prove(f'rollup blob {j}: exactly the entries of its namespace, under that namespace {lab}', p.pc,
                                  z3.And(z3.BoolVal(j < len(shape) and a_[3] == [f'rollup_data_{j}_{t}' for t in range(shape[j])] and 'RollupData' in (a_[2] or '')), a_[1] == nss[j] if j < len(nss) else z3.BoolVal(False)))
                    if p.result.discr == 'Ok':
                        n_ok += 1
                        run.prove(f'Ok => one metadata blob plus one blob per namespace, and every blob was accepted {lab}', p.pc,
                                  z3.And(z3.BoolVal(len(adds) == 1 + len(shape) and has_ns), *[z3.Bool(f'blob_{k}_fits') for k in range(len(adds))]))
                    else:
                        run.prove(f'Err => the sequencer namespace is missing or a blob was refused {lab}', p.pc,
                                  z3.Or(z3.BoolVal(not has_ns), *[z3.Not(z3.Bool(f'blob_{k}_fits')) for k in range(len(adds))]))
    if not n_ok:
        raise Inconclusive('vacuity')
    run.require_reached(*run.cur.reach)
