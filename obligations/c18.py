"""C18 — IBC transfers: exact escrow accounting; a failed receive has no side effects (ibc/ics20_transfer.rs, ibc/state_ext.rs)."""
import re
import z3
from vlib.oblig import obligation, mval
from vlib import build as B, actions as A
from vlib.actions import unchanged, poll_result
from vlib.seqworld import initial_world
from mirsym.engine import Obj, Ref, Inconclusive, ok, err, some, none, enum
from mirsym import models as M
from mirsym.mir import MirError

TRACE = 'astria_core::primitive::v1::asset::TracePrefixed'


def oracle(name, mk):
    """Ok(mk()) or Err, decided by a fresh Bool"""
    def h(ctx):
        b = z3.Bool(f'{name}_ok_{len(ctx.st.log)}')
        ctx.st.log.append(('oracle', name, b))
        return [(b, (lambda s2: ok(mk(ctx, s2)))), (z3.Not(b), (lambda s2: err(Obj('ParseError', kind='error'))))]
    return h


def async_oracle(name, mk):
    def h(ctx):
        b = z3.Bool(f'{name}_ok_{len(ctx.st.log)}')
        ctx.st.log.append(('oracle', name, b))

        def alts(ex, s2, fut):
            return [(b, (lambda s3: ok(mk(ctx, s3)))), (z3.Not(b), (lambda s3: err(Obj('ParseError', kind='error'))))]
        return [(None, M.thunk_future(alts))]
    return h


def mk_asset(ctx, st):
    o = Obj(TRACE); o.attrs['asset_id'] = z3.BitVec(f'asset_{len(st.log)}', 256)
    return o


def h_zone(ctx):
    W = ctx.ex.world_model
    f = z3.Function('is_transfer_source_zone', z3.BitVecSort(256), z3.BitVecSort(256), z3.BitVecSort(256), z3.BoolSort())
    t = f(W.asset(ctx.st, ctx.args[0]), W.ident(ctx.st, ctx.args[1]), W.ident(ctx.st, ctx.args[2]))
    ctx.st.log.append(('zone', t))
    return [(None, t)]


def h_pop(ctx):
    a = ctx.ex.deref_val(ctx.st, ctx.args[0])
    W = ctx.ex.world_model
    f = z3.Function('pop_port_and_channel', z3.BitVecSort(256), z3.BitVecSort(256))
    a.attrs['asset_id'] = f(W.asset(ctx.st, a))
    return [(None, ())]


def h_str_bool(ctx):
    v = ctx.ex.deref_val(ctx.st, ctx.args[0])
    key = 'str_' + ctx.name.rsplit('::', 1)[1]
    if isinstance(v, Obj):
        if key not in v.attrs:
            v.attrs[key] = z3.Bool(f'{key}_{v.lz}') if key.endswith('is_empty') else z3.BitVec(f'{key}_{v.lz}', 64)
        return [(None, v.attrs[key])]
    return None


def h_ibc_context(ctx):
    p = z3.Bool('ibc_context_present')
    c = Obj('ibc::state_ext::Context')
    return [(p, (lambda s2: some(c))), (z3.Not(p), none())]


def h_delta_new(ctx):
    """nested cnidarium::StateDelta over the given state: snapshot the world; writes keep going to the current world; apply() commits,
    a delta that is never applied is rolled back when the path ends"""
    st = ctx.st
    snap = {k: (list(v) if isinstance(v, list) else v) for k, v in st.world.items() if k != '_snapshots'}
    st.world.setdefault('_snapshots', []).append(snap)
    d = Obj('StateDelta', kind='cell'); d.attrs['delta_depth'] = len(st.world['_snapshots'])
    st.log.append(('delta_new',))
    return [(None, d)]


def h_delta_apply(ctx):
    st = ctx.st
    if not st.world.get('_snapshots'):
        raise MirError('apply on a delta that was not opened in this run')
    snap = st.world['_snapshots'].pop()
    new_events = st.world['events'][len(snap['events']):]
    st.log.append(('delta_apply',))
    evs = M.new_vec('Vec<Event>', list(new_events))
    # cnidarium returns the events recorded in the delta; they are no longer in the parent unless re-recorded by the caller
    st.world['events'] = list(snap['events'])
    return [(None, (ctx.args[0], evs))]


def effective_world(p):
    """the world an outer observer sees when the path ends: un-applied nested deltas are dropped"""
    w = p.world
    snaps = w.get('_snapshots') or []
    return snaps[0] if snaps else w


def h_write_ack(ctx):
    st = ctx.st
    st.log.append(('write_ack', ctx.ex.deref_val(st, ctx.args[2]) if len(ctx.args) > 2 else None))
    return [(None, M.thunk_future(lambda ex, s2, fut: [(None, ok(()))]))]


def h_ack_success(ctx):
    o = Obj('TokenTransferAcknowledgement'); o.attrs['ack_kind'] = 'success'
    return [(None, o)]


def h_ack_bytes(ctx):
    a = ctx.ex.deref_val(ctx.st, ctx.args[0])
    kind = 'error' if isinstance(a, Obj) and a.discr == 'Error' else (a.attrs.get('ack_kind') if isinstance(a, Obj) else None)
    o = M.new_vec('Vec<u8>', []); o.attrs['ack_kind'] = kind
    return [(None, o)]


def hooks():
    return [
        (re.compile(r'TokenTransferAcknowledgement::success$'), h_ack_success),
        (re.compile(r'^<.*TokenTransferAcknowledgement as Into<Vec<u8>>>::into$'), h_ack_bytes),
        (re.compile(r'^serde_json::from_slice::<.*FungibleTokenPacketData>$'), oracle('packet_json', lambda c, s: Obj('penumbra_sdk_proto::core::component::ibc::v1::FungibleTokenPacketData'))),
        (re.compile(r'^core::str::<impl str>::parse::<u128>$'), oracle('amount', lambda c, s: z3.BitVec('packet_amount', 128))),
        (re.compile(r'^parse_address_on_sequencer(::<.*>)?$'), async_oracle('recipient', lambda c, s: Obj('astria_core::primitive::v1::Address'))),
        (re.compile(r'^parse_asset(::<.*>)?$'), async_oracle('asset', mk_asset)),
        (re.compile(r'^core::str::<impl str>::parse::<astria_core::primitive::v1::asset::TracePrefixed>$'), lambda ctx: [(None, ok(mk_asset(ctx, ctx.st)))]),
        (re.compile(r'^is_transfer_source_zone$'), h_zone),
        (re.compile(r'TracePrefixed::pop_leading_port_and_channel$'), h_pop),
        (re.compile(r'^serde_json::from_str::<.*Ics20TransferDeposit>$'), oracle('memo_json', lambda c, s: Obj('astria_core::protocol::memos::v1::Ics20TransferDeposit'))),
        (re.compile(r'^serde_json::from_str::<.*Ics20WithdrawalFromRollup>$'), oracle('refund_memo_json', lambda c, s: Obj('astria_core::protocol::memos::v1::Ics20WithdrawalFromRollup'))),
        (re.compile(r'^(std::string::|alloc::string::)?String::(is_empty|len)$'), h_str_bool),
        (re.compile(r'ephemeral_get_ibc_context'), h_ibc_context),
        (re.compile(r'^(cnidarium::)?StateDelta::<.*>::new$'), h_delta_new),
        (re.compile(r'^(cnidarium::)?StateDelta::<.*>::apply$'), h_delta_apply),
        (re.compile(r'WriteAcknowledgement>::write_acknowledgement'), h_write_ack),
    ]


def engine():
    ex, W = A.engine(extra_hooks=hooks())
    ex.world_model = W
    return ex, W


COMMON = ['JSON decoding, amount/address/denom parsing are oracles returning arbitrary values or an error', 'state reads succeed; awaited futures complete; tracing disabled',
          'is_transfer_source_zone and pop_leading_port_and_channel are uninterpreted functions of (asset, port, channel); the re-prefixed denom is an arbitrary asset']


@obligation('C18', 'C18-1 decrease_ibc_channel_balance contract')
def c18_1(run):
    ex, W = engine()
    f = ex.find(r'^ibc::state_ext::StateWriteExt::decrease_ibc_channel_balance$')
    run.bound(state='arbitrary escrow array', args='arbitrary channel, asset, amount (full u128)', unroll='loop-free')
    w0 = initial_world()
    chan = Obj('ibc_types::core::channel::ChannelId'); asset = z3.BitVec('asset', 256); amt = z3.BitVec('amount', 128)
    st = ex.start(f, [B.cell(Obj('S', kind='cell')), B.cell(chan), B.cell(asset), amt], world=dict(w0))
    for i, p in enumerate(run.explore(ex, st, poll=True)):
        if p.kind != 'return':
            run.prove(f'no panic [path {i}]', p.pc, z3.BoolVal(False), detail=p.info); continue
        kind, r = poll_result(p)
        ch = ex.deref_val(p, p.roots['args'][1])
        k = z3.Concat(W.ident(p, ch), asset); cur = z3.Select(w0['escrow'], k)
        run.sample({'path': i, 'result': kind})
        if kind == 'Ok':
            run.prove(f'Ok => escrow covers the amount and is reduced by exactly it, nothing else written [path {i}]', p.pc,
                      z3.And(z3.UGE(cur, amt), p.world['escrow'] == z3.Store(w0['escrow'], k, cur - amt), unchanged(w0, p.world, except_=('escrow',))))
        else:
            run.prove(f'Err => more than escrowed was requested, nothing written [path {i}]', p.pc, z3.And(z3.ULT(cur, amt), unchanged(w0, p.world)))
    run.require_reached(*run.cur.reach)


def classify_f6(w0, p):
    def c(model):
        ev = lambda e: z3.is_true(model.eval(e, model_completion=True))
        eff = effective_world(p)
        only_deposit = len(eff['cached_deposits']) > len(w0['cached_deposits']) or len(eff['events']) > len(w0['events'])
        rest_same = ev(unchanged(w0, eff, except_=('cached_deposits', 'events')))
        return 'deposit-recorded-before-fallible-escrow-or-credit-step' if only_deposit and rest_same else None
    return c


def replay_failed_receive(model, path):
    """native replay in the shape of the counterexample: bridge recipient, returning asset, escrow one short of the packet amount"""
    from vlib import replay
    amt = mval(model, z3.BitVec('packet_amount', 128)) or 100
    amt = max(1, min(amt, (1 << 127)))
    code = open('/verif/replay_templates/c18_recv.rs').read().replace('VERIF_AMOUNT', str(amt)).replace('VERIF_ESCROW', str(amt - 1))
    r = replay.run_crate_test('astria-sequencer', 'crates/astria-sequencer/src/ibc/ics20_transfer.rs', code, 'verif_replay_c18')
    if not r['lines']:
        return {'mode': 'native-crate-test', 'reproduced': None, 'error': r['output'][-1500:]}
    o = r['lines'][-1]
    return {'mode': 'native-crate-test', 'inputs': {'amount': amt, 'escrow': amt - 1, 'recipient': 'bridge account', 'asset': 'returning (source-zone) asset'}, 'observed': o,
            'reproduced': o['deposits'] != 0 or o['balance'] != '0' or o['escrow'] != str(amt - 1)}


def receive_claims(run, ex, W, w0, p, kind, label, packet):
    eff = effective_world(p)
    if kind == 'Err':
        run.prove(f'failed receive => no balance, escrow, asset registration, deposit or deposit event survives {label}', p.pc, unchanged(w0, eff), replay=replay_failed_receive)
        return
    # Ok: find the amount / recipient / asset the path used
    amt = z3.BitVec('packet_amount', 128)
    bw = [e for e in p.log if e[0] == 'write' and e[1] == 'balance']
    ew = [e for e in p.log if e[0] == 'write' and e[1] == 'escrow']
    deps = eff['cached_deposits'][len(w0['cached_deposits']):]
    if len(bw) != 1:
        run.prove(f'successful receive credits exactly one balance {label}', p.pc, z3.BoolVal(False)); return
    key = bw[0][2]; recipient = z3.Extract(415, 256, key); asset = z3.Extract(255, 0, key)
    claim = [eff['balance'] == z3.Store(w0['balance'], key, z3.Select(w0['balance'], key) + amt), z3.BVAddNoOverflow(z3.Select(w0['balance'], key), amt, False)]
    if ew:
        ek = ew[0][2]
        claim += [z3.BoolVal(len(ew) == 1), z3.Extract(255, 0, ek) == asset, z3.UGE(z3.Select(w0['escrow'], ek), amt),
                  eff['escrow'] == z3.Store(w0['escrow'], ek, z3.Select(w0['escrow'], ek) - amt), z3.Extract(511, 256, ek) == W.ident(p, B.fld(ex, p, packet(p), 'chan_on_b', 'ChannelId'))]
    else:
        claim += [eff['escrow'] == w0['escrow'], z3.Select(eff['has_ibc_asset'], asset)]
    zones = [e[1] for e in p.log if e[0] == 'zone']
    # escrow is released exactly for a returning asset (the transfer-source-zone test of the incoming denom against the packet's source port / channel)
    claim.append(z3.BoolVal(bool(ew)) == zones[0] if zones else z3.BoolVal(False))
    is_bridge = z3.Select(w0['bridge_rollup?'], recipient)
    if deps:
        d = ex.deref_val(p, deps[0])
        claim += [z3.BoolVal(len(deps) == 1), is_bridge, B.fld(ex, p, d, 'amount', 'u128') == amt, W.addr(p, B.fld(ex, p, d, 'bridge_address', 'Address')) == recipient,
                  W.asset(p, B.fld(ex, p, d, 'asset', 'Denom')) == asset, z3.Select(w0['bridge_asset'], recipient) == asset, z3.BoolVal(len(eff['events']) == len(w0['events']) + 1)]
    else:
        claim += [z3.Not(is_bridge), z3.BoolVal(len(eff['events']) == len(w0['events']))]
    run.prove(f'successful receive => recipient credited exactly the packet amount; escrow released exactly that amount for a returning asset, else asset registered; a bridge recipient gets exactly one deposit of that amount {label}',
              p.pc, z3.And(*claim))


@obligation('C18', 'C18-3 receive_tokens: exact accounting on success')
def c18_3(run):
    ex, W = engine()
    for a_ in COMMON:
        run.assume(a_)
    f = ex.find(r'^receive_tokens$')
    run.bound(state='arbitrary symbolic chain state', packet='arbitrary packet (oracles for every parse step)', unroll='loop-free')
    w0 = initial_world()
    pkt = Obj('ibc_types::core::channel::Packet')
    st = ex.start(f, [B.cell(Obj('S', kind='cell')), B.cell(pkt)], world=dict(w0))
    seen = set()
    # which upgrade-change cell means "post-Blackburn" is taken from the code's own is_post_blackburn
    g = ex.find(r'^is_post_blackburn$')
    stb = ex.start(g, [B.cell(Obj('S', kind='cell'))], world=dict(w0))
    reads = {str(e[2]): e[2] for q in run.explore(ex, stb, poll=True, allow_havoc=(r'^Arguments::|fmt::',)) for e in q.log if e[0] == 'read' and e[1] == 'upgrade_change'}
    if len(reads) != 1:
        raise Inconclusive(f'is_post_blackburn reads {len(reads)} upgrade cells')
    bkey = list(reads.values())[0]
    for i, p in enumerate(run.explore(ex, st, poll=True, allow_havoc=(r'^Arguments::|fmt::', r'new_adhoc'))):
        if p.kind != 'return':
            run.prove(f'no panic [path {i}]', p.pc, z3.BoolVal(False), detail=p.info); continue
        kind, r = poll_result(p)
        seen.add(kind)
        run.sample({'path': i, 'result': kind, 'writes': [e[1] for e in p.log if e[0] == 'write']})
        if kind == 'Ok':
            receive_claims(run, ex, W, w0, p, kind, f'[path {i}]', lambda pp: ex.deref_val(pp, pp.roots['args'][1]))
            bw = [e for e in p.log if e[0] == 'write' and e[1] == 'balance']
            if len(bw) == 1:
                asset = z3.Extract(255, 0, bw[0][2])
                run.prove(f'successful receive while the Blackburn ICS20 change is active => the credited asset is an allowed fee asset [path {i}]', p.pc,
                          z3.Implies(z3.Select(w0['upgrade_change?'], bkey), z3.Select(w0['allowed_fee_asset'], asset)))
    if 'Ok' not in seen:
        raise Inconclusive('vacuity: no successful receive')
    run.require_reached(*run.cur.reach)


@obligation('C18', 'C18-4 recv_packet_execute: a failed receive is acknowledged with an error and leaves no side effects')
def c18_4(run):
    ex, W = engine()
    for a_ in COMMON:
        run.assume(a_)
    run.assume('a nested cnidarium StateDelta that is not applied discards its writes; apply() commits them and returns the recorded events')
    f = ex.find(r'ics20_transfer::<impl at [^>]*>::recv_packet_execute$')
    run.bound(state='arbitrary symbolic chain state', packet='arbitrary MsgRecvPacket (oracles for every parse step)', unroll='loop-free')
    w0 = initial_world()
    msg = Obj('ibc_types::core::channel::msgs::MsgRecvPacket')
    st = ex.start(f, [B.cell(Obj('S', kind='cell')), B.cell(msg)], world=dict(w0))
    n_err = n_ok = 0
    for i, p in enumerate(run.explore(ex, st, poll=True, allow_havoc=(r'^Arguments::|fmt::', r'new_adhoc', r'TokenTransferAcknowledgement', r'Into<Vec<u8>>', r'as AsRef<dyn'))):
        if p.kind != 'return':
            run.prove(f'no panic [path {i}]', p.pc, z3.BoolVal(False), detail=p.info); continue
        kind, r = poll_result(p)
        acks = [e for e in p.log if e[0] == 'write_ack']
        # did receive_tokens succeed on this path?  all oracles true and no Err between -> detect through the world: classify by whether the success ack constructor ran
        recv_failed = any(e[0] == 'recv_failed' for e in p.log)
        run.sample({'path': i, 'result': kind, 'acks': len(acks), 'writes': [e[1] for e in p.log if e[0] == 'write']})
        run.prove(f'exactly one acknowledgement is written and the handler returns Ok [path {i}]', p.pc, z3.BoolVal(kind == 'Ok' and len(acks) == 1))
        failed = is_error_ack(ex, p, acks[0][1]) if acks else None
        if failed is None:
            raise Inconclusive('cannot tell success ack from error ack')
        if failed:
            n_err += 1
            receive_claims(run, ex, W, w0, p, 'Err', f'[path {i}]', None)
        else:
            n_ok += 1
    if not n_err or not n_ok:
        raise Inconclusive(f'vacuity: error-ack paths {n_err}, success paths {n_ok}')
    run.require_reached(*run.cur.reach)


def is_error_ack(ex, p, ackbytes):
    v = ackbytes
    src = v.attrs.get('ack_kind') if isinstance(v, Obj) else None
    return None if src is None else (src == 'error')


# ----------------------------------------------------------------------------------------------------------------- Ics20Withdrawal
def ics20_obligation(pid):
    def ob(run):
        ex, W = A.ics20_engine()
        run.bound(state='arbitrary symbolic chain state', action='arbitrary Ics20Withdrawal, plain and on behalf of a bridge account', ibc='send_packet_check / send_packet_execute are oracles; is_source is an uninterpreted predicate of (port, channel, denom)')
        run.assume('constructor invariant of CheckedIcs20Withdrawal::new: with a bridge address the withdrawal address is that bridge address, otherwise it is the signer')
        n_ok = 0
        for with_bridge in (False, True):
            me, wa, signer, info = A.mk_ics20_self(ex, with_bridge)
            w0 = initial_world()
            pc = []
            if with_bridge:
                st_tmp = None
            w0r, res = A.run_action(run, ex, W, 'Ics20Withdrawal', w0=w0, me=me, allow_havoc=(r'^Arguments::|fmt::', r'to_vec$'))
            for i, (p, kind, r, me1) in enumerate(res):
                lab = f'[{"bridge" if with_bridge else "plain"}, path {i}]'
                if kind == 'panic':
                    run.prove(f'no panic {lab}', p.pc, z3.BoolVal(False), detail=p.info); continue
                run.sample({'bridge': with_bridge, 'path': i, 'result': kind, 'writes': [e[1] for e in p.log if e[0] == 'write']})
                if kind != 'Ok':
                    continue
                n_ok += 1
                act = B.fld(ex, p, me1, 'action', 'Ics20Withdrawal')
                amt = B.fld(ex, p, act, 'amount', 'u128'); denom = W.asset(p, B.fld(ex, p, act, 'denom', 'Denom'))
                inv = []
                if with_bridge:
                    baddr, memo = me1.fields[(None, ex.adts.lookup('CheckedIcs20Withdrawal')['fields'].index('bridge_address_and_rollup_withdrawal'))].fields[('Some', 0)]
                    inv.append(W.addr(p, baddr) == wa)
                else:
                    inv.append(wa == signer)
                k = z3.Concat(wa, denom)
                if pid == 'C18':
                    chan_writes = [e for e in p.log if e[0] == 'write' and e[1] == 'escrow']
                    esc_ok = z3.BoolVal(True)
                    if chan_writes:
                        ek = chan_writes[0][2]
                        esc_ok = z3.And(z3.BoolVal(len(chan_writes) == 1), z3.Extract(255, 0, ek) == denom, p.world['escrow'] == z3.Store(w0['escrow'], ek, z3.Select(w0['escrow'], ek) + amt),
                                        z3.BVAddNoOverflow(z3.Select(w0['escrow'], ek), amt, False))
                    else:
                        esc_ok = p.world['escrow'] == w0['escrow']
                    run.prove(f'Ok => the withdrawal address is debited exactly the amount; a sequencer-origin asset is escrowed on the source channel by exactly that amount (no wrap), otherwise escrow is untouched {lab}',
                              p.pc + inv, z3.And(p.world['balance'] == z3.Store(w0['balance'], k, z3.Select(w0['balance'], k) - amt), z3.UGE(z3.Select(w0['balance'], k), amt), esc_ok,
                                                 z3.BoolVal(any(e[0] == 'send_packet_execute' for e in p.log))))
                if pid == 'C04' and with_bridge:
                    key = z3.Concat(wa, W.ident(p, B.fld(ex, p, memo, 'rollup_withdrawal_event_id', 'String')))
                    run.prove(f'Ok => the (bridge, event id) pair was unused before and is recorded with the rollup block number afterwards {lab}', p.pc + inv,
                              z3.And(z3.Not(z3.Select(w0['withdrawal_event?'], key)), z3.Select(p.world['withdrawal_event?'], key),
                                     z3.Select(p.world['withdrawal_event'], key) == B.fld(ex, p, memo, 'rollup_block_number', 'u64')))
                if pid == 'C02':
                    for label, claim in A.c02_claims(w0, p.world, signer):
                        run.prove(f'{label} {lab}', p.pc + inv, claim)
                    run.prove(f'Ics20Withdrawal writes only balance / escrow / withdrawal_event {lab}', p.pc, A.unchanged(w0, p.world, except_=('balance', 'escrow', 'withdrawal_event')))
        if not n_ok:
            raise Inconclusive('vacuity: no successful withdrawal')
        run.require_reached(*run.cur.reach)
    return ob


obligation('C18', 'C18-1b Ics20Withdrawal::execute: exact debit and escrow increase')(ics20_obligation('C18'))


# ----------------------------------------------------------------------------------------------------------------- C18-5 refunds
@obligation('C18', 'C18-5 refund_tokens (timeout / error acknowledgement): the sender is credited exactly the packet amount; escrow is released by exactly that amount iff the asset left through escrow; a rollup-originated transfer gets exactly one deposit')
def c18_5(run):
    ex, W = engine()
    for a_ in COMMON:
        run.assume(a_)
    run.assume('errors of refund_tokens propagate (timeout_packet_execute / acknowledge_packet_execute return them), so the enclosing transaction is rolled back: only successful refunds are characterised')
    f = ex.find(r'^refund_tokens$')
    run.bound(state='arbitrary symbolic chain state', packet='arbitrary packet (oracles for every parse step)', unroll='loop-free')
    w0 = initial_world()
    pkt = Obj('ibc_types::core::channel::Packet')
    st = ex.start(f, [B.cell(Obj('S', kind='cell')), B.cell(pkt)], world=dict(w0))
    n_ok = 0
    amt = z3.BitVec('packet_amount', 128)
    for i, p in enumerate(run.explore(ex, st, poll=True, allow_havoc=(r'^Arguments::|fmt::', r'new_adhoc'))):
        if p.kind != 'return':
            run.prove(f'no panic [path {i}]', p.pc, z3.BoolVal(False), detail=p.info); continue
        kind, r = poll_result(p)
        run.sample({'path': i, 'result': kind, 'writes': [e[1] for e in p.log if e[0] == 'write']})
        if kind != 'Ok':
            continue
        n_ok += 1
        eff = effective_world(p)
        bw = [e for e in p.log if e[0] == 'write' and e[1] == 'balance']
        ew = [e for e in p.log if e[0] == 'write' and e[1] == 'escrow']
        deps = eff['cached_deposits'][len(w0['cached_deposits']):]
        if len(bw) != 1:
            run.prove(f'successful refund credits exactly one balance [path {i}]', p.pc, z3.BoolVal(False)); continue
        key = bw[0][2]; recipient = z3.Extract(415, 256, key); asset = z3.Extract(255, 0, key)
        claim = [eff['balance'] == z3.Store(w0['balance'], key, z3.Select(w0['balance'], key) + amt), z3.BVAddNoOverflow(z3.Select(w0['balance'], key), amt, False)]
        packet = ex.deref_val(p, p.roots['args'][1])
        zone = z3.Function('is_transfer_source_zone', z3.BitVecSort(256), z3.BitVecSort(256), z3.BitVecSort(256), z3.BoolSort())
        if ew:
            ek = ew[0][2]
            claim += [z3.BoolVal(len(ew) == 1), z3.Extract(255, 0, ek) == asset, z3.UGE(z3.Select(w0['escrow'], ek), amt),
                      eff['escrow'] == z3.Store(w0['escrow'], ek, z3.Select(w0['escrow'], ek) - amt), z3.Extract(511, 256, ek) == W.ident(p, B.fld(ex, p, packet, 'chan_on_a', 'ChannelId'))]
        else:
            claim += [eff['escrow'] == w0['escrow']]
        # the escrow is released exactly when the refunded asset left through escrow on the packet's source channel (is_refund_source_zone = !is_transfer_source_zone)
        leaves_through_escrow = z3.Not(zone(asset, W.ident(p, B.fld(ex, p, packet, 'port_on_a', 'PortId')), W.ident(p, B.fld(ex, p, packet, 'chan_on_a', 'ChannelId'))))
        claim.append(z3.BoolVal(bool(ew)) == leaves_through_escrow)
        if deps:
            d = ex.deref_val(p, deps[0])
            claim += [z3.BoolVal(len(deps) == 1), z3.Select(w0['bridge_rollup?'], recipient), B.fld(ex, p, d, 'amount', 'u128') == amt, W.addr(p, B.fld(ex, p, d, 'bridge_address', 'Address')) == recipient,
                      W.asset(p, B.fld(ex, p, d, 'asset', 'Denom')) == asset, z3.Select(w0['bridge_asset'], recipient) == asset, z3.BoolVal(len(eff['events']) == len(w0['events']) + 1)]
        else:
            claim += [z3.BoolVal(len(eff['events']) == len(w0['events']))]
        claim.append(unchanged(w0, eff, except_=('balance', 'escrow', 'cached_deposits', 'events')))
        run.prove(f'successful refund => sender credited exactly the packet amount; escrow released by exactly that amount on the source channel (never below zero) or untouched; at most one deposit, to a bridge account holding that asset, of that amount [path {i}]',
                  p.pc, z3.And(*claim))
    if not n_ok:
        raise Inconclusive('vacuity: no successful refund')
    run.require_reached(*run.cur.reach)


from obligations import shared_ctor as _ctor
obligation('C18', 'C18-1c the constructor invariant the withdrawal obligations assume: the debited account is the named bridge account, otherwise the signer (= C02-N)')(_ctor.constructors_obligation)


# ----------------------------------------------------------------------------------------------------------------- C18-6
@obligation('C18', 'C18-6 acknowledge_packet_execute / timeout_packet_execute: tokens are refunded exactly once, for exactly this packet, iff the transfer timed out or was acknowledged with an error; a successful acknowledgement refunds nothing; a refund failure fails the message')
def c18_6(run):
    import re
    from mirsym import models as M
    def h_refund(ctx):
        st = ctx.st
        pk = ctx.ex.deref_val(st, ctx.args[1])
        st.log.append(('refund', pk.attrs.get('ident') if isinstance(pk, Obj) else None))
        okv = z3.Bool('refund_ok')
        return [(None, M.thunk_future(lambda ex, s2, fut: [(okv, ok(())), (z3.Not(okv), (lambda s3: err(Obj('eyre::Report', kind='error'))))]))]

    def h_parse(ctx):
        okv = z3.Bool('ack_parses')
        return [(okv, (lambda s: ok(Obj('TokenTransferAcknowledgement', kind='opaque')))), (z3.Not(okv), (lambda s: err(Obj('serde_json::Error', kind='error'))))]
    hooks = [(re.compile(r'^(ibc::ics20_transfer::)?refund_tokens(::<.*>)?$'), h_refund), (re.compile(r'^serde_json::from_slice::<'), h_parse),
             (re.compile(r'TokenTransferAcknowledgement::is_successful$'), lambda ctx: [(None, z3.Bool('ack_successful'))]),
             (re.compile(r'anyhow::Context<.*>>::context|eyre_to_anyhow|anyhow::Error::context|Error>::context'), lambda ctx: [(None, ctx.ex.deref_val(ctx.st, ctx.args[0]))]),
             (re.compile(r'as_slice$'), lambda ctx: [(None, Obj('slice', kind='opaque'))])]
    ex, W = A.engine(extra_hooks=hooks)
    run.bound(messages='arbitrary MsgTimeout / MsgAcknowledgement; refund_tokens (its accounting is C18-5), JSON parsing of the acknowledgement and is_successful are oracles')
    n = 0
    for fname, mty in (('timeout_packet_execute', 'MsgTimeout'), ('acknowledge_packet_execute', 'MsgAcknowledgement')):
        f = ex.find(rf'ics20_transfer::<impl at [^>]*>::{fname}$')
        msg = Obj(mty, kind=None); pk = Obj('ibc_types::core::channel::Packet', kind='opaque'); pk.attrs['ident'] = 'this_packet'
        a = ex.adts.lookup(mty)
        if not a or 'packet' not in a.get('fields', []):
            raise Inconclusive(f'{mty} {{ packet, .. }} not in the ADT table')
        msg = B.struct(ex, mty, packet=pk)
        for i, p in enumerate(run.explore(ex, ex.start(f, [Obj('S', kind='cell'), B.cell(msg)]), poll=True, allow_havoc=(r'^Arguments::|fmt::',))):
            lab = f'[{fname}, path {i}]'
            if p.kind != 'return':
                run.prove(f'no panic {lab}', p.pc, z3.BoolVal(False), detail=p.info); continue
            n += 1
            kind, r = A.poll_result(p)
            refunds = [e[1] for e in p.log if e[0] == 'refund']
            run.sample({'fn': fname, 'path': i, 'result': kind, 'refunds': refunds})
            run.prove(f'at most one refund, and only of this packet {lab}', p.pc, z3.BoolVal(refunds in ([], ['this_packet'])))
            if fname.startswith('timeout'):
                run.prove(f'a timeout always refunds; the message succeeds iff the refund did {lab}', p.pc, z3.And(z3.BoolVal(len(refunds) == 1), z3.BoolVal(kind == 'Ok') == z3.Bool('refund_ok')))
            else:
                need = z3.And(z3.Bool('ack_parses'), z3.Not(z3.Bool('ack_successful')))
                run.prove(f'an acknowledgement refunds iff it parsed and reports an error; success refunds nothing and succeeds; an unreadable acknowledgement fails {lab}', p.pc,
                          z3.And(z3.BoolVal(len(refunds) == 1) == need,
                                 z3.BoolVal(kind == 'Ok') == z3.Or(z3.And(z3.Bool('ack_parses'), z3.Bool('ack_successful')), z3.And(need, z3.Bool('refund_ok')))))
    if n < 5:
        raise Inconclusive(f'vacuity: {n} paths')
    run.require_reached(*run.cur.reach)


# ----------------------------------------------------------------------------------------------------------------- C18-7
@obligation('C18', 'C18-7 is_transfer_source_zone / is_refund_source_zone: an asset counts as returning exactly when its leading trace segment is this (port, channel) — decided through astria-core\'s segment comparison of BOTH parts; the refund predicate is its negation')
def c18_7(run):
    import re
    LP, LC = z3.Bool('leading_port_matches'), z3.Bool('leading_channel_matches')

    def h(pred, name):
        def hook(ctx):
            a = ctx.ex.deref_val(ctx.st, ctx.args[0]); b = ctx.ex.deref_val(ctx.st, ctx.args[1])
            ctx.st.log.append((name, a.attrs.get('ident') if isinstance(a, Obj) else None, b.attrs.get('ident') if isinstance(b, Obj) else None))
            return [(None, pred)]
        return hook
    hooks = [(re.compile(r'TracePrefixed::has_leading_port(::<.*>)?$'), h(LP, 'port')), (re.compile(r'TracePrefixed::has_leading_channel(::<.*>)?$'), h(LC, 'channel'))]
    ex, W = A.engine(extra_hooks=hooks)
    run.bound(inputs='arbitrary trace-prefixed asset, port and channel; the two segment comparisons of astria-core (string equality of the leading port / channel) are uninterpreted predicates',
              note='an implementation that decides this through other string operations is outside the modelled fragment and is reported as inconclusive, not as a violation')
    n = 0
    for fname, neg in (('is_transfer_source_zone', False), ('is_refund_source_zone', True)):
        f = ex.find(rf'(^|::){fname}$')
        asset = Obj('denom::TracePrefixed', kind='opaque'); asset.attrs['ident'] = 'asset'
        port = Obj('PortId', kind='opaque'); port.attrs['ident'] = 'port'; chan = Obj('ChannelId', kind='opaque'); chan.attrs['ident'] = 'channel'
        for i, p in enumerate(run.explore(ex, ex.start(f, [B.cell(asset), B.cell(port), B.cell(chan)]))):
            if p.kind != 'return':
                run.prove(f'{fname}: no panic [path {i}]', p.pc, z3.BoolVal(False), detail=p.info); continue
            n += 1
            want = z3.And(LP, LC)
            run.prove(f'{fname} == {"not " if neg else ""}(leading port matches and leading channel matches) [path {i}]', p.pc, p.result == (z3.Not(want) if neg else want))
            for e in p.log:
                run.prove(f'{fname}: the comparison is made for THIS asset against the given {e[0]} [path {i}]', p.pc, z3.BoolVal(e[1] == 'asset' and e[2] == e[0]))
    if n < 2:
        raise Inconclusive('vacuity')
    run.require_reached(*run.cur.reach)
