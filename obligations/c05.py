"""C05 — deterministic, call-path-independent block execution: the execution-state machine that decides skip vs re-execute."""
import z3
from vlib.oblig import obligation, mval
from vlib import loader, build as B
from mirsym.engine import Obj, Ref, Inconclusive, enum, some, none
from mirsym import models as M

SCALARS = {'tendermint::Time': 128, 'tendermint::account::Id': 160, 'tendermint::block::Height': 64, 'tendermint::Hash': 264, 'tendermint::block::Round': 32,
           'tendermint::AppHash': 256}
FIELDS = [('time', 'tendermint::Time'), ('proposer_address', 'tendermint::account::Id'), ('txs', 'Vec<Bytes>'), ('proposed_last_commit', 'Option<CommitInfo>'),
          ('misbehavior', 'Vec<Misbehavior>'), ('next_validators_hash', 'tendermint::Hash'), ('height', 'tendermint::block::Height')]
DEFAULT_CTORS = (r'^Time::unix_epoch$', r'^tendermint::account::Id::new$', r'^<tendermint::block::Height as (std::convert::)?From<u8>>::from$', r'^<tendermint::Hash as (std::default::)?Default>::default$')
STATES = ['Unset', 'Prepared', 'PreparedValid', 'CheckedPreparedMismatch', 'ExecutedBlock', 'CheckedExecutedBlockMismatch']


def engine():
    return loader.load(['astria-sequencer'], scalar_types=SCALARS, dep_adts=['tendermint'])


def opaque(ty, tag):
    o = Obj(ty); o.attrs['ident'] = z3.BitVec(f'{tag}', 256)
    return o


def sym_proposal(ex, tag):
    vals = {}
    for name, ty in FIELDS:
        b = ex.scalar_bits(ty)
        vals[name] = z3.BitVec(f'{tag}_{name}', b) if b else opaque(ty, f'{tag}_{name}')
    return B.struct(ex, 'CachedProposal', **vals), vals


def feq(a, b):
    return a == b if z3.is_expr(a) else M.ident(a) == M.ident(b)


def proposals_equal(v1, v2):
    return z3.And(*[feq(v1[n], v2[n]) for n, _ in FIELDS])


def machine(ex, state, tag='c'):
    """ExecutionStateMachine in variant `state` with a symbolic payload"""
    prop, vals = sym_proposal(ex, tag)
    h = z3.BitVec(f'{tag}_block_hash', 256)
    if state == 'Unset':
        inner = B.variant(ex, 'ExecutionState', 'Unset')
    elif state in ('Prepared', 'PreparedValid', 'CheckedPreparedMismatch'):
        inner = B.variant(ex, 'ExecutionState', state, **{'0': prop})
    else:
        has = z3.Bool(f'{tag}_has_cached')
        opt = Obj('std::option::Option<CachedProposal>'); opt.discr = z3.If(has, z3.BitVecVal(1, 64), z3.BitVecVal(0, 64)); opt.fields[('Some', 0)] = prop
        inner = B.variant(ex, 'ExecutionState', state, cached_block_hash=h, cached_proposal=opt)
    m = B.struct(ex, 'ExecutionStateMachine', **{'0': inner})
    return m, vals, h


def post_state(ex, p):
    m = ex.read(p, p.roots['args'][0].loc)
    inner = B.fld(ex, p, m, '0')
    return inner


def read_prop(ex, p, obj):
    return {n: B.fld(ex, p, obj, n, ty) for n, ty in FIELDS}


@obligation('C05', 'C05-1a check_if_prepared_proposal: skip only for an identical proposal')
def c05_1a(run):
    ex = engine()
    f = ex.find(r'execution_state.*::check_if_prepared_proposal$')
    run.bound(states='all 6 ExecutionState variants with symbolic payloads', request='all 7 compared fields symbolic (scalars, or opaque values compared through an identity scalar)')
    run.assume('CachedProposal::default() field constructors (Time::unix_epoch, Id::new, Height::from, Hash::default) are havocked: the default value only fills a slot that is overwritten before it is read')
    run.assume('equality of Vec<Bytes>, Option<CommitInfo>, Vec<Misbehavior> (tendermint types) is abstracted as equality of an identity scalar')
    for state in STATES:
        m, cvals, _ = machine(ex, state)
        rvals = {}
        for name, ty in FIELDS:
            b = ex.scalar_bits(ty)
            rvals[name] = z3.BitVec(f'req_{name}', b) if b else opaque(ty, f'req_{name}')
        req = B.struct(ex, 'tendermint::abci::request::ProcessProposal', **rvals)
        paths = run.explore(ex, ex.start(f, [B.cell(m), req]), allow_havoc=DEFAULT_CTORS)
        same = proposals_equal(cvals, rvals)
        for i, p in enumerate(paths):
            lab = f'{state}[{i}]'
            if p.kind != 'return':
                run.prove(f'no panic {lab}', p.pc, z3.BoolVal(False), detail=p.info); continue
            post = post_state(ex, p)
            run.sample({'pre': state, 'path': i, 'result': str(z3.simplify(p.result)), 'post': str(post.discr)})
            if state in ('Prepared', 'PreparedValid'):
                run.prove(f'true <=> all 7 fields equal {lab}', p.pc, p.result == same)
                want = z3.If(same, z3.BoolVal(post.discr == 'PreparedValid'), z3.BoolVal(post.discr == 'CheckedPreparedMismatch'))
                run.prove(f'post-state PreparedValid on match / CheckedPreparedMismatch otherwise {lab}', p.pc, want)
                stored = read_prop(ex, p, post.fields[(post.discr, 0)])
                run.prove(f'stored proposal is the cached one {lab}', p.pc, proposals_equal(stored, cvals))
            else:
                run.prove(f'never answers skip from state {lab}', p.pc, z3.Not(p.result))
                run.prove(f'state unchanged {lab}', p.pc, z3.BoolVal(post.discr == state))
    run.require_reached(*run.cur.reach)


@obligation('C05', 'C05-1b check_if_executed_block / set_executed_block')
def c05_1b(run):
    ex = engine()
    chk = ex.find(r'execution_state.*::check_if_executed_block$')
    setx = ex.find(r'execution_state.*::set_executed_block$')
    run.bound(states='all 6 ExecutionState variants with symbolic payloads', block_hash='all [u8;32]')
    bh = z3.BitVec('block_hash', 256)
    for state in STATES:
        m, cvals, ch = machine(ex, state)
        for i, p in enumerate(run.explore(ex, ex.start(chk, [B.cell(m), bh]), allow_havoc=DEFAULT_CTORS)):
            lab = f'check {state}[{i}]'
            if p.kind != 'return':
                run.prove(f'no panic {lab}', p.pc, z3.BoolVal(False), detail=p.info); continue
            post = post_state(ex, p)
            run.sample({'fn': 'check_if_executed_block', 'pre': state, 'result': str(z3.simplify(p.result)), 'post': str(post.discr)})
            if state == 'ExecutedBlock':
                run.prove(f'true <=> hash equal {lab}', p.pc, p.result == (bh == ch))
                run.prove(f'post-state {lab}', p.pc, z3.If(bh == ch, z3.BoolVal(post.discr == 'ExecutedBlock'), z3.BoolVal(post.discr == 'CheckedExecutedBlockMismatch')))
                hk = 'cached_block_hash'
                run.prove(f'cached hash kept {lab}', p.pc, B.vfld(ex, p, post, post.discr, hk, '[u8; 32]') == ch)
            else:
                run.prove(f'never answers skip {lab}', p.pc, z3.Not(p.result))
                exp = 'CheckedPreparedMismatch' if state in ('Prepared', 'PreparedValid') else state
                run.prove(f'post-state {lab}', p.pc, z3.BoolVal(post.discr == exp))
        m, cvals, ch = machine(ex, state)
        for i, p in enumerate(run.explore(ex, ex.start(setx, [B.cell(m), bh]), allow_havoc=DEFAULT_CTORS)):
            lab = f'set {state}[{i}]'
            if p.kind != 'return':
                run.prove(f'no panic {lab}', p.pc, z3.BoolVal(False), detail=p.info); continue
            post = post_state(ex, p); okk = p.result.discr == 'Ok'
            run.sample({'fn': 'set_executed_block', 'pre': state, 'result': p.result.discr, 'post': str(post.discr)})
            run.prove(f'Ok only from Unset/PreparedValid {lab}', p.pc, z3.BoolVal(okk == (state in ('Unset', 'PreparedValid'))))
            if okk:
                run.prove(f'stores the hash {lab}', p.pc, z3.And(z3.BoolVal(post.discr == 'ExecutedBlock'), B.vfld(ex, p, post, 'ExecutedBlock', 'cached_block_hash', '[u8; 32]') == bh))
            else:
                run.prove(f'unchanged on Err {lab}', p.pc, z3.BoolVal(post.discr == state))
    run.require_reached(*run.cur.reach)
