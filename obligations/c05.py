"""C05 — deterministic, call-path-independent block execution: the execution-state machine that decides skip vs re-execute."""
import z3
from vlib.oblig import obligation, mval
from vlib import loader, build as B
from mirsym.engine import Obj, Ref, Inconclusive, enum, some, none
from mirsym import models as M

SCALARS = {'tendermint::Time': 128, 'tendermint::account::Id': 160, 'tendermint::block::Height': 64, 'tendermint::Hash': 264, 'tendermint::block::Round': 32,
           'tendermint::AppHash': 256}
FIELDS = [('time', 'tendermint::Time'), ('proposer_address', 'tendermint::account::Id'), ('txs', 'Vec<Bytes>'), ('proposed_last_commit', 'Option<CommitInfo>'),
          ('misbehavior', 'Vec<Misbehavior>'), ('next_validators_hash', 'tendermint::Hash'), ('height', 'tendermint::block::Height')]
DEFAULT_CTORS = (r'^Time::unix_epoch$', r'^tendermint::account::Id::new$', r'^<tendermint::block::Height as (std::convert::)?From<u8>>::from$', r'^<tendermint::Hash as (std::default::)?Default>::default$')
STATES = ['Unset', 'Prepared', 'PreparedValid', 'CheckedPreparedMismatch', 'ExecutedBlock', 'CheckedExecutedBlockMismatch']


def engine():
    return loader.load(['astria-sequencer'], scalar_types=SCALARS, dep_adts=['tendermint'])


def opaque(ty, tag):
    o = Obj(ty); o.attrs['ident'] = z3.BitVec(f'{tag}', 256)
    return o


def sym_proposal(ex, tag):
    vals = {}
    for name, ty in FIELDS:
        b = ex.scalar_bits(ty)
        vals[name] = z3.BitVec(f'{tag}_{name}', b) if b else opaque(ty, f'{tag}_{name}')
    return B.struct(ex, 'CachedProposal', **vals), vals


def feq(a, b):
    return a == b if z3.is_expr(a) else M.ident(a) == M.ident(b)


def proposals_equal(v1, v2):
    return z3.And(*[feq(v1[n], v2[n]) for n, _ in FIELDS])


def machine(ex, state, tag='c'):
    """ExecutionStateMachine in variant `state` with a symbolic payload"""
    prop, vals = sym_proposal(ex, tag)
    h = z3.BitVec(f'{tag}_block_hash', 256)
    if state == 'Unset':
        inner = B.variant(ex, 'ExecutionState', 'Unset')
    elif state in ('Prepared', 'PreparedValid', 'CheckedPreparedMismatch'):
        inner = B.variant(ex, 'ExecutionState', state, **{'0': prop})
    else:
        has = z3.Bool(f'{tag}_has_cached')
        opt = Obj('std::option::Option<CachedProposal>'); opt.discr = z3.If(has, z3.BitVecVal(1, 64), z3.BitVecVal(0, 64)); opt.fields[('Some', 0)] = prop
        inner = B.variant(ex, 'ExecutionState', state, cached_block_hash=h, cached_proposal=opt)
    m = B.struct(ex, 'ExecutionStateMachine', **{'0': inner})
    return m, vals, h


def post_state(ex, p):
    m = ex.read(p, p.roots['args'][0].loc)
    inner = B.fld(ex, p, m, '0')
    return inner


def read_prop(ex, p, obj):
    return {n: B.fld(ex, p, obj, n, ty) for n, ty in FIELDS}


@obligation('C05', 'C05-1a check_if_prepared_proposal: skip only for an identical proposal')
def c05_1a(run):
    ex = engine()
    f = ex.find(r'execution_state.*::check_if_prepared_proposal$')
    run.bound(states='all 6 ExecutionState variants with symbolic payloads', request='all 7 compared fields symbolic (scalars, or opaque values compared through an identity scalar)')
    run.assume('CachedProposal::default() field constructors (Time::unix_epoch, Id::new, Height::from, Hash::default) are havocked: the default value only fills a slot that is overwritten before it is read')
    run.assume('equality of Vec<Bytes>, Option<CommitInfo>, Vec<Misbehavior> (tendermint types) is abstracted as equality of an identity scalar')
    for state in STATES:
        m, cvals, _ = machine(ex, state)
        rvals = {}
        for name, ty in FIELDS:
            b = ex.scalar_bits(ty)
            rvals[name] = z3.BitVec(f'req_{name}', b) if b else opaque(ty, f'req_{name}')
        req = B.struct(ex, 'tendermint::abci::request::ProcessProposal', **rvals)
        paths = run.explore(ex, ex.start(f, [B.cell(m), req]), allow_havoc=DEFAULT_CTORS)
        same = proposals_equal(cvals, rvals)
        for i, p in enumerate(paths):
            lab = f'{state}[{i}]'
            if p.kind != 'return':
                run.prove(f'no panic {lab}', p.pc, z3.BoolVal(False), detail=p.info); continue
            post = post_state(ex, p)
            run.sample({'pre': state, 'path': i, 'result': str(z3.simplify(p.result)), 'post': str(post.discr)})
            if state in ('Prepared', 'PreparedValid'):
                run.prove(f'true <=> all 7 fields equal {lab}', p.pc, p.result == same)
                want = z3.If(same, z3.BoolVal(post.discr == 'PreparedValid'), z3.BoolVal(post.discr == 'CheckedPreparedMismatch'))
                run.prove(f'post-state PreparedValid on match / CheckedPreparedMismatch otherwise {lab}', p.pc, want)
                stored = read_prop(ex, p, post.fields[(post.discr, 0)])
                run.prove(f'stored proposal is the cached one {lab}', p.pc, proposals_equal(stored, cvals))
            else:
                run.prove(f'never answers skip from state {lab}', p.pc, z3.Not(p.result))
                run.prove(f'state unchanged {lab}', p.pc, z3.BoolVal(post.discr == state))
    run.require_reached(*run.cur.reach)


@obligation('C05', 'C05-1b check_if_executed_block / set_executed_block')
def c05_1b(run):
    ex = engine()
    chk = ex.find(r'execution_state.*::check_if_executed_block$')
    setx = ex.find(r'execution_state.*::set_executed_block$')
    run.bound(states='all 6 ExecutionState variants with symbolic payloads', block_hash='all [u8;32]')
    bh = z3.BitVec('block_hash', 256)
    for state in STATES:
        m, cvals, ch = machine(ex, state)
        for i, p in enumerate(run.explore(ex, ex.start(chk, [B.cell(m), bh]), allow_havoc=DEFAULT_CTORS)):
            lab = f'check {state}[{i}]'
            if p.kind != 'return':
                run.prove(f'no panic {lab}', p.pc, z3.BoolVal(False), detail=p.info); continue
            post = post_state(ex, p)
            run.sample({'fn': 'check_if_executed_block', 'pre': state, 'result': str(z3.simplify(p.result)), 'post': str(post.discr)})
            if state == 'ExecutedBlock':
                run.prove(f'true <=> hash equal {lab}', p.pc, p.result == (bh == ch))
                run.prove(f'post-state {lab}', p.pc, z3.If(bh == ch, z3.BoolVal(post.discr == 'ExecutedBlock'), z3.BoolVal(post.discr == 'CheckedExecutedBlockMismatch')))
                hk = 'cached_block_hash'
                run.prove(f'cached hash kept {lab}', p.pc, B.vfld(ex, p, post, post.discr, hk, '[u8; 32]') == ch)
            else:
                run.prove(f'never answers skip {lab}', p.pc, z3.Not(p.result))
                exp = 'CheckedPreparedMismatch' if state in ('Prepared', 'PreparedValid') else state
                run.prove(f'post-state {lab}', p.pc, z3.BoolVal(post.discr == exp))
        m, cvals, ch = machine(ex, state)
        for i, p in enumerate(run.explore(ex, ex.start(setx, [B.cell(m), bh]), allow_havoc=DEFAULT_CTORS)):
            lab = f'set {state}[{i}]'
            if p.kind != 'return':
                run.prove(f'no panic {lab}', p.pc, z3.BoolVal(False), detail=p.info); continue
            post = post_state(ex, p); okk = p.result.discr == 'Ok'
            run.sample({'fn': 'set_executed_block', 'pre': state, 'result': p.result.discr, 'post': str(post.discr)})
            run.prove(f'Ok only from Unset/PreparedValid {lab}', p.pc, z3.BoolVal(okk == (state in ('Unset', 'PreparedValid'))))
            if okk:
                run.prove(f'stores the hash {lab}', p.pc, z3.And(z3.BoolVal(post.discr == 'ExecutedBlock'), B.vfld(ex, p, post, 'ExecutedBlock', 'cached_block_hash', '[u8; 32]') == bh))
            else:
                run.prove(f'unchanged on Err {lab}', p.pc, z3.BoolVal(post.discr == state))
    run.require_reached(*run.cur.reach)


# ----------------------------------------------------------------------------------------------------------------- C05-2
import re
from vlib import actions as A
from mirsym.engine import ok, err


def eff(name, is_async, okval=lambda ctx, s: (), can_fail=True, kind='Result'):
    """an effect oracle: logs its name (order matters), succeeds or fails by a fresh Bool"""
    def h(ctx):
        st = ctx.st
        n = sum(1 for e in st.log if e[0] == 'eff' and e[1] == name)
        okv = z3.Bool(f'{name}_ok_{n}')
        st.log.append(('eff', name, okv if (can_fail and kind != 'plain') else z3.BoolVal(True)))
        if kind == 'plain':
            alts = [(None, (lambda s2: okval(ctx, s2)))]
        elif kind == 'Option':
            alts = [(okv, (lambda s2: some(okval(ctx, s2)))), (z3.Not(okv), none())]
        elif can_fail:
            alts = [(okv, (lambda s2: ok(okval(ctx, s2)))), (z3.Not(okv), (lambda s2: err(Obj('eyre::Report', kind='error'))))]
        else:
            alts = [(None, (lambda s2: ok(okval(ctx, s2))))]
        if is_async:
            return [(None, M.thunk_future(lambda ex, s2, fut: alts))]
        return alts
    return h


def app_hooks():
    R = re.compile
    vec = lambda ty: (lambda ctx, s: M.new_vec(ty, []))

    def h_expanded(ctx, s):
        o = Obj('ExpandedBlockData')
        return o

    def h_commit(ctx):
        ctx.st.log.append(('eff', 'generate_commitments', z3.BoolVal(True)))
        return [(None, B.struct(ctx.ex, 'GeneratedCommitments', rollup_datas_root=z3.BitVec('expected_datas_root', 256), rollup_ids_root=z3.BitVec('expected_ids_root', 256)))]
    return [
        (R(r'(^|::)App::update_state_for_new_round$'), eff('reset', False, kind='plain')),
        (R(r'(^|::)App::uses_data_item_enum$'), lambda ctx: [(None, z3.Bool('uses_data_item_enum'))]),
        (R(r'(^|::)App::vote_extensions_enabled$'), eff('vote_extensions_enabled', True, lambda c, s: z3.Bool('vote_extensions_enabled'))),
        (R(r'ExpandedBlockData::new_from_(typed|untyped)_data$'), eff('parse_block_data', False, h_expanded)),
        (R(r'StateRead>::object_get::<Vec<ExecutedTransaction>>$'), eff('read_cached_executed_txs', False, vec('Vec<ExecutedTransaction>'), kind='Option')),
        (R(r'ProposalHandler::validate_proposal(::<.*>)?$'), eff('validate_extended_commit', True)),
        (R(r'(^|::)App::pre_execute_transactions$'), eff('pre_execute', True, vec('Vec<ChangeHash>'))),
        (R(r'^(app::)?ensure_upgrade_change_hashes_as_expected$'), eff('check_upgrade_hashes', False)),
        (R(r'^(app::)?construct_checked_txs(::<.*>)?$'), eff('construct_checked_txs', True, vec('Vec<Arc<CheckedTransaction>>'))),
        (R(r'(^|::)App::process_proposal_tx_execution$'), eff('execute_txs', True, vec('Vec<ExecutedTransaction>'))),
        (R(r'(^|::)App::execute_transaction$'), eff('execute_txs', True, vec('Vec<Event>'))),
        (R(r'(^|::)App::post_execute_transactions$'), eff('post_execute', True, lambda c, s: Obj('SequencerBlock', kind='opaque'))),
        (R(r'^(proposal::commitment::)?generate_rollup_datas_commitment::<.*>$'), h_commit),
        (R(r'get_cached_block_deposits$'), lambda ctx: [(None, M.new_map('HashMap<RollupId, Vec<Deposit>>', []))]),
        (R(r'(^|::)Metrics::\w+$'), lambda ctx: [(None, ())]), (R(r'EventBus::\w+$'), lambda ctx: [(None, ())]),
        (R(r'ExtendedCommitInfoWithProof::\w+$'), lambda ctx: [(None, B.cell(Obj('ExtendedCommitInfoWithCurrencyPairMapping', kind='opaque')))]),
        (R(r'^<tendermint::abci::request::(ProcessProposal|FinalizeBlock) as Clone>::clone$'), lambda ctx: [(None, ctx.ex.copy_val(ctx.ex.deref_val(ctx.st, ctx.args[0])))]),
        (R(r'(^|::)Height::value$'), lambda ctx: [(None, ctx.ex.deref_val(ctx.st, ctx.args[0]))]),
        (R(r'^(telemetry::display::)?base64|account::Id::as_bytes$'), lambda ctx: [(None, Obj('b64'))]),
        (R(r'BlockSizeConstraints::new_unlimited_cometbft$'), lambda ctx: [(None, Obj('BlockSizeConstraints', kind='opaque'))]),
    ]


EXEC_STEPS = ('validate_extended_commit', 'pre_execute', 'check_upgrade_hashes', 'construct_checked_txs', 'execute_txs', 'generate_commitments')


@obligation('C05', 'C05-2 process_proposal: either the cached execution of the identical prepared proposal is reused, or the app state is reset to the committed snapshot BEFORE anything of the block is executed')
def c05_2(run):
    ex = loader.load(['astria-sequencer'], scalar_types=SCALARS, dep_adts=['tendermint'], hooks=app_hooks())
    cands = [n for n in ex.fns if n.endswith('::process_proposal') and 'closure' not in n and ex.impl_self(n) == (None, 'App')]
    if len(cands) != 1:
        raise Inconclusive(f'App::process_proposal not found: {cands}')
    run.bound(states='all 6 ExecutionState variants with symbolic payloads', request='all 7 fingerprint fields symbolic', steps='every step of block handling is an oracle that succeeds or fails; only their ORDER and the skip decision are decided here')
    run.assume('update_state_for_new_round, pre_execute_transactions, process_proposal_tx_execution, post_execute_transactions etc. are effect oracles; the state machine (execution_state.rs) is executed from MIR')
    n_skip = n_exec = 0
    for state in STATES:
        m, cvals, _ = machine(ex, state)
        rvals = {}
        for name, ty in FIELDS:
            b = ex.scalar_bits(ty)
            rvals[name] = z3.BitVec(f'req_{name}', b) if b else opaque(ty, f'req_{name}')
        if isinstance(rvals['proposed_last_commit'], Obj):
            rvals['proposed_last_commit'].ty = 'std::option::Option<tendermint::abci::types::CommitInfo>'
        req = B.struct(ex, 'tendermint::abci::request::ProcessProposal', **rvals)
        app = B.struct(ex, 'app::App', execution_state=m)
        st = ex.start(cands[0], [B.cell(app), req, Obj('Storage', kind='opaque')])
        same = proposals_equal(cvals, rvals)
        for i, p in enumerate(run.explore(ex, st, poll=True, allow_havoc=DEFAULT_CTORS + (r'^Arguments::|fmt::', r'SequencerBlock'))):
            lab = f'[{state}, path {i}]'
            if p.kind != 'return':
                run.prove(f'no panic {lab}', p.pc, z3.BoolVal(False), detail=p.info); continue
            kind, r = A.poll_result(p)
            effs = [(e[1], e[2]) for e in p.log if e[0] == 'eff']
            names = [n for n, _ in effs]
            run.sample({'pre': state, 'path': i, 'result': kind, 'effects': names})
            execd = [j for j, n in enumerate(names) if n in EXEC_STEPS]
            resets = [j for j, n in enumerate(names) if n == 'reset']
            cache = [j for j, n in enumerate(names) if n == 'read_cached_executed_txs']
            may_skip = z3.And(z3.BoolVal(state in ('Prepared', 'PreparedValid')), same)
            claim = []
            if execd:
                n_exec += 1
                claim += [z3.BoolVal(len(resets) >= 1 and resets[-1] < execd[0] and not cache), z3.Not(may_skip)]
            if cache:
                n_skip += 1
                claim += [z3.BoolVal(not resets and not execd), may_skip]
            if resets and not execd:
                claim.append(z3.BoolVal(not cache))
            if 'post_execute' in names:
                pj = names.index('post_execute')
                prior_ok = z3.And(*[o for n, o in effs[:pj]])
                claim += [prior_ok, z3.BoolVal(bool(cache) or all(s in names[:pj] for s in ('pre_execute', 'check_upgrade_hashes', 'construct_checked_txs', 'execute_txs', 'generate_commitments')))]
            if kind == 'Ok':
                claim += [z3.BoolVal('post_execute' in names), z3.And(*[o for _, o in effs])]
            run.prove(f'skip only for the identical prepared proposal (cached results, no reset, nothing executed); otherwise the state is reset before (and never after) the first execution step; post-execution only after every step succeeded {lab}',
                      p.pc, z3.And(*claim) if claim else z3.BoolVal(True))
    if not n_skip or not n_exec:
        raise Inconclusive(f'vacuity: skip paths {n_skip}, executing paths {n_exec}')
    run.require_reached(*run.cur.reach)


# ----------------------------------------------------------------------------------------------------------------- C05-3
def finalize_hooks(ntx):
    R = re.compile

    def h_post_result(ctx, s):
        o = B.struct(ctx.ex, 'PostTransactionExecutionResult', events=M.new_vec('Vec<Event>', []), tx_results=M.new_vec('Vec<(TransactionId, ExecTxResult)>', []),
                     validator_updates=M.new_vec('Vec<ValidatorUpdate>', []), consensus_param_updates=none(), injected_tx_count=z3.BitVec('injected_tx_count', 64))
        return o

    def h_txs(ctx, s):
        return M.new_vec('Vec<Arc<CheckedTransaction>>', [Obj('Arc<CheckedTransaction>', kind='arc') for _ in range(ntx)])

    def h_exec(ctx):
        st = ctx.st
        n = sum(1 for e in st.log if e[0] == 'eff' and e[1] == 'execute_txs')
        okv, nonfatal = z3.Bool(f'execute_tx_ok_{n}'), z3.Bool(f'execute_tx_nonfatal_{n}')
        st.log.append(('eff', 'execute_txs', z3.BoolVal(True)))

        def mk_err(s2):
            e = Obj('checked_transaction::CheckedTransactionExecutionError')
            a = ctx.ex.adts.lookup('CheckedTransactionExecutionError'); ca = [i for i, v in enumerate(a['variants']) if v['name'] == 'CheckedAction'][0]
            other = [i for i, v in enumerate(a['variants']) if v['name'] != 'CheckedAction'][0]
            inner = Obj('checked_actions::CheckedActionExecutionError')
            b = ctx.ex.adts.lookup('CheckedActionExecutionError'); nf = [i for i, v in enumerate(b['variants']) if v['name'] == 'NonFatalExecution'][0]
            oth2 = [i for i, v in enumerate(b['variants']) if v['name'] != 'NonFatalExecution'][0]
            inner.discr = z3.If(nonfatal, z3.BitVecVal(nf, 64), z3.BitVecVal(oth2, 64))
            e.discr = z3.If(z3.Bool(f'execute_tx_error_is_action_{n}'), z3.BitVecVal(ca, 64), z3.BitVecVal(other, 64))
            e.fields[('CheckedAction', 0)] = inner
            return err(e)
        return [(None, M.thunk_future(lambda ex, s2, fut: [(okv, (lambda s3: ok(M.new_vec('Vec<Event>', [])))), (z3.Not(okv), mk_err)]))]
    def _stamp(src):
        o = Obj('Timestamp', kind='opaque'); o.attrs['src'] = src
        return o

    def h_apply_prices(ctx):
        ts = ctx.ex.deref_val(ctx.st, ctx.args[2]); hgt = ctx.ex.deref_val(ctx.st, ctx.args[3])
        ctx.st.log.append(('apply_prices_args', ts.attrs.get('src') if isinstance(ts, Obj) else ts, hgt))
        return eff('apply_prices', True)(ctx)
    empty_iter = lambda ctx: [(None, M.new_vec('Vec', []))]
    hs = [h for h in app_hooks() if 'App::execute_transaction$' not in h[0].pattern and 'construct_checked_txs' not in h[0].pattern]
    return [
        (R(r'^(app::vote_extension::)?apply_prices_from_vote_extensions(::<.*>)?$'), h_apply_prices),
        (R(r'StateReadExt>::get_block_timestamp$'), lambda ctx: [(None, M.thunk_future(lambda ex_, s2, fut: [(None, ok(z3.BitVec('timestamp_in_state', 128)))]))]),
        (R(r'(^|::)App::apply$'), eff('apply_state_delta', False, lambda c, s: M.new_vec('Vec<Event>', []), kind='plain')),
        (R(r'^(cnidarium::)?StateDelta::<.*>::new$'), lambda ctx: [(None, Obj('StateDelta', kind='opaque'))]),
        (R(r'(^|::)App::prepare_commit$'), eff('prepare_commit', True, lambda c, s: z3.BitVec('app_hash', 256))),
        (R(r'Mempool::remove_tx_invalid$'), eff('mempool_remove', True, can_fail=False, kind='plain')),
        (R(r'StateRead>::object_get::<PostTransactionExecutionResult>$'), eff('read_cached_post_result', False, lambda c, s: some(h_post_result(c, s)), kind='plain')),
        (R(r'^(app::)?construct_checked_txs(::<.*>)?$'), eff('construct_checked_txs', True, h_txs)),
        (R(r'(^|::)App::execute_transaction$'), h_exec),
        (R(r'^std::iter::repeat_n::<'), lambda ctx: [(None, _empty_iter())]),
        (R(r'^<Arc<.*> as Clone>::clone$'), lambda ctx: [(None, ctx.ex.deref_val(ctx.st, ctx.args[0]))]),
        (R(r'^Arc::<.*>::new$'), lambda ctx: [(None, Obj('Arc', kind='opaque'))]),
        (R(r'^<(tendermint::)?Time as Into<.*Timestamp>>::into$'), lambda ctx: [(None, _stamp(ctx.ex.deref_val(ctx.st, ctx.args[0])))]),
        (R(r'AbciErrorCode::value$'), lambda ctx: [(None, z3.BitVecVal(1, 32))]),
        (R(r'^<tendermint::abci::types::ExecTxResult as (std::default::)?Default>::default$'), lambda ctx: [(None, Obj('tendermint::abci::types::ExecTxResult', kind='opaque'))]),
        (R(r'ErrReport>::new::<|ErrReport>::wrap_err::<|^<ErrReport as ToString>::to_string$|^<str as ToString>::to_string$|^<(std::string::)?String as Clone>::clone$'), lambda ctx: [(None, Obj('s', kind='opaque'))]),
        (R(r'RemovalReason::FailedExecution$'), lambda ctx: [(None, Obj('RemovalReason', kind='opaque'))]),
        (R(r'^(bytes::)?Bytes::len$'), lambda ctx: [(None, z3.BitVec('encoded_len', 64))]),
    ] + hs


def _empty_iter():
    it = Obj('Iter', kind='iter'); it.attrs['src'] = M.new_vec('Vec', []); it.attrs['pos'] = 0; it.attrs['mode'] = 'val'
    return it


@obligation('C05', 'C05-3 finalize_block: cached results only for the block hash that was executed; otherwise one reset before execution; oracle prices are applied at the same point relative to block execution on every path')
def c05_3(run):
    sc = {k: v for k, v in SCALARS.items() if k != 'tendermint::Hash'}
    n_skip = n_exec = 0
    run.bound(states='all 6 ExecutionState variants with symbolic payloads', block='0 or 1 user transaction, with / without extended commit info, block hash Sha256(any) or empty',
              steps='every step is an oracle that may fail; their ORDER and the skip decision are decided')
    run.assume('on the skip path the block was executed by the earlier ProcessProposal/PrepareProposal call (that is what ExecutedBlock with this hash means), i.e. BEFORE anything finalize_block does')
    run.assume('the post-execution result object is present in the ephemeral store whenever finalize_block reads it (post_execute_transactions stores it; the `expect` on it is not explored)')
    for ntx in (0, 1):
        ex = loader.load(['astria-sequencer'], scalar_types=sc, dep_adts=['tendermint'], hooks=finalize_hooks(ntx))
        cands = [n for n in ex.fns if n.endswith('::finalize_block') and 'closure' not in n and ex.impl_self(n) == (None, 'App')]
        if len(cands) != 1:
            raise Inconclusive(f'App::finalize_block not found: {cands}')
        for state in STATES:
            m, cvals, ch = machine(ex, state)
            bh = z3.BitVec('block_hash', 256)
            hsh = Obj('tendermint::Hash'); a = ex.adts.lookup('tendermint::Hash')
            sha = [i for i, v in enumerate(a['variants']) if v['name'] == 'Sha256'][0]; non = [i for i, v in enumerate(a['variants']) if v['name'] != 'Sha256'][0]
            hsh.discr = z3.If(z3.Bool('block_hash_present'), z3.BitVecVal(sha, 64), z3.BitVecVal(non, 64)); hsh.fields[('Sha256', 0)] = bh
            req = B.struct(ex, 'tendermint::abci::request::FinalizeBlock', hash=hsh, height=z3.BitVec('height', 64), time=z3.BitVec('finalized_block_time', 128))
            app = B.struct(ex, 'app::App', execution_state=m)
            st = ex.start(cands[0], [B.cell(app), req, Obj('Storage', kind='opaque')])
            for i, p in enumerate(run.explore(ex, st, poll=True, allow_havoc=DEFAULT_CTORS + (r'^Arguments::|fmt::', r'ExecTxResult', r'FinalizeBlock'))):
                lab = f'[{state}, {ntx} txs, path {i}]'
                if p.kind != 'return':
                    # the documented expect(): the cached post-execution result must exist
                    run.prove(f'no panic {lab}', p.pc, z3.BoolVal(False), detail=p.info); continue
                kind, r = A.poll_result(p)
                effs = [(e[1], e[2]) for e in p.log if e[0] == 'eff']
                names = [n for n, _ in effs]
                for e in p.log:
                    if e[0] == 'apply_prices_args':
                        run.prove(f'oracle prices are stamped with the time and height of the block being finalized, on every path {lab}', p.pc,
                                  z3.And(e[1] == z3.BitVec('finalized_block_time', 128) if z3.is_expr(e[1]) else z3.BoolVal(False), e[2] == z3.BitVec('height', 64) if z3.is_expr(e[2]) else z3.BoolVal(False)))
                run.sample({'pre': state, 'txs': ntx, 'path': i, 'result': kind, 'effects': names})
                execd = [j for j, n in enumerate(names) if n in ('pre_execute', 'check_upgrade_hashes', 'construct_checked_txs', 'execute_txs', 'post_execute')]
                resets = [j for j, n in enumerate(names) if n == 'reset']
                prices = [j for j, n in enumerate(names) if n == 'apply_prices']
                may_skip = z3.And(z3.BoolVal(state == 'ExecutedBlock'), bh == ch)
                claim = []
                if execd:
                    n_exec += 1
                    claim += [z3.BoolVal(len(resets) >= 1 and resets[-1] < execd[0]), z3.Not(may_skip)]
                    if prices:
                        claim.append(z3.BoolVal(resets[0] < prices[0]))
                elif 'read_cached_post_result' in names:
                    n_skip += 1
                    claim += [z3.BoolVal(not resets), may_skip]
                if 'prepare_commit' in names:
                    pj = names.index('prepare_commit')
                    claim.append(z3.And(*[o for n, o in effs[:pj] if n != 'execute_txs']))
                    claim.append(z3.BoolVal('read_cached_post_result' in names[:pj]))
                    claim.append(z3.BoolVal((not execd) or 'post_execute' in names[:pj]))
                run.prove(f'skip only for the executed block hash; otherwise the state is reset before (and never after) prices / execution; commit prepared only after every step succeeded {lab}', p.pc, z3.And(*claim) if claim else z3.BoolVal(True))
                # relative order of the oracle price application and the block's execution: must not depend on the path
                if prices:
                    if execd:
                        order = z3.BoolVal(prices[0] < execd[0])          # prices first, then the block
                    else:
                        order = z3.BoolVal(False)                          # block executed in the earlier call, prices only now
                    run.prove(f'oracle prices are applied BEFORE the block\'s transactions execute (the order used when the block is executed inside finalize_block) {lab}', p.pc, order,
                              classify=lambda model: 'prices-applied-after-cached-execution', replay=replay_f9)
    if not n_skip or not n_exec:
        raise Inconclusive(f'vacuity: skip paths {n_skip}, executing paths {n_exec}')
    run.require_reached(*run.cur.reach)


def replay_f9(model, path):
    """native demonstration: two identically initialised Apps, one block carrying an oracle price for ETH/USD and a sudo removal of ETH/USD;
    node A: ProcessProposal then FinalizeBlock (cached execution), node B: FinalizeBlock only"""
    from vlib import replay
    code = open('/verif/replay_templates/c05_prices.rs').read()
    r = replay.run_crate_test('astria-sequencer', 'crates/astria-sequencer/src/app/tests_app/mod.rs', code, 'verif_replay_c05')
    if not r['lines']:
        return {'mode': 'native-crate-test', 'reproduced': None, 'error': r['output'][-1500:]}
    o = r['lines'][-1]
    differ = (o['a_finalize'] == 'ok') != (o['b_finalize'] == 'ok') or (o['a_finalize'] == 'ok' and o['a_app_hash'] != o['b_app_hash'])
    return {'mode': 'native-crate-test', 'scenario': 'block with an oracle price for ETH/USD and a CurrencyPairsChange::Removal(ETH/USD); validator path vs sync path', 'observed': o,
            'reproduced': o['a_process'] == 'ok' and differ}


@obligation('C05', 'C05-3n native demonstration of the recorded finding F9 (informational: records whether it still reproduces; never fails the check)', tiers=('thorough',))
def c05_3n(run):
    run.bound(scenario='one concrete block, two Apps (validator path / sync path)')
    v = replay_f9(None, None)
    run.sample({'native_demonstration': v})
    run.cur.paths += 1
    run.reached('native demonstration executed')
    if v.get('reproduced') is None:
        run.cur.notes.append('native demonstration of F9 could not be run: ' + str(v.get('error'))[-300:])


# ----------------------------------------------------------------------------------------------------------------- C06-3 (registered under C06)
def c06_3(run):
    """process_proposal accepts an executed block only if both commitments carried in the block equal the ones regenerated from the executed transactions and deposits"""
    expanded = {}

    def h_expanded(ctx, s):
        o = Obj('ExpandedBlockData'); o.attrs['tag'] = 'expanded'
        s.log.append(('expanded', o))
        return o
    hooks = [h for h in app_hooks() if 'ExpandedBlockData::new_from' not in h[0].pattern]
    hooks.insert(0, (re.compile(r'ExpandedBlockData::new_from_(typed|untyped)_data$'), eff('parse_block_data', False, h_expanded)))
    ex = loader.load(['astria-sequencer', 'astria-core'], scalar_types=SCALARS, dep_adts=['tendermint'], hooks=hooks)
    cands = [n for n in ex.fns if n.endswith('::process_proposal') and 'closure' not in n and ex.impl_self(n) == (None, 'App')]
    if len(cands) != 1:
        raise Inconclusive(f'App::process_proposal not found: {cands}')
    run.bound(state='execution-state machine Unset (the block is executed by this call)', steps='every step an oracle; generate_rollup_datas_commitment returns arbitrary roots (decided under C07-1)')
    m, cvals, _ = machine(ex, 'Unset')
    rvals = {}
    for name, ty in FIELDS:
        b = ex.scalar_bits(ty)
        rvals[name] = z3.BitVec(f'req_{name}', b) if b else opaque(ty, f'req_{name}')
    if isinstance(rvals['proposed_last_commit'], Obj):
        rvals['proposed_last_commit'].ty = 'std::option::Option<tendermint::abci::types::CommitInfo>'
    req = B.struct(ex, 'tendermint::abci::request::ProcessProposal', **rvals)
    app = B.struct(ex, 'app::App', execution_state=m)
    st = ex.start(cands[0], [B.cell(app), req, Obj('Storage', kind='opaque')])
    n_ok = 0
    for i, p in enumerate(run.explore(ex, st, poll=True, allow_havoc=DEFAULT_CTORS + (r'^Arguments::|fmt::', r'SequencerBlock'))):
        if p.kind != 'return':
            run.prove(f'no panic [path {i}]', p.pc, z3.BoolVal(False), detail=p.info); continue
        kind, r = A.poll_result(p)
        names = [e[1] for e in p.log if e[0] == 'eff']
        run.sample({'path': i, 'result': kind, 'effects': names})
        if kind != 'Ok':
            continue
        n_ok += 1
        objs = [e[1] for e in p.log if e[0] == 'expanded']
        if not objs:
            run.prove(f'accepted block went through parsing [path {i}]', p.pc, z3.BoolVal(False)); continue
        eb = objs[0]
        run.prove(f'accepted => the commitments carried in the block equal the regenerated ones (rollup data root and rollup ids root), after all transactions executed [path {i}]', p.pc,
                  z3.And(B.fld(ex, p, eb, 'rollup_transactions_root', '[u8; 32]') == z3.BitVec('expected_datas_root', 256), B.fld(ex, p, eb, 'rollup_ids_root', '[u8; 32]') == z3.BitVec('expected_ids_root', 256),
                         z3.BoolVal('generate_commitments' in names and 'execute_txs' in names and names.index('execute_txs') < names.index('generate_commitments'))))
    if not n_ok:
        raise Inconclusive('vacuity: no accepting path')
    run.require_reached(*run.cur.reach)


def _all_objs(p):
    seen = set(); out = []
    def walk(v):
        if isinstance(v, Obj):
            if id(v) in seen: return
            seen.add(id(v)); out.append(v)
            for x in v.fields.values(): walk(x)
            for x in v.attrs.values():
                if isinstance(x, (Obj, list, tuple)): walk(x)
        elif isinstance(v, (list, tuple)):
            for x in v: walk(x)
        elif isinstance(v, Ref):
            loc = v.loc
            if loc and loc[0] == 'field': walk(loc[1])
    for fr in p.frames:
        for v in fr.locals.values(): walk(v)
    for e in p.log:
        walk(e)
    walk(p.result)
    for r in (p.roots or {}).values():
        walk(r)
    return out


# ----------------------------------------------------------------------------------------------------------------- C05-1c
@obligation('C05', 'C05-1c set_prepared_proposal: only from Unset; the fingerprint stores the request fields, the RESPONSE txs and the local last commit reduced to (round, validator, block-id flag) per vote')
def c05_1c(run):
    ex = engine()
    f = ex.find(r'execution_state.*::set_prepared_proposal$')
    run.bound(states='all 6 ExecutionState variants', request='all fields symbolic; local_last_commit None or Some with 0..2 votes')
    n_ok = 0
    for state in STATES:
        for nv in (None, 0, 1, 2):
            m, cvals, _ = machine(ex, state)
            rv = {}
            for name, ty in FIELDS:
                if name in ('txs', 'proposed_last_commit'):
                    continue
                b = ex.scalar_bits(ty)
                rv[name] = z3.BitVec(f'req_{name}', b) if b else opaque(ty, f'req_{name}')
            if nv is None:
                llc = none(); votes = []
            else:
                votes = []
                for j in range(nv):
                    val = opaque('tendermint::abci::types::Validator', f'vote{j}_validator'); sig = opaque('tendermint::abci::types::BlockSignatureInfo', f'vote{j}_sig_info')
                    votes.append((B.struct(ex, 'tendermint::abci::types::ExtendedVoteInfo', validator=val, sig_info=sig), val, sig))
                llc = some(B.struct(ex, 'tendermint::abci::types::ExtendedCommitInfo', round=z3.BitVec('llc_round', 32), votes=M.new_vec('Vec<ExtendedVoteInfo>', [v[0] for v in votes])))
            req = B.struct(ex, 'tendermint::abci::request::PrepareProposal', local_last_commit=llc, **rv)
            resp_txs = opaque('Vec<Bytes>', 'response_txs')
            resp = B.struct(ex, 'tendermint::abci::response::PrepareProposal', txs=resp_txs)
            for i, p in enumerate(run.explore(ex, ex.start(f, [B.cell(m), req, resp]), allow_havoc=DEFAULT_CTORS + (r'^Arguments::|fmt::',))):
                lab = f'[{state}, last commit {nv}, path {i}]'
                if p.kind != 'return':
                    run.prove(f'no panic {lab}', p.pc, z3.BoolVal(False), detail=p.info); continue
                post = post_state(ex, p); okk = p.result.discr == 'Ok'
                run.sample({'pre': state, 'votes': nv, 'result': p.result.discr, 'post': str(post.discr)})
                run.prove(f'Ok only from Unset {lab}', p.pc, z3.BoolVal(okk == (state == 'Unset')))
                if not okk:
                    run.prove(f'unchanged on Err {lab}', p.pc, z3.BoolVal(post.discr == state)); continue
                n_ok += 1
                stored = ex.deref_val(p, post.fields[('Prepared', 0)]) if post.discr == 'Prepared' else None
                claim = [z3.BoolVal(post.discr == 'Prepared' and stored is not None)]
                if stored is not None:
                    for name, ty in FIELDS:
                        if name in ('txs', 'proposed_last_commit'):
                            continue
                        claim.append(feq(B.fld(ex, p, stored, name, ty), rv[name]))
                    claim.append(M.ident(ex.deref_val(p, B.fld(ex, p, stored, 'txs', 'Vec<Bytes>'))) == M.ident(resp_txs))
                    plc = ex.deref_val(p, B.fld(ex, p, stored, 'proposed_last_commit', 'Option<CommitInfo>'))
                    if nv is None:
                        claim.append(z3.BoolVal(plc.discr == 'None'))
                    else:
                        claim.append(z3.BoolVal(plc.discr == 'Some'))
                        if plc.discr == 'Some':
                            ci = ex.deref_val(p, plc.fields[('Some', 0)])
                            claim.append(B.fld(ex, p, ci, 'round', 'Round') == z3.BitVec('llc_round', 32))
                            vs = ex.deref_val(p, B.fld(ex, p, ci, 'votes', 'Vec<VoteInfo>')).attrs['items']
                            claim.append(z3.BoolVal(len(vs) == nv))
                            for (ev, val, sig), v in zip(votes, vs):
                                v = ex.deref_val(p, v)
                                claim += [M.ident(ex.deref_val(p, B.fld(ex, p, v, 'validator', 'Validator'))) == M.ident(val), M.ident(ex.deref_val(p, B.fld(ex, p, v, 'sig_info', 'BlockSignatureInfo'))) == M.ident(sig)]
                run.prove(f'the fingerprint is built from exactly the request fields, the response txs and the reduced last commit {lab}', p.pc, z3.And(*claim))
    if not n_ok:
        raise Inconclusive('vacuity')
    run.require_reached(*run.cur.reach)


# ----------------------------------------------------------------------------------------------------------------- C05-4
@obligation('C05', 'C05-4 update_state_for_new_round: the working state becomes a fresh delta on the latest COMMITTED snapshot and the execution-state machine is reset to Unset, whatever they were before')
def c05_4(run):
    def h_snapshot(ctx):
        s = Obj('Snapshot', kind='opaque'); s.attrs['ident'] = 'latest_committed_snapshot'
        ctx.st.log.append(('latest_snapshot',))
        return [(None, s)]

    def h_delta(ctx):
        d = Obj('StateDelta', kind='opaque'); d.attrs['on'] = ctx.ex.deref_val(ctx.st, ctx.args[0])
        return [(None, d)]
    hooks = [(re.compile(r'Storage::latest_snapshot$'), h_snapshot), (re.compile(r'^(cnidarium::)?StateDelta::<.*>::new$'), h_delta)]
    ex = loader.load(['astria-sequencer'], scalar_types=SCALARS, dep_adts=['tendermint'], hooks=hooks)
    cands = [n for n in ex.fns if n.endswith('::update_state_for_new_round') and 'closure' not in n and ex.impl_self(n) == (None, 'App')]
    if len(cands) != 1:
        raise Inconclusive(f'App::update_state_for_new_round not found: {cands}')
    run.bound(pre_states='all 6 ExecutionState variants with symbolic payloads; arbitrary previous working state')
    n = 0
    for state in STATES:
        m, _, _ = machine(ex, state)
        old = Obj('Arc<StateDelta<Snapshot>>', kind='arc'); old.attrs['ident'] = 'previous_working_state'
        app = B.struct(ex, 'app::App', execution_state=m, state=old)
        for i, p in enumerate(run.explore(ex, ex.start(cands[0], [B.cell(app), B.cell(Obj('Storage', kind='opaque'))]), allow_havoc=DEFAULT_CTORS)):
            lab = f'[{state}, path {i}]'
            if p.kind != 'return':
                run.prove(f'no panic {lab}', p.pc, z3.BoolVal(False), detail=p.info); continue
            n += 1
            post = ex.read(p, p.roots['args'][0].loc)
            stv = ex.deref_val(p, B.fld(ex, p, post, 'state'))
            inner = ex.deref_val(p, stv.fields.get(('in', 0))) if isinstance(stv, Obj) and stv.kind == 'arc' else stv
            on = inner.attrs.get('on') if isinstance(inner, Obj) else None
            es = post_state(ex, p) if False else ex.deref_val(p, ex.deref_val(p, B.fld(ex, p, post, 'execution_state')).fields[(None, 0)])
            run.prove(f'working state = fresh delta on the latest committed snapshot; machine = Unset {lab}', p.pc,
                      z3.BoolVal(isinstance(on, Obj) and on.attrs.get('ident') == 'latest_committed_snapshot' and stv.attrs.get('ident') != 'previous_working_state' and es.discr == 'Unset'))
    if n < len(STATES):
        raise Inconclusive('vacuity')
    run.require_reached(*run.cur.reach)
