"""C01 — Ledger conservation: value only moves; fees exact and fully routed (astria-sequencer MIR over the chain-state model)."""
import re
import z3
from vlib.oblig import obligation, mval
from vlib import loader, build as B, actions as A
from vlib.actions import unchanged, poll_result
from vlib.seqworld import World, initial_world, SCALARS, CELLS
from mirsym.engine import Obj, Ref, Inconclusive
from mirsym import models as M

COMMON_ASSUME = ['state reads succeed (no storage I/O or decode errors); storage keys are injective; StoredValue (de)serialisation is the identity',
                 'awaited sub-futures complete (Pending is never returned); tracing is disabled',
                 'an asset is identified by its 256-bit IBC-prefixed id; to_ibc_prefixed / Into<Cow<IbcPrefixed>> are functions of the denom']


def engine():
    return A.engine()


def bal_key(a, s):
    return z3.Concat(a, s)


def balance_writes(p):
    return [e for e in p.log if e[0] == 'write' and e[1] == 'balance']


def pair_claim(w0, p, frm, to, asset, amt):
    """Ok-path conservation: exactly one debit of (frm, asset) and one credit of (to, asset) by amt, no wrap"""
    b0 = w0['balance']; k1, k2 = bal_key(frm, asset), bal_key(to, asset)
    mid = z3.Store(b0, k1, z3.Select(b0, k1) - amt)
    post = z3.Store(mid, k2, z3.Select(mid, k2) + amt)
    return z3.And(p.world['balance'] == post, z3.UGE(z3.Select(b0, k1), amt), z3.BVAddNoOverflow(z3.Select(mid, k2), amt, False)), mid


@obligation('C01', 'C01-4a Transfer::execute moves exactly `amount` of one asset from signer to recipient')
def c01_transfer(run):
    ex, W = engine()
    for a_ in COMMON_ASSUME:
        run.assume(a_)
    f = ex.find(r'checked_actions::transfer::<impl at [^>]*>::execute$')
    run.bound(state='arbitrary symbolic chain state (SMT arrays)', action='arbitrary Transfer (amount full u128, arbitrary addresses/assets, aliasing allowed)', unroll='loop-free')
    run.assume('state reads succeed (no storage I/O or decode errors); storage keys are injective; StoredValue (de)serialisation is the identity')
    run.assume('awaited sub-futures complete (Pending is never returned); tracing is disabled')
    w0 = initial_world()
    selfobj = Obj('CheckedTransfer'); state = Obj('S', kind='cell')
    st = ex.start(f, [B.cell(selfobj), state], world=dict(w0))
    paths = run.explore(ex, st, poll=True)
    for i, p in enumerate(paths):
        if p.kind != 'return':
            run.prove(f'no panic [path {i}]', p.pc, z3.BoolVal(False), detail=p.info); continue
        kind, res = poll_result(p)
        me = ex.read(p, p.roots['args'][0].loc)
        action = B.fld(ex, p, me, 'action', 'Transfer')
        signer = W.addr(p, B.fld(ex, p, me, 'tx_signer', 'TransactionSignerAddressBytes'))
        to = W.addr(p, B.fld(ex, p, action, 'to', 'Address'))
        asset = W.asset(p, B.fld(ex, p, action, 'asset', 'Denom'))
        amt = B.fld(ex, p, action, 'amount', 'u128')
        b0 = w0['balance']; k1, k2 = bal_key(signer, asset), bal_key(to, asset)
        mid = z3.Store(b0, k1, z3.Select(b0, k1) - amt)
        post = z3.Store(mid, k2, z3.Select(mid, k2) + amt)
        writes = [e for e in p.log if e[0] == 'write']
        run.sample({'path': i, 'result': kind, 'writes': [(e[1]) for e in writes], 'pc': [str(z3.simplify(c))[:100] for c in p.pc][:6]})
        if kind == 'Ok':
            run.prove(f'Ok => debit signer, credit recipient, same asset, same amount, no wrap [path {i}]', p.pc,
                      z3.And(p.world['balance'] == post, z3.UGE(z3.Select(b0, k1), amt), z3.BVAddNoOverflow(z3.Select(mid, k2), amt, False)))
            run.prove(f'Ok => signer is not a bridge account [path {i}]', p.pc, z3.Not(z3.Select(w0['bridge_rollup?'], signer)))
            run.prove(f'Ok => nothing else written [path {i}]', p.pc, unchanged(w0, p.world, except_=('balance',)))
        # Err paths: the error propagates and the transaction's delta is dropped (C03-2), so partial writes are not observable -> nothing is claimed
    run.require_reached(*run.cur.reach)
    if not any(k.startswith('Ok =>') for k in run.cur.reach):
        raise Inconclusive('vacuity: no Ok path')


def value_action(name, fields):
    """fields(ex, W, p, me) -> (from, to, asset, amount)"""
    def ob(run):
        ex, W = engine()
        for a_ in COMMON_ASSUME:
            run.assume(a_)
        run.bound(state='arbitrary symbolic chain state', action=f'arbitrary {name} (amount full u128; addresses/assets symbolic, aliasing allowed)', unroll='loop-free')
        w0, res = A.run_action(run, ex, W, name)
        n_ok = 0
        for i, (p, kind, r, me) in enumerate(res):
            if kind == 'panic':
                run.prove(f'no panic [path {i}]', p.pc, z3.BoolVal(False), detail=p.info); continue
            frm, to, asset, amt = fields(ex, W, p, me)
            claim, mid = pair_claim(w0, p, frm, to, asset, amt)
            run.sample({'action': name, 'path': i, 'result': kind, 'balance_writes': len(balance_writes(p))})
            if kind == 'Ok':
                n_ok += 1
                run.prove(f'Ok => one debit and one credit of the same asset and amount, no wrap [path {i}]', p.pc, claim)
            # Err paths propagate and are rolled back with the transaction's delta (C03-2): nothing is claimed about partial writes
        if not n_ok:
            raise Inconclusive('vacuity: no Ok path')
        run.require_reached(*run.cur.reach)
    return ob


def f_lock(ex, W, p, me):
    act = B.fld(ex, p, me, 'action', 'BridgeLock')
    return (W.addr(p, B.fld(ex, p, me, 'tx_signer', 'TransactionSignerAddressBytes')), W.addr(p, B.fld(ex, p, act, 'to', 'Address')),
            W.asset(p, B.fld(ex, p, act, 'asset', 'Denom')), B.fld(ex, p, act, 'amount', 'u128'))


def f_unlock(ex, W, p, me):
    act = B.fld(ex, p, me, 'action', 'BridgeUnlock')
    return (W.addr(p, B.fld(ex, p, act, 'bridge_address', 'Address')), W.addr(p, B.fld(ex, p, act, 'to', 'Address')),
            W.asset(p, B.fld(ex, p, me, 'bridge_account_ibc_asset', 'IbcPrefixed')), B.fld(ex, p, act, 'amount', 'u128'))


def f_btransfer(ex, W, p, me):
    return f_unlock(ex, W, p, B.fld(ex, p, me, 'checked_bridge_unlock', 'CheckedBridgeUnlockImpl<false>'))


obligation('C01', 'C01-4b BridgeLock::execute conserves value')(value_action('BridgeLock', f_lock))
obligation('C01', 'C01-4c BridgeUnlock::execute conserves value')(value_action('BridgeUnlock', f_unlock))
obligation('C01', 'C01-4d BridgeTransfer::execute conserves value')(value_action('BridgeTransfer', f_btransfer))


@obligation('C01', 'C01-1 increase_balance / decrease_balance contracts')
def c01_contracts(run):
    ex, W = engine()
    for a_ in COMMON_ASSUME:
        run.assume(a_)
    run.bound(state='arbitrary symbolic balance array', args='arbitrary address, asset, amount (full u128)', unroll='loop-free')
    for which in ('increase_balance', 'decrease_balance'):
        f = ex.find(rf'^accounts::state_ext::StateWriteExt::{which}$')
        w0 = initial_world()
        addr, asset, amt = z3.BitVec('addr', 160), z3.BitVec('asset', 256), z3.BitVec('amount', 128)
        st = ex.start(f, [B.cell(Obj('S', kind='cell')), B.cell(addr), B.cell(asset), amt], world=dict(w0))
        k = bal_key(addr, asset); b0 = w0['balance']
        for i, p in enumerate(run.explore(ex, st, poll=True)):
            if p.kind != 'return':
                run.prove(f'{which} no panic [path {i}]', p.pc, z3.BoolVal(False), detail=p.info); continue
            kind, r = poll_result(p)
            run.sample({'fn': which, 'path': i, 'result': kind})
            cur = z3.Select(b0, k)
            if which == 'increase_balance':
                fits = z3.BVAddNoOverflow(cur, amt, False); new = cur + amt
            else:
                fits = z3.UGE(cur, amt); new = cur - amt
            if kind == 'Ok':
                run.prove(f'{which} Ok => exact update of exactly that cell, no wrap [path {i}]', p.pc,
                          z3.And(fits, p.world['balance'] == z3.Store(b0, k, new), unchanged(w0, p.world, except_=('balance',))))
            else:
                run.prove(f'{which} Err => the update would wrap [path {i}]', p.pc, z3.Not(fits))
    run.require_reached(*run.cur.reach)


FEE_ACTIONS = ['Transfer', 'BridgeLock', 'BridgeUnlock', 'BridgeTransfer', 'BridgeSudoChange', 'InitBridgeAccount', 'Ics20Withdrawal', 'RollupDataSubmission',
               'ValidatorUpdate', 'SudoAddressChange', 'IbcSudoChange', 'IbcRelayerChange', 'FeeAssetChange', 'FeeChange']
ACTION_PATH = 'astria_core::protocol::transaction::v1::action::'


def h_variable_component(ctx):
    """actions whose variable component is computed from payload sizes: an arbitrary u128 (the size itself is outside the claim)"""
    recv = ctx.ex.deref_val(ctx.st, ctx.args[0])
    name = recv.ty.split('::')[-1] if isinstance(recv, Obj) else '?'
    if name in ('BridgeLock', 'RollupDataSubmission', 'BridgeTransfer'):
        v = z3.BitVec('variable_component', 128)
        ctx.st.world['var_component'] = v
        return [(None, v)]
    return None


def fee_engine():
    ex, W = A.engine(extra_hooks=[(re.compile(r'as (fees::)?FeeHandler>::variable_component$'), h_variable_component)])
    return ex, W


def exact_fee(base, mult, var):
    """base + mult*var over 257-bit integers"""
    wide = z3.ZeroExt(128, var) * z3.ZeroExt(128, mult)          # 256-bit product, shared shape with the saturating_mul model
    return z3.ZeroExt(1, wide) + z3.ZeroExt(129, base)


def classify_fee(exact, result):
    def c(model):
        e = model.eval(exact, model_completion=True).as_long(); r = model.eval(result, model_completion=True).as_long()
        return 'saturation-region' if e > (1 << 128) - 1 and r == (1 << 128) - 1 else None
    return c


@obligation('C01', 'C01-2 fee = base + multiplier * variable component, for every fee-paying action kind')
def c01_fee(run):
    ex, W = fee_engine()
    for a_ in COMMON_ASSUME:
        run.assume(a_)
    run.assume('variable_component of BridgeLock/BridgeTransfer/RollupDataSubmission (payload sizes) is an arbitrary u128')
    run.bound(state='arbitrary fee schedule (base, multiplier full u128) and allowed-asset set', actions=FEE_ACTIONS, unroll='loop-free')
    f = ex.find(r'^fee$')
    MAX = z3.BitVecVal((1 << 128) - 1, 257)
    for name in FEE_ACTIONS:
        w0 = initial_world()
        act = Obj(ACTION_PATH + name)
        st = ex.start(f, [B.cell(act), B.cell(Obj('S', kind='cell'))], world=dict(w0, generic_F=name))
        paths = run.explore(ex, st, poll=True)
        tag = z3.BitVecVal(W.fee_tags[name], 8) if name in W.fee_tags else None
        for i, p in enumerate(paths):
            if p.kind != 'return':
                run.prove(f'{name}: no panic [path {i}]', p.pc, z3.BoolVal(False), detail=p.info); continue
            kind, r = poll_result(p)
            if tag is None:
                tag = z3.BitVecVal(W.fee_tags[name], 8)
            base, present, mult = z3.Select(w0['fees_base'], tag), z3.Select(w0['fees_base?'], tag), z3.Select(w0['fees_mult'], tag)
            run.prove(f'{name}: computing a fee writes nothing [path {i}]', p.pc, unchanged(w0, p.world))
            if kind == 'Err':
                # Err only if the action is disabled (fees unset) or the fee asset is not allowed
                me = ex.read(p, p.roots['args'][0].loc)
                adt = ex.adts.lookup(me.ty)
                allowed = z3.Select(w0['allowed_fee_asset'], W.asset(p, B.fld(ex, p, me, 'fee_asset', 'Denom'))) if adt and 'fee_asset' in adt.get('fields', []) else z3.BoolVal(True)
                run.prove(f'{name}: Err only when fees are unset or the asset is not allowed [path {i}]', p.pc, z3.Or(z3.Not(present), z3.Not(allowed)))
                continue
            opt = r.fields[('Ok', 0)]
            if opt.discr == 'None':
                me = ex.read(p, p.roots['args'][0].loc)
                adt = ex.adts.lookup(me.ty)
                has_fee_asset = bool(adt and 'fee_asset' in adt.get('fields', []))
                run.sample({'action': name, 'path': i, 'result': 'free (no fee asset)'}); run.reached(f'{name}: free')
                run.prove(f'{name}: no fee is charged only for an action kind that names no fee asset (never because of the schedule\'s values) [path {i}]', p.pc, z3.BoolVal(not has_fee_asset))
                continue
            tup = opt.fields[('Some', 0)]
            asset_ref, total = tup
            var = p.world.get('var_component', z3.BitVecVal(0, 128))
            exact = exact_fee(base, mult, var)
            res257 = z3.ZeroExt(129, total)
            me = ex.read(p, p.roots['args'][0].loc)
            fa = B.fld(ex, p, me, 'fee_asset', 'Denom')
            run.sample({'action': name, 'path': i, 'result': 'Some', 'total': str(z3.simplify(total))[:120]})
            run.prove(f'{name}: charged asset is the action\'s fee asset and it is allowed [path {i}]', p.pc,
                      z3.And(W.asset(p, asset_ref) == W.asset(p, fa), z3.Select(w0['allowed_fee_asset'], W.asset(p, fa)), present))
            # (a) exact everywhere -> the saturation region is the recorded finding F7; (b) exact-or-saturated -> anything else is a new violation
            symbolic_var = 'var_component' in p.world
            if symbolic_var and run.tier == 'quick' and name != 'BridgeLock':
                # `fee<F>` is one generic function: its arithmetic is decided on the BridgeLock instantiation in the quick tier, on all three in thorough
                run.note(f'{name}: arithmetic of the shared generic fee<F> decided on the BridgeLock instantiation in the quick tier'); continue
            # (a) exact everywhere -> the saturation region is the recorded finding F7; (b) exact-or-saturated -> anything else is a new violation
            run.prove(f'{name}: fee == base + multiplier*variable (exact) [path {i}]', p.pc, res257 == exact, classify=classify_fee(exact, res257), replay=replay_fee(name, base, mult, var, total))
            prod = z3.ZeroExt(128, var) * z3.ZeroExt(128, mult)
            run.prove(f'{name}: fee == base + multiplier*variable, or saturated at u128::MAX when that overflows [path {i}]', p.pc,
                      z3.Or(res257 == exact, z3.And(z3.UGT(exact, MAX), res257 == MAX)), replay=replay_fee(name, base, mult, var, total),
                      abstraction=[(prod, z3.BitVec('wide_product', 256))] if symbolic_var else None)
    run.require_reached(*run.cur.reach)


def replay_fee(name, base_e, mult_e, var_e, total_e):
    return None


def h_fee_oracle(ctx):
    """fee() replaced by its contract (decided in C01-2): Err | Ok(None) | Ok(Some((&action.fee_asset, total))) with an arbitrary total"""
    ex, st = ctx.ex, ctx.st
    act = ex.deref_val(st, ctx.args[0])
    adt = ex.adts.lookup(act.ty)
    total = z3.BitVec('total_fee', 128); e_, n_ = z3.Bool('fee_err'), z3.Bool('fee_none')
    st.world['fee_total'] = total
    has_asset = adt and 'fee_asset' in adt.get('fields', [])

    def alts(ex, s2, fut):
        a2 = s2.tr(act)
        out = [(e_, M.err(Obj('CheckedActionFeeError', kind='error')))]
        if has_asset:
            ref = Ref(('field', a2, (None, adt['fields'].index('fee_asset'), 'Denom')))
            ex.read(s2, ref.loc)
            out.append((z3.And(z3.Not(e_), z3.Not(n_)), M.ok(M.some((ref, total)))))
            out.append((z3.And(z3.Not(e_), n_), M.ok(M.none())))
        else:
            out.append((z3.Not(e_), M.ok(M.none())))
        return out
    return [(None, M.thunk_future(alts))]


@obligation('C01', 'C01-3 pay_fee debits the signer only and routes the same amount to the block fees')
def c01_pay_fee(run):
    ex, W = A.engine(extra_hooks=[(re.compile(r'^fee(::<.*>)?$'), h_fee_oracle)])
    run.assume('fee() is replaced by its contract (decided separately in C01-2): it returns Err, Ok(None), or Ok(Some((the action\'s fee asset, an arbitrary total)))')
    for a_ in COMMON_ASSUME:
        run.assume(a_)
    run.bound(state='arbitrary symbolic chain state', actions=['Transfer', 'BridgeLock', 'ValidatorUpdate'], signer='arbitrary [u8;20]', unroll='loop-free')
    f = ex.find(r'^pay_fee$')
    for name in ('Transfer', 'BridgeLock', 'ValidatorUpdate'):
        w0 = initial_world()
        act = Obj(ACTION_PATH + name); signer = z3.BitVec('tx_signer', 160); pos = z3.BitVec('position', 64)
        st = ex.start(f, [B.cell(act), B.cell(signer), pos, B.cell(Obj('S', kind='cell'))], world=dict(w0, generic_F=name, block_fees=[]))
        n_ok = 0
        for i, p in enumerate(run.explore(ex, st, poll=True)):
            if p.kind != 'return':
                run.prove(f'{name}: no panic [path {i}]', p.pc, z3.BoolVal(False), detail=p.info); continue
            kind, r = poll_result(p)
            fees = p.world['block_fees']; b0 = w0['balance']
            run.sample({'action': name, 'path': i, 'result': kind, 'block_fee_entries': len(fees), 'balance_writes': len(balance_writes(p))})
            if kind == 'Ok':
                n_ok += 1
                if not fees:
                    run.prove(f'{name}: free action => nothing written [path {i}]', p.pc, unchanged(w0, p.world, except_=('fee_total',))); continue
                (asset, amount, position), = fees if len(fees) == 1 else ((None, None, None),)
                if asset is None:
                    run.prove(f'{name}: exactly one block-fee entry [path {i}]', p.pc, z3.BoolVal(False)); continue
                k = bal_key(signer, asset)
                me = ex.read(p, p.roots['args'][0].loc)
                fa = W.asset(p, B.fld(ex, p, me, 'fee_asset', 'Denom'))
                run.prove(f'{name}: Ok => signer (and only the signer) debited exactly the fee that was added to the block fees, in the fee asset [path {i}]', p.pc,
                          z3.And(asset == fa, amount == p.world['fee_total'], p.world['balance'] == z3.Store(b0, k, z3.Select(b0, k) - amount), z3.UGE(z3.Select(b0, k), amount), position == pos,
                                 unchanged(w0, p.world, except_=('balance', 'block_fees', 'fee_total'))))
            # Err paths: the error propagates and the transaction's delta is dropped (C03-2) -> nothing is claimed
        if not n_ok:
            raise Inconclusive('vacuity: no Ok path for ' + name)
    run.require_reached(*run.cur.reach)


# ----------------------------------------------------------------------------------------------------------------- C01-5
def end_block_hooks():
    def h_delta_new(ctx):
        d = Obj('StateDelta', kind='cell'); d.attrs['delta'] = True
        ctx.st.log.append(('delta_new', d.lz))
        return [(None, d)]

    def h_component_end(ctx):
        ctx.st.log.append(('component_end_block', ctx.name[:60]))
        return [(None, M.thunk_future(lambda ex, s2, fut: [(None, M.ok(()))]))]

    def h_arc_unwrap(ctx):
        a = ctx.ex.deref_val(ctx.st, ctx.args[0])
        inner = a.fields[('in', 0)] if isinstance(a, Obj) and a.kind == 'arc' else a
        return [(None, M.ok(inner))]

    def h_apply(ctx):
        v = ctx.ex.deref_val(ctx.st, ctx.args[1])
        ctx.st.log.append(('apply', getattr(v, 'lz', None), len([e for e in ctx.st.log if e[0] == 'write' and e[1] == 'balance'])))
        return [(None, M.new_vec('Vec<Event>', []))]

    def h_cometbft(ctx):
        return [(None, M.ok(M.new_vec('Vec<ValidatorUpdate>', [])))]
    return [(re.compile(r'^(cnidarium::)?StateDelta::<.*>::new$'), h_delta_new), (re.compile(r'Component as .*Component>::end_block|Component>::end_block'), h_component_end),
            (re.compile(r'^Arc::<.*>::try_unwrap$'), h_arc_unwrap), (re.compile(r'(^|::)App::apply$'), h_apply), (re.compile(r'try_into_cometbft$'), h_cometbft),
            (re.compile(r'^<Arc<.*> as Clone>::clone$'), lambda ctx: [(None, ctx.args[0])]), (re.compile(r'^<i64 as TryFrom<u64>>::try_from$|<u64 as TryInto<i64>>::try_into$'), None)]


@obligation('C01', 'C01-5 end_block pays every accumulated block fee to the fee recipient, once, in the state that is applied')
def c01_end_block(run):
    ex, W = A.engine(extra_hooks=[h for h in end_block_hooks() if h[1] is not None])
    f = ex.find(r'^app::<impl at [^>]*>::end_block$')
    for a_ in COMMON_ASSUME:
        run.assume(a_)
    run.assume('component end_block handlers are no-ops returning Ok (they do not touch balances: AccountsComponent/FeesComponent/IbcComponent end_block are empty, AuthorityComponent only touches validator state)')
    run.bound(block_fees='0, 1 or 2 distinct fee assets with arbitrary totals', recipient='arbitrary [u8;20]', state='arbitrary symbolic chain state')
    n_ok = 0
    for k in (0, 1, 2):
        w0 = initial_world()
        fees = [(z3.BitVec(f'fee_asset{i}', 256), z3.BitVec(f'fee_total{i}', 128), z3.BitVecVal(0, 64)) for i in range(k)]
        app = Obj('App'); rec = z3.BitVec('fee_recipient', 160); height = z3.BitVec('height', 64)
        st = ex.start(f, [B.cell(app), height, B.cell(rec)], world=dict(w0, block_fees=list(fees)))
        st.pc += [fees[a][0] != fees[b][0] for a in range(k) for b in range(a + 1, k)] + [z3.ULT(height, z3.BitVecVal(1 << 62, 64))]
        for i, p in enumerate(run.explore(ex, st, poll=True, allow_havoc=(r'^Arguments::|fmt::', r'EndBlock', r'Default>::default'))):
            lab = f'[{k} fee assets, path {i}]'
            if p.kind != 'return':
                run.prove(f'no panic {lab}', p.pc, z3.BoolVal(False), detail=p.info); continue
            kind, r = poll_result(p)
            applies = [e for e in p.log if e[0] == 'apply']; bw = balance_writes(p)
            run.sample({'fee_assets': k, 'path': i, 'result': kind, 'balance_writes': len(bw), 'applies': len(applies)})
            if kind != 'Ok':
                continue
            n_ok += 1
            post = w0['balance']; nowrap = []
            for asset, total, _ in fees:
                kk = bal_key(rec, asset)
                nowrap.append(z3.BVAddNoOverflow(z3.Select(post, kk), total, False))
                post = z3.Store(post, kk, z3.Select(post, kk) + total)
            run.prove(f'Ok => the recipient is credited exactly each asset\'s block-fee total (no wrap), nothing else moves, and the credited state is applied exactly once afterwards {lab}', p.pc,
                      z3.And(p.world['balance'] == post, *nowrap, z3.BoolVal(len(applies) == 1 and applies[0][2] == k and len(bw) == k),
                             unchanged(w0, p.world, except_=('balance', 'block_fees', 'validator_updates'))))
    if not n_ok:
        raise Inconclusive('vacuity: no Ok path')
    run.require_reached(*run.cur.reach)



def replay_f7(model=None, path=None):
    """native demonstration of F7: fee() saturates instead of following base + multiplier * variable"""
    from vlib import replay
    code = open('/verif/replay_templates/c01_fee_saturation.rs').read()
    r = replay.run_crate_test('astria-sequencer', 'crates/astria-sequencer/src/checked_actions/utils.rs', code, 'verif_replay_c01')
    if not r['lines']:
        return {'mode': 'native-crate-test', 'reproduced': None, 'error': r['output'][-1500:]}
    o = r['lines'][-1]
    return {'mode': 'native-crate-test', 'scenario': 'BridgeLock fee components base = u128::MAX - 1, multiplier = 2', 'observed': o,
            'reproduced': (not o['formula_fits_u128']) and o['charged'] == str((1 << 128) - 1)}


@obligation('C01', 'C01-2n native demonstration of the recorded finding F7 (informational: records whether it still reproduces; never fails the check)', tiers=('thorough',))
def c01_2n(run):
    run.bound(scenario='one concrete fee configuration')
    v = replay_f7()
    run.sample({'native_demonstration': v})
    run.cur.paths += 1
    run.reached('native demonstration executed')
    if v.get('reproduced') is None:
        run.cur.notes.append('native demonstration of F7 could not be run: ' + str(v.get('error'))[-300:])


# ----------------------------------------------------------------------------------------------------------------- C01-6
@obligation('C01', 'C01-6 add_fee_to_block_fees (real body): the per-asset block-fee total grows by exactly the fee, never wraps or saturates (overflow is an error that stores nothing), other assets\' totals are untouched')
def c01_6(run):
    cfg = {}

    def h_get(ctx):
        ctx.st.log.append(('object_get', 'block_fees'))
        pre = cfg['pre']
        if pre is None:
            return [(None, none())]
        return [(None, some(M.new_map('HashMap<IbcPrefixed, u128>', list(pre))))]

    def h_put(ctx):
        v = ctx.ex.deref_val(ctx.st, ctx.args[2])
        ctx.st.log.append(('object_put', 'block_fees', [(ctx.ex.deref_val(ctx.st, k), ctx.ex.deref_val(ctx.st, x)) for k, x in v.attrs['items']]))
        return [(None, ())]
    hooks = [(re.compile(r'StateRead>::object_get::<HashMap<.*IbcPrefixed, u128>>$'), h_get), (re.compile(r'StateWrite>::object_put::<HashMap<.*IbcPrefixed, u128>>$'), h_put)]
    ex, W = A.engine(extra_hooks=hooks)
    W.m_add_fee_to_block_fees = None          # execute the real provided method instead of the chain-state model's list
    cands = [n for n in ex.fns if n.endswith('StateWriteExt::add_fee_to_block_fees') and n.startswith('fees::')]
    if len(cands) != 1:
        raise Inconclusive(f'fees::state_ext::StateWriteExt::add_fee_to_block_fees not found: {cands}')
    for a_ in COMMON_ASSUME:
        run.assume(a_)
    run.bound(block_fees='absent, or a map with one entry for the same asset, for another asset, or for both', fee='all u128', asset='arbitrary')
    from mirsym.engine import none, some
    n_ok = n_err = 0
    asset_obj = Obj('astria_core::primitive::v1::asset::Denom')
    for shape in ('absent', 'same', 'other', 'both'):
        asset = z3.BitVec('fee_asset', 256); other = z3.BitVec('other_asset', 256); cur = z3.BitVec('current_total', 128); oth = z3.BitVec('other_total', 128); amt = z3.BitVec('fee_amount', 128)
        cfg['pre'] = {'absent': None, 'same': [(asset, cur)], 'other': [(other, oth)], 'both': [(other, oth), (asset, cur)]}[shape]
        a0 = Obj('astria_core::primitive::v1::asset::IbcPrefixed'); a0.attrs['asset_id'] = asset
        st = ex.start(cands[0], [B.cell(Obj('S', kind='cell')), B.cell(a0), amt, z3.BitVec('position', 64)], world=dict(initial_world()))
        st.pc.append(asset != other)
        for i, p in enumerate(run.explore(ex, st, allow_havoc=(r'^Arguments::|fmt::', r'Event::new', r'to_string', r'full_name', r'snake_case_name'))):
            lab = f'[block fees {shape}, path {i}]'
            if p.kind != 'return':
                run.prove(f'no panic {lab}', p.pc, z3.BoolVal(False), detail=p.info); continue
            puts = [e for e in p.log if e[0] == 'object_put']
            res = p.result.discr
            old = cur if shape in ('same', 'both') else z3.BitVecVal(0, 128)
            run.sample({'shape': shape, 'path': i, 'result': res, 'puts': len(puts)})
            if res == 'Ok':
                n_ok += 1
                claim = [z3.BoolVal(len(puts) == 1), z3.BVAddNoOverflow(old, amt, False)]
                if puts:
                    items = puts[0][2]
                    mine = [v for k, v in items if z3.is_expr(k) and str(k) == 'fee_asset']
                    theirs = [v for k, v in items if z3.is_expr(k) and str(k) == 'other_asset']
                    claim += [z3.BoolVal(len(mine) == 1 and len(items) == (2 if shape in ('other', 'both') else 1)), mine[0] == old + amt if mine else z3.BoolVal(False)]
                    if shape in ('other', 'both'):
                        claim.append(theirs[0] == oth if theirs else z3.BoolVal(False))
                run.prove(f'Ok => stored total of this asset = old total + fee without wrap-around; totals of other assets unchanged {lab}', p.pc, z3.And(*claim))
            else:
                n_err += 1
                run.prove(f'Err => old total + fee does not fit in u128, and nothing was stored {lab}', p.pc, z3.And(z3.Not(z3.BVAddNoOverflow(old, amt, False)), z3.BoolVal(not puts)))
    if not n_ok or not n_err:
        raise Inconclusive(f'vacuity: ok {n_ok}, err {n_err}')
    run.require_reached(*run.cur.reach)


# ----------------------------------------------------------------------------------------------------------------- C01-7 (supply changes through IBC; shared with C18)
from obligations import c18 as _c18
obligation('C01', 'C01-7a Ics20Withdrawal::execute: the only outbound supply change debits the sender exactly the amount and books it in escrow / burns it (= C18-1b)')(_c18.ics20_obligation('C01'))
obligation('C01', 'C01-7b ICS20 receive: the only inbound supply change credits exactly the packet amount, against escrow for returning assets (= C18-3)')(_c18.c18_3)
obligation('C01', 'C01-7c ICS20 refund: the sender gets back exactly the packet amount, escrow released by exactly that amount (= C18-5)')(_c18.c18_5)
