"""C01 — Ledger conservation: value only moves; fees exact and fully routed (astria-sequencer MIR over the chain-state model)."""
import re
import z3
from vlib.oblig import obligation, mval
from vlib import loader, build as B
from vlib.seqworld import World, initial_world, SCALARS, CELLS
from mirsym.engine import Obj, Ref, Inconclusive

LISTS = ('block_fees', 'cached_deposits', 'events', 'validator_updates')


def engine():
    ex = loader.load(['astria-sequencer', 'astria-core', 'astria-core-address'], scalar_types=SCALARS, max_steps=2_000_000)
    w = World(ex)
    ex.hooks = w.hooks()
    return ex, w


def unchanged(w0, w1, except_=()):
    cs = []
    for k in w0:
        if k in except_ or k.rstrip('?') in except_:
            continue
        if k in LISTS:
            cs.append(z3.BoolVal(len(w0[k]) == len(w1[k])))
        elif k == 'ibc_context':
            continue
        else:
            cs.append(w0[k] == w1[k])
    return z3.And(*cs)


def poll_result(p):
    """Poll<Result<..>> of a finished path -> 'Ok' | 'Err'"""
    r = p.result
    if not isinstance(r, Obj) or r.discr != 'Ready':
        raise Inconclusive(f'future did not complete: {r!r}')
    res = r.fields[('Ready', 0)]
    return res.discr, res


def bal_key(a, s):
    return z3.Concat(a, s)


@obligation('C01', 'C01-4a Transfer::execute moves exactly `amount` of one asset from signer to recipient')
def c01_transfer(run):
    ex, W = engine()
    f = ex.find(r'checked_actions::transfer::<impl at [^>]*>::execute$')
    run.bound(state='arbitrary symbolic chain state (SMT arrays)', action='arbitrary Transfer (amount full u128, arbitrary addresses/assets, aliasing allowed)', unroll='loop-free')
    run.assume('state reads succeed (no storage I/O or decode errors); storage keys are injective; StoredValue (de)serialisation is the identity')
    run.assume('awaited sub-futures complete (Pending is never returned); tracing is disabled')
    w0 = initial_world()
    selfobj = Obj('CheckedTransfer'); state = Obj('S', kind='cell')
    st = ex.start(f, [B.cell(selfobj), state], world=dict(w0))
    paths = run.explore(ex, st, poll=True)
    for i, p in enumerate(paths):
        if p.kind != 'return':
            run.prove(f'no panic [path {i}]', p.pc, z3.BoolVal(False), detail=p.info); continue
        kind, res = poll_result(p)
        me = ex.read(p, p.roots['args'][0].loc)
        action = B.fld(ex, p, me, 'action', 'Transfer')
        signer = W.addr(p, B.fld(ex, p, me, 'tx_signer', 'TransactionSignerAddressBytes'))
        to = W.addr(p, B.fld(ex, p, action, 'to', 'Address'))
        asset = W.asset(p, B.fld(ex, p, action, 'asset', 'Denom'))
        amt = B.fld(ex, p, action, 'amount', 'u128')
        b0 = w0['balance']; k1, k2 = bal_key(signer, asset), bal_key(to, asset)
        mid = z3.Store(b0, k1, z3.Select(b0, k1) - amt)
        post = z3.Store(mid, k2, z3.Select(mid, k2) + amt)
        writes = [e for e in p.log if e[0] == 'write']
        run.sample({'path': i, 'result': kind, 'writes': [(e[1]) for e in writes], 'pc': [str(z3.simplify(c))[:100] for c in p.pc][:6]})
        if kind == 'Ok':
            run.prove(f'Ok => debit signer, credit recipient, same asset, same amount, no wrap [path {i}]', p.pc,
                      z3.And(p.world['balance'] == post, z3.UGE(z3.Select(b0, k1), amt), z3.BVAddNoOverflow(z3.Select(mid, k2), amt, False)))
            run.prove(f'Ok => signer is not a bridge account [path {i}]', p.pc, z3.Not(z3.Select(w0['bridge_rollup?'], signer)))
            run.prove(f'Ok => nothing else written [path {i}]', p.pc, unchanged(w0, p.world, except_=('balance',)))
        else:
            run.prove(f'Err => no credit without debit; only the signer debit may precede the failure [path {i}]', p.pc,
                      z3.And(z3.Or(p.world['balance'] == b0, p.world['balance'] == mid), unchanged(w0, p.world, except_=('balance',))))
    run.require_reached(*run.cur.reach)
    if not any(k.startswith('Ok =>') for k in run.cur.reach):
        raise Inconclusive('vacuity: no Ok path')
