"""C09 — Conductor accepts firm data only if >2/3 voting power committed the block (astria-conductor MIR)."""
import os, re
import z3
from vlib.oblig import obligation, mval
from vlib import loader, replay, snap
from mirsym.engine import Obj, Ref, enum, some, none, ok, err, Inconclusive
from mirsym import models as M

BV = z3.BitVecVal
BLOCK_VERIFIER = 'crates/astria-conductor/src/celestia/block_verifier.rs'
SCALARS = {'tendermint::block::Height': 64, 'tendermint::account::Id': 160, 'tendermint::PublicKey': 256, 'tendermint::Time': 96,
           'tendermint::block::Round': 32, 'tendermint::vote::Power': 64, 'tendermint::Hash': 264, 'account::Id': 160}


def engine(hooks=None, **kw):
    return loader.load(['astria-conductor'], scalar_types=SCALARS, hooks=hooks, **kw)


# ----------------------------------------------------------------------------------------------------------------- C09-1
def replay_quorum(c_e, t_e):
    def rp(model, path):
        c, t = mval(model, c_e), mval(model, t_e)
        src = replay.extract_fn(os.path.join(snap.REPO, BLOCK_VERIFIER), 'does_commit_voting_power_have_quorum')
        if src is None:
            return {'mode': 'native', 'reproduced': None, 'error': 'function source not found'}
        r = replay.run_standalone([src], f'println!("{{}}", does_commit_voting_power_have_quorum({c}u64, {t}u64));')
        if 'error' in r:
            return {'mode': 'native', 'reproduced': None, 'error': r['error']}
        want = 3 * c > 2 * t
        got = {p: (r[p]['stdout'][-1] == 'true') if not r[p]['panicked'] else 'panic' for p in ('dev', 'release')}
        return {'mode': 'native-standalone', 'inputs': {'committed': c, 'total': t}, 'expected_quorum': want, 'got': got,
                'reproduced': any(g != want for g in got.values())}
    return rp


@obligation('C09', 'C09-1 quorum threshold arithmetic')
def c09_1(run):
    ex = engine()
    f = ex.find(r'^does_commit_voting_power_have_quorum$')
    c, t = z3.BitVec('committed', 64), z3.BitVec('total', 64)
    run.bound(inputs='all u64 x u64 with committed <= total (the caller rejects committed > total first)', unroll='loop-free')
    paths = run.explore(ex, ex.start(f, [c, t]))
    spec = z3.UGT(z3.ZeroExt(8, c) * 3, z3.ZeroExt(8, t) * 2)
    for i, p in enumerate(paths):
        if p.kind != 'return':
            run.prove(f'no-panic[path {i}]', p.pc + [z3.ULE(c, t)], z3.BoolVal(False), replay=replay_quorum(c, t), detail=p.info)
            continue
        run.sample({'path': i, 'result': str(z3.simplify(p.result))[:200]})
        run.prove(f'quorum <=> 3c > 2t [path {i}]', p.pc + [z3.ULE(c, t)], p.result == spec, replay=replay_quorum(c, t))
    run.require_reached(*[k for k in run.cur.reach])
    # translator validation: the repository's own unit-test vectors through the encoding
    vectors = [(3, 4, True), (101, 150, True), (67, 100, True), (2, 3, False), (100, 150, False), (66, 100, False), (1, 1, True), (2, 2, True), (1, 2, False), (0, 0, False)]
    for cv, tv, want in vectors:
        hit = 0
        for p in paths:
            if p.kind != 'return':
                continue
            s = z3.Solver(); s.add(*p.pc); s.add(c == cv, t == tv)
            if s.check() == z3.sat:
                hit += 1
                got = z3.is_true(s.model().eval(p.result, model_completion=True))
                if got != want:
                    raise Inconclusive(f'translator validation: encoding gives {got} for repo test vector ({cv},{tv}) expected {want}')
        if hit != 1:
            raise Inconclusive(f'translator validation: vector ({cv},{tv}) matched {hit} paths')
        run.cur.vectors += 1
