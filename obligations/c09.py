"""C09 — Conductor accepts firm data only if >2/3 voting power committed the block (astria-conductor MIR)."""
import os, re
import z3
from vlib.oblig import obligation, mval
from vlib import loader, replay, snap
from mirsym.engine import Obj, Ref, enum, some, none, ok, err, Inconclusive
from vlib import build as B
from mirsym import models as M

BV = z3.BitVecVal
BLOCK_VERIFIER = 'crates/astria-conductor/src/celestia/block_verifier.rs'
SCALARS = {'tendermint::block::Height': 64, 'tendermint::account::Id': 160, 'tendermint::PublicKey': 256, 'tendermint::Time': 96,
           'tendermint::block::Round': 32, 'tendermint::vote::Power': 64, 'tendermint::Hash': 264, 'account::Id': 160}


def engine(hooks=None, **kw):
    return loader.load(['astria-conductor'], scalar_types=SCALARS, hooks=hooks, **kw)


# ----------------------------------------------------------------------------------------------------------------- C09-1
def replay_quorum(c_e, t_e):
    def rp(model, path):
        c, t = mval(model, c_e), mval(model, t_e)
        src = replay.extract_fn(os.path.join(snap.REPO, BLOCK_VERIFIER), 'does_commit_voting_power_have_quorum')
        if src is None:
            return {'mode': 'native', 'reproduced': None, 'error': 'function source not found'}
        r = replay.run_standalone([src], f'println!("{{}}", does_commit_voting_power_have_quorum({c}u64, {t}u64));')
        if 'error' in r:
            return {'mode': 'native', 'reproduced': None, 'error': r['error']}
        want = 3 * c > 2 * t
        got = {p: (r[p]['stdout'][-1] == 'true') if not r[p]['panicked'] else 'panic' for p in ('dev', 'release')}
        return {'mode': 'native-standalone', 'inputs': {'committed': c, 'total': t}, 'expected_quorum': want, 'got': got,
                'reproduced': any(g != want for g in got.values())}
    return rp


@obligation('C09', 'C09-1 quorum threshold arithmetic')
def c09_1(run):
    ex = engine()
    f = ex.find(r'^does_commit_voting_power_have_quorum$')
    c, t = z3.BitVec('committed', 64), z3.BitVec('total', 64)
    run.bound(inputs='all u64 x u64 with committed <= total (the caller rejects committed > total first)', unroll='loop-free')
    paths = run.explore(ex, ex.start(f, [c, t]))
    spec = z3.UGT(z3.ZeroExt(8, c) * 3, z3.ZeroExt(8, t) * 2)
    for i, p in enumerate(paths):
        if p.kind != 'return':
            run.prove(f'no-panic[path {i}]', p.pc + [z3.ULE(c, t)], z3.BoolVal(False), replay=replay_quorum(c, t), detail=p.info)
            continue
        run.sample({'path': i, 'result': str(z3.simplify(p.result))[:200]})
        run.prove(f'quorum <=> 3c > 2t [path {i}]', p.pc + [z3.ULE(c, t)], p.result == spec, replay=replay_quorum(c, t))
    run.require_reached(*[k for k in run.cur.reach])
    # translator validation: the repository's own unit-test vectors through the encoding
    vectors = [(3, 4, True), (101, 150, True), (67, 100, True), (2, 3, False), (100, 150, False), (66, 100, False), (1, 1, True), (2, 2, True), (1, 2, False), (0, 0, False)]
    for cv, tv, want in vectors:
        hit = 0
        for p in paths:
            if p.kind != 'return':
                continue
            s = z3.Solver(); s.add(*p.pc); s.add(c == cv, t == tv)
            if s.check() == z3.sat:
                hit += 1
                got = z3.is_true(s.model().eval(p.result, model_completion=True))
                if got != want:
                    raise Inconclusive(f'translator validation: encoding gives {got} for repo test vector ({cv},{tv}) expected {want}')
        if hit != 1:
            raise Inconclusive(f'translator validation: vector ({cv},{tv}) matched {hit} paths')
        run.cur.vectors += 1


# ----------------------------------------------------------------------------------------------------------------- C09-2
ADDR_OF = z3.Function('address_of_pubkey', z3.BitVecSort(264), z3.BitVecSort(160))
SIG_VALID = z3.Function('vote_signature_valid', z3.BitVecSort(264), z3.BitVecSort(256), z3.BitVecSort(96), z3.BoolSort())
SCALARS2 = dict(SCALARS, **{'tendermint::PublicKey': 264, 'tendermint::Time': 96, 'tendermint::vote::Power': 64})


def h_power(ctx):
    ex, st = ctx.ex, ctx.st
    info = ex.deref_val(st, ctx.args[0])
    return [(None, B.fld(ex, st, info, 'power', 'tendermint::vote::Power'))]


def h_addr_from_pk(ctx):
    return [(None, ADDR_OF(ctx.ex.deref_val(ctx.st, ctx.args[0])))]


def h_verify_sig(ctx):
    ex, st = ctx.ex, ctx.st
    ts, pk, sig = ctx.args[0], ex.deref_val(st, ctx.args[3]), ex.deref_val(st, ctx.args[4])
    v = SIG_VALID(pk, M.ident(sig), ts)
    st.log.append(('verify', pk, M.ident(sig), ts))
    return [(v, ok(())), (z3.Not(v), (lambda s2: err(Obj('QuorumError', kind='error'))))]


def quorum_engine():
    import re
    hooks = [(re.compile(r'^tendermint::validator::Info::power$'), h_power), (re.compile(r'^<tendermint::account::Id as From<tendermint::PublicKey>>::from$'), h_addr_from_pk),
             (re.compile(r'^verify_vote_signature$'), h_verify_sig), (re.compile(r'^tendermint::Signature::as_bytes$'), lambda ctx: [(None, ctx.args[0])])]
    return loader.load(['astria-conductor'], scalar_types=SCALARS2, hooks=hooks, dep_adts=['tendermint', 'tendermint-rpc'])


def replay_commit(nv, ns, powers, votes):
    """native replay in the crate's own test build: real ed25519 keys and signatures; votes[i] = (kind, validator index, signed_ok)"""
    from vlib import replay as R

    def rp(model, path):
        pw = [mval(model, p) for p in powers]
        spec = []
        for (is_commit, has_sig, addr, sig_ok, which) in votes:
            if not mval(model, is_commit):
                spec.append('None'); continue
            j = [k for k in range(nv) if mval(model, which[k])]
            spec.append(f'Some(({j[0] if j else 0}usize, {"true" if mval(model, sig_ok[j[0]] if j else z3.BoolVal(False)) else "false"}))')
        code = open('/verif/replay_templates/c09_quorum.rs').read().replace('VERIF_POWERS', ', '.join(f'{x}u64' for x in pw)).replace('VERIF_VOTES', ', '.join(spec))
        r = R.run_crate_test('astria-conductor', 'crates/astria-conductor/src/celestia/block_verifier.rs', code, 'verif_replay_c09')
        if not r['lines']:
            return {'mode': 'native-crate-test', 'reproduced': None, 'error': r['output'][-1500:]}
        o = r['lines'][-1]
        signed = set(int(s.split('(')[2].split('usize')[0]) for s in spec if s != 'None' and 'true' in s)
        exact = 3 * sum(pw[j] for j in signed) > 2 * sum(pw)
        return {'mode': 'native-crate-test', 'inputs': {'powers': pw, 'votes': spec}, 'observed': o, 'exact_quorum': exact, 'reproduced': bool(o['accepted']) and not exact}
    return rp


@obligation('C09', 'C09-2 ensure_commit_has_quorum: accepted only if distinct validators holding > 2/3 of the power signed validly')
def c09_2(run):
    ex = quorum_engine()
    f = ex.find(r'^ensure_commit_has_quorum$')
    shapes = [(1, 0), (1, 1), (2, 1), (2, 2)] if run.tier == 'quick' else [(1, 0), (1, 1), (1, 2), (2, 1), (2, 2), (3, 2), (3, 3), (2, 3)]
    run.bound(validator_set='1..2 validators (3 thorough), arbitrary keys and powers', signatures='0..2 votes (3 thorough), arbitrary flags/addresses/signatures',
              signature_check='oracle: an uninterpreted predicate of (public key, signature, timestamp)')
    run.bound(voting_power='each validator power < 2^59 (CometBFT caps the total at i64::MAX/8)')
    run.assume('validators of the trusted validator-set response have pairwise distinct addresses; account::Id::from(pubkey) is a function of the key')
    n_ok = 0
    for nv, ns in shapes:
        vals, pks, pws = [], [], []
        for j in range(nv):
            pk, pw = z3.BitVec(f'pubkey{j}', 264), z3.BitVec(f'power{j}', 64)
            vals.append(B.struct(ex, 'tendermint::validator::Info', pub_key=pk, power=pw)); pks.append(pk); pws.append(pw)
        vset = B.struct(ex, 'tendermint_rpc::endpoint::validators::Response', block_height=z3.BitVec('set_height', 64), validators=M.new_vec('Vec<Info>', vals))
        sigs, meta = [], []
        for i in range(ns):
            cs = Obj('tendermint::block::CommitSig')
            addr, ts = z3.BitVec(f'vote_addr{i}', 160), z3.BitVec(f'vote_time{i}', 96)
            sig = Obj('tendermint::Signature'); sig.attrs['ident'] = z3.BitVec(f'signature{i}', 256)
            so = Obj('std::option::Option<tendermint::Signature>'); so.fields[('Some', 0)] = sig
            a = ex.adts.lookup('tendermint::block::CommitSig'); v = [x for x in a['variants'] if x['name'] == 'BlockIdFlagCommit'][0]
            cs.fields[('BlockIdFlagCommit', v['fields'].index('validator_address'))] = addr
            cs.fields[('BlockIdFlagCommit', v['fields'].index('timestamp'))] = ts
            cs.fields[('BlockIdFlagCommit', v['fields'].index('signature'))] = so
            sigs.append(cs); meta.append((cs, so, addr, sig, ts, v['index']))
        commit = B.struct(ex, 'tendermint::block::Commit', height=z3.BitVec('commit_height', 64), signatures=M.new_vec('Vec<CommitSig>', sigs))
        st = ex.start(f, [B.cell(commit), B.cell(vset), B.cell(Obj('tendermint::chain::Id'))])
        st.pc += [ADDR_OF(pks[a_]) != ADDR_OF(pks[b_]) for a_ in range(nv) for b_ in range(a_ + 1, nv)]
        st.pc += [z3.ULT(x, z3.BitVecVal(1 << 59, 64)) for x in pws]      # CometBFT caps the total voting power at i64::MAX / 8
        for i, p in enumerate(run.explore(ex, st)):
            lab = f'[{nv} validators, {ns} votes, path {i}]'
            if p.kind != 'return':
                run.prove(f'no panic {lab}', p.pc, z3.BoolVal(False), detail=p.info); continue
            if p.result.discr != 'Ok':
                continue
            n_ok += 1
            c2 = ex.read(p, p.roots['args'][0].loc)
            total = sum((z3.ZeroExt(8, x) for x in pws), z3.BitVecVal(0, 72))
            signed_power = z3.BitVecVal(0, 72); votes_for_replay = []
            m2 = []
            for (cs, so, addr, sig, ts, cidx) in meta:
                cs2, so2 = p.tr(cs) if False else None, None
            # the path's copies of the vote objects: read through the commit argument
            sig_items = B.fld(ex, p, c2, 'signatures', 'Vec<CommitSig>').attrs['items']
            per_vote = []
            for k, csx in enumerate(sig_items):
                csx = ex.deref_val(p, csx)
                is_commit = ex.discr_value(p, csx) == z3.BitVecVal(meta[k][5], 64)
                sox = csx.fields[('BlockIdFlagCommit', 2)] if ('BlockIdFlagCommit', 2) in csx.fields else meta[k][1]
                has_sig = ex.discr_value(p, sox) == z3.BitVecVal(1, 64)
                per_vote.append((is_commit, has_sig, meta[k][2], meta[k][3], meta[k][4]))
            for j in range(nv):
                sj = z3.Or(*[z3.And(ic, hs, ad == ADDR_OF(pks[j]), SIG_VALID(pks[j], M.ident(sg), ts)) for (ic, hs, ad, sg, ts) in per_vote]) if per_vote else z3.BoolVal(False)
                signed_power = signed_power + z3.If(sj, z3.ZeroExt(8, pws[j]), z3.BitVecVal(0, 72))
            rp_votes = [(ic, hs, ad, [SIG_VALID(pks[j], M.ident(sg), ts) for j in range(nv)], [ad == ADDR_OF(pks[j]) for j in range(nv)]) for (ic, hs, ad, sg, ts) in per_vote]
            run.sample({'validators': nv, 'votes': ns, 'path': i})
            run.prove(f'accepted => commit and validator set are for the same height {lab}', p.pc, z3.BitVec('commit_height', 64) == z3.BitVec('set_height', 64))
            run.prove(f'accepted => distinct validators with valid signatures hold strictly more than 2/3 of the total power {lab}', p.pc,
                      z3.UGT(signed_power * 3, total * 2), replay=replay_commit(nv, ns, pws, rp_votes))
    if not n_ok:
        raise Inconclusive('vacuity: no accepting path')
    run.require_reached(*run.cur.reach)


# ----------------------------------------------------------------------------------------------------------------- C09-3
@obligation('C09', 'C09-3 BlobVerifier::verify_metadata keeps metadata only if chain id and block hash equal the commit\'s')
def c09_3(run):
    import re
    cm, hm, ok_fetch = z3.Bool('chain_ids_match'), z3.Bool('block_hashes_match'), z3.Bool('verification_meta_available')

    def h_cache(ctx):
        meta = Obj('Arc<VerificationMeta>', kind='arc'); meta.fields[('in', 0)] = Obj('celestia::verify::VerificationMeta')

        def alts(ex, s2, fut):
            return [(ok_fetch, (lambda s3: ok(s3.tr(meta)))), (z3.Not(ok_fetch), (lambda s3: err(Obj('Arc<BoxError>', kind='error'))))]
        return [(None, M.thunk_future(alts))]

    def h_match(which):
        def h(ctx):
            ctx.st.log.append(('compared', which))
            return [(which, ok(())), (z3.Not(which), (lambda s2: err()))]
        return h
    hooks = [(re.compile(r'Cache::<.*>::try_get_with'), h_cache), (re.compile(r'^VerificationMeta::fetch$'), lambda ctx: [(None, Obj('fetch-future'))]),
             (re.compile(r'^ensure_chain_ids_match$'), h_match(cm)), (re.compile(r'^ensure_block_hashes_match$'), h_match(hm)),
             (re.compile(r'SubmittedMetadata::(height|cometbft_chain_id|block_hash)$|chain::Id::as_str$|Hash::as_bytes$|<RateLimitedVerificationClient as Clone>::clone'), lambda ctx: [(None, Obj(ctx.ret_ty))])]
    ex = loader.load(['astria-conductor'], scalar_types=SCALARS2, hooks=hooks, dep_adts=['tendermint'])
    cands = [n for n in ex.fns if n.endswith('::verify_metadata') and 'closure' not in n and ex.impl_self(n) == (None, 'BlobVerifier')]
    if len(cands) != 1:
        raise Inconclusive(f'BlobVerifier::verify_metadata not found: {cands}')
    run.bound(inputs='arbitrary metadata; the cached commit lookup is an oracle (available or not); the two comparisons are oracles (symbolic Bools)', unroll='loop-free')
    run.assume('string / byte-slice equality inside ensure_chain_ids_match / ensure_block_hashes_match is abstracted by one Bool each')
    me = Obj('Arc<BlobVerifier>', kind='arc'); me.fields[('in', 0)] = Obj('celestia::verify::BlobVerifier')
    md = Obj('astria_core::sequencerblock::v1::SubmittedMetadata'); md.attrs['tag'] = 'input'
    st = ex.start(cands[0], [me, md])
    kept = 0
    for i, p in enumerate(run.explore(ex, st, poll=True, allow_havoc=(r'^Arguments::|fmt::',))):
        if p.kind != 'return':
            run.prove(f'no panic [path {i}]', p.pc, z3.BoolVal(False), detail=p.info); continue
        r = p.result.fields[('Ready', 0)]
        run.sample({'path': i, 'result': r.discr, 'compared': [e[1].decl().name() for e in p.log if e[0] == 'compared']})
        if r.discr == 'Some':
            kept += 1
            run.prove(f'metadata is kept only if the commit was available and chain id and block hash both match it [path {i}]', p.pc, z3.And(ok_fetch, cm, hm))
    if not kept:
        raise Inconclusive('vacuity: no path keeps the metadata')
    run.require_reached(*run.cur.reach)
