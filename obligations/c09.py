"""C09 — Conductor accepts firm data only if >2/3 voting power committed the block (astria-conductor MIR)."""
import os, re
import z3
from vlib.oblig import obligation, mval
from vlib import loader, replay, snap
from mirsym.engine import Obj, Ref, enum, some, none, ok, err, Inconclusive
from vlib import build as B
from mirsym import models as M

BV = z3.BitVecVal
BLOCK_VERIFIER = 'crates/astria-conductor/src/celestia/block_verifier.rs'
SCALARS = {'tendermint::block::Height': 64, 'tendermint::account::Id': 160, 'tendermint::PublicKey': 256, 'tendermint::Time': 96,
           'tendermint::block::Round': 32, 'tendermint::vote::Power': 64, 'tendermint::Hash': 264, 'account::Id': 160}


def engine(hooks=None, **kw):
    return loader.load(['astria-conductor'], scalar_types=SCALARS, hooks=hooks, **kw)


# ----------------------------------------------------------------------------------------------------------------- C09-1
def replay_quorum(c_e, t_e):
    def rp(model, path):
        c, t = mval(model, c_e), mval(model, t_e)
        src = replay.extract_fn(os.path.join(snap.REPO, BLOCK_VERIFIER), 'does_commit_voting_power_have_quorum')
        if src is None:
            return {'mode': 'native', 'reproduced': None, 'error': 'function source not found'}
        r = replay.run_standalone([src], f'println!("{{}}", does_commit_voting_power_have_quorum({c}u64, {t}u64));')
        if 'error' in r:
            return {'mode': 'native', 'reproduced': None, 'error': r['error']}
        want = 3 * c > 2 * t
        got = {p: (r[p]['stdout'][-1] == 'true') if not r[p]['panicked'] else 'panic' for p in ('dev', 'release')}
        return {'mode': 'native-standalone', 'inputs': {'committed': c, 'total': t}, 'expected_quorum': want, 'got': got,
                'reproduced': any(g != want for g in got.values())}
    return rp


@obligation('C09', 'C09-1 quorum threshold arithmetic')
def c09_1(run):
    ex = engine()
    f = ex.find(r'^does_commit_voting_power_have_quorum$')
    c, t = z3.BitVec('committed', 64), z3.BitVec('total', 64)
    run.bound(inputs='all u64 x u64 with committed <= total (the caller rejects committed > total first)', unroll='loop-free')
    paths = run.explore(ex, ex.start(f, [c, t]))
    spec = z3.UGT(z3.ZeroExt(8, c) * 3, z3.ZeroExt(8, t) * 2)
    for i, p in enumerate(paths):
        if p.kind != 'return':
            run.prove(f'no-panic[path {i}]', p.pc + [z3.ULE(c, t)], z3.BoolVal(False), replay=replay_quorum(c, t), detail=p.info)
            continue
        run.sample({'path': i, 'result': str(z3.simplify(p.result))[:200]})
        run.prove(f'quorum <=> 3c > 2t [path {i}]', p.pc + [z3.ULE(c, t)], p.result == spec, replay=replay_quorum(c, t))
    run.require_reached(*[k for k in run.cur.reach])
    # translator validation: the repository's own unit-test vectors through the encoding
    vectors = [(3, 4, True), (101, 150, True), (67, 100, True), (2, 3, False), (100, 150, False), (66, 100, False), (1, 1, True), (2, 2, True), (1, 2, False), (0, 0, False)]
    for cv, tv, want in vectors:
        hit = 0
        for p in paths:
            if p.kind != 'return':
                continue
            s = z3.Solver(); s.add(*p.pc); s.add(c == cv, t == tv)
            if s.check() == z3.sat:
                hit += 1
                got = z3.is_true(s.model().eval(p.result, model_completion=True))
                if got != want:
                    raise Inconclusive(f'translator validation: encoding gives {got} for repo test vector ({cv},{tv}) expected {want}')
        if hit != 1:
            raise Inconclusive(f'translator validation: vector ({cv},{tv}) matched {hit} paths')
        run.cur.vectors += 1


# ----------------------------------------------------------------------------------------------------------------- C09-2
ADDR_OF = z3.Function('address_of_pubkey', z3.BitVecSort(264), z3.BitVecSort(160))
SIG_VALID = z3.Function('vote_signature_valid', z3.BitVecSort(264), z3.BitVecSort(256), z3.BitVecSort(96), z3.BoolSort())
SCALARS2 = dict(SCALARS, **{'tendermint::PublicKey': 264, 'tendermint::Time': 96, 'tendermint::vote::Power': 64})


def h_power(ctx):
    ex, st = ctx.ex, ctx.st
    info = ex.deref_val(st, ctx.args[0])
    return [(None, B.fld(ex, st, info, 'power', 'tendermint::vote::Power'))]


def h_addr_from_pk(ctx):
    return [(None, ADDR_OF(ctx.ex.deref_val(ctx.st, ctx.args[0])))]


MSG = z3.Function('canonical_vote_bytes', z3.BitVecSort(64), z3.BitVecSort(64), z3.BitVecSort(32), z3.BoolSort(), z3.BitVecSort(256), z3.BitVecSort(96), z3.BitVecSort(256), z3.BitVecSort(256))
SIG_VALID3 = z3.Function('ed25519_verify', z3.BitVecSort(264), z3.BitVecSort(256), z3.BitVecSort(256), z3.BoolSort())     # (public key, signature, message)


def _ident(o, what):
    if isinstance(o, Obj) and 'ident' in o.attrs:
        return o.attrs['ident']
    raise Inconclusive(f'{what} without identity: {o!r}')


def h_encode_vote(ctx):
    """the signed bytes as an uninterpreted function of the canonical vote the code built (type, height, round, block id or nil, timestamp, chain id)"""
    ex, st = ctx.ex, ctx.st
    v = ex.deref_val(st, ctx.args[0])
    a = ex.adts.lookup('tendermint::vote::CanonicalVote')
    if not a:
        raise Inconclusive('tendermint::vote::CanonicalVote not in the ADT table')
    g = lambda name, ty='?': ex.deref_val(st, ex.read(st, ('field', v, (None, a['fields'].index(name), ty))))
    vt = g('vote_type'); vt = ex.discr_value(st, vt) if isinstance(vt, Obj) else z3.ZeroExt(64 - vt.size(), vt)
    bid = g('block_id'); ts = g('timestamp'); cid = g('chain_id')
    if not (isinstance(bid, Obj) and isinstance(bid.discr, str)) or not (isinstance(ts, Obj) and ts.discr == 'Some'):
        raise Inconclusive('canonical vote with a symbolic block-id / timestamp option')
    has = bid.discr == 'Some'
    blk = _ident(ex.deref_val(st, bid.fields[('Some', 0)]), 'block id') if has else z3.BitVecVal(0, 256)
    m = MSG(vt, g('height', 'tendermint::block::Height'), g('round', 'tendermint::block::Round'), z3.BoolVal(has), blk, ex.deref_val(st, ts.fields[('Some', 0)]), _ident(cid, 'chain id'))
    o = Obj('Vec<u8>', kind='opaque'); o.attrs['msg'] = m
    return [(None, o)]


def h_vk_verify(ctx):
    ex, st = ctx.ex, ctx.st
    vk, sig, msg = (ex.deref_val(st, x) for x in ctx.args[:3])
    v = SIG_VALID3(vk.attrs['pk'], sig.attrs['ident'], msg.attrs['msg'])
    st.log.append(('verify', vk.attrs['pk'], sig.attrs['ident'], msg.attrs['msg']))
    return [(v, ok(())), (z3.Not(v), (lambda s2: err(Obj('astria_core::crypto::Error', kind='error'))))]


def _plain_bytes(**attrs):
    o = Obj('Vec<u8>'); o.attrs.update(attrs)      # a byte buffer never inspected: `as_slice` / copies keep the attributes
    return o


def _tagged(ty, **attrs):
    o = Obj(ty, kind='opaque'); o.attrs.update(attrs)
    return o


def quorum_engine():
    import re
    R = re.compile
    dv = lambda ctx, i=0: ctx.ex.deref_val(ctx.st, ctx.args[i])
    hooks = [(R(r'^tendermint::validator::Info::power$'), h_power), (R(r'^<tendermint::account::Id as From<tendermint::PublicKey>>::from$'), h_addr_from_pk),
             (R(r'^tendermint::Signature::as_bytes$'), lambda ctx: [(None, ctx.args[0])]),
             (R(r'^(tendermint::)?PublicKey::to_bytes$'), lambda ctx: [(None, _plain_bytes(pk=dv(ctx)))]),
             (R(r'^<([\w:]+::)?VerificationKey as TryFrom<&\[u8\]>>::try_from$'), lambda ctx: [(None, ok(_tagged('VerificationKey', pk=dv(ctx).attrs['pk'])))]),
             (R(r'^<([\w:]+::)?Signature as TryFrom<&\[u8\]>>::try_from$'), lambda ctx: [(None, ok(_tagged('Signature', ident=M.ident(dv(ctx)))))]),
             (R(r'CanonicalVote as From<.*CanonicalVote>>::from$'), lambda ctx: [(None, ctx.args[0])]),
             (R(r'Message>::encode_length_delimited_to_vec$'), h_encode_vote),
             (R(r'^([\w:]+::)?VerificationKey::verify$'), h_vk_verify),
             (R(r'^<tendermint::chain::Id as (std::clone::)?Clone>::clone$|^<tendermint::block::Id as (std::clone::)?Clone>::clone$'), lambda ctx: [(None, dv(ctx))])]
    return loader.load(['astria-conductor'], scalar_types=SCALARS2, hooks=hooks, dep_adts=['tendermint', 'tendermint-rpc'])


def replay_commit(nv, ns, powers, votes):
    """native replay in the crate's own test build: real ed25519 keys and signatures.
    votes[i] = (kind expr (0 absent / 1 block / 2 nil), [address matches validator j], [signature valid over the block precommit for key j], [... over the nil precommit for key j])"""
    from vlib import replay as R

    def rp(model, path):
        pw = [mval(model, p) for p in powers]
        spec = []; counted = set()
        for (kind, which, ok_block, ok_nil) in votes:
            kd = mval(model, kind)
            j = [k for k in range(nv) if mval(model, which[k])]
            if kd not in (1, 2) or not j:
                spec.append('(0u8, 0usize, 0u8)'); continue
            j = j[0]
            vb, vn = bool(mval(model, ok_block[j])), bool(mval(model, ok_nil[j]))
            # a real signature covers one message: prefer the one this kind of entry is meant to carry when the model leaves both open
            signed = (1 if vb else (2 if vn else 0)) if kd == 1 else (2 if vn else (1 if vb else 0))
            spec.append(f'({kd}u8, {j}usize, {signed}u8)')
            if kd == 1 and signed == 1:
                counted.add(j)
        code = open('/verif/replay_templates/c09_quorum.rs').read().replace('VERIF_POWERS', ', '.join(f'{x}u64' for x in pw)).replace('VERIF_VOTES', ', '.join(spec))
        r = R.run_crate_test('astria-conductor', 'crates/astria-conductor/src/celestia/block_verifier.rs', code, 'verif_replay_c09')
        if not r['lines']:
            return {'mode': 'native-crate-test', 'reproduced': None, 'error': r['output'][-1500:]}
        o = r['lines'][-1]
        exact = 3 * sum(pw[j] for j in counted) > 2 * sum(pw)
        return {'mode': 'native-crate-test', 'inputs': {'powers': pw, 'votes (kind, validator, signed message)': spec}, 'observed': o, 'exact_quorum_for_this_block': exact, 'reproduced': bool(o['accepted']) and not exact}
    return rp


@obligation('C09', 'C09-2 ensure_commit_has_quorum: accepted only if distinct validators holding > 2/3 of the power validly signed the precommit for THIS block (votes for nil, absent entries and signatures over anything else do not count)')
def c09_2(run):
    ex = quorum_engine()
    f = ex.find(r'^ensure_commit_has_quorum$')
    shapes = [(1, 0), (1, 1), (2, 1), (2, 2), (3, 3)] if run.tier == 'quick' else [(1, 0), (1, 1), (1, 2), (2, 1), (2, 2), (3, 2), (3, 3), (2, 3)]
    run.bound(validator_set='1..3 validators, arbitrary keys and powers (quick: the shapes listed; thorough: all combinations up to 3 x 3)', signatures='0..3 commit entries, each absent / for the block / for nil, arbitrary addresses and signatures',
              signature_check='verify_vote_signature is executed; ed25519 verification is an uninterpreted predicate of (public key, signature, message) and the signed bytes an uninterpreted function of the canonical vote (type, height, round, block id or nil, timestamp, chain id)')
    run.bound(voting_power='each validator power < 2^59 (CometBFT caps the total at i64::MAX/8)')
    run.assume('validators of the trusted validator-set response have pairwise distinct addresses; account::Id::from(pubkey) is a function of the key')
    a = ex.adts.lookup('tendermint::block::CommitSig')
    if not a:
        raise Inconclusive('tendermint::block::CommitSig not in the ADT table')
    var = {v['name']: v for v in a['variants']}
    n_ok = 0
    for nv, ns in shapes:
        vals, pks, pws = [], [], []
        for j in range(nv):
            pk, pw = z3.BitVec(f'pubkey{j}', 264), z3.BitVec(f'power{j}', 64)
            vals.append(B.struct(ex, 'tendermint::validator::Info', pub_key=pk, power=pw)); pks.append(pk); pws.append(pw)
        vset = B.struct(ex, 'tendermint_rpc::endpoint::validators::Response', block_height=z3.BitVec('set_height', 64), validators=M.new_vec('Vec<Info>', vals))
        sigs, meta = [], []
        for i in range(ns):
            cs = Obj('tendermint::block::CommitSig')
            addr, ts = z3.BitVec(f'vote_addr{i}', 160), z3.BitVec(f'vote_time{i}', 96)
            sig = Obj('tendermint::Signature'); sig.attrs['ident'] = z3.BitVec(f'signature{i}', 256)
            so = Obj('std::option::Option<tendermint::Signature>'); so.fields[('Some', 0)] = sig
            for vn in ('BlockIdFlagCommit', 'BlockIdFlagNil'):
                v = var[vn]
                cs.fields[(vn, v['fields'].index('validator_address'))] = addr
                cs.fields[(vn, v['fields'].index('timestamp'))] = ts
                cs.fields[(vn, v['fields'].index('signature'))] = so
            sigs.append(cs); meta.append((addr, sig.attrs['ident'], ts))
        chain = Obj('tendermint::chain::Id', kind='opaque'); chain.attrs['ident'] = z3.BitVec('chain_id', 256)
        blk = Obj('tendermint::block::Id', kind='opaque'); blk.attrs['ident'] = z3.BitVec('commit_block_id', 256)
        commit = B.struct(ex, 'tendermint::block::Commit', height=z3.BitVec('commit_height', 64), round=z3.BitVec('commit_round', 32), block_id=blk, signatures=M.new_vec('Vec<CommitSig>', sigs))
        st = ex.start(f, [B.cell(commit), B.cell(vset), B.cell(chain)])
        st.pc += [ADDR_OF(pks[a_]) != ADDR_OF(pks[b_]) for a_ in range(nv) for b_ in range(a_ + 1, nv)]
        st.pc += [z3.ULT(x, z3.BitVecVal(1 << 59, 64)) for x in pws]      # CometBFT caps the total voting power at i64::MAX / 8
        PRECOMMIT = z3.BitVecVal(2, 64)
        block_msg = lambda ts: MSG(PRECOMMIT, z3.BitVec('commit_height', 64), z3.BitVec('commit_round', 32), z3.BoolVal(True), z3.BitVec('commit_block_id', 256), ts, z3.BitVec('chain_id', 256))
        nil_msg = lambda ts: MSG(PRECOMMIT, z3.BitVec('commit_height', 64), z3.BitVec('commit_round', 32), z3.BoolVal(False), z3.BitVecVal(0, 256), ts, z3.BitVec('chain_id', 256))
        for i, p in enumerate(run.explore(ex, st, allow_havoc=(r'^Arguments::|fmt::',))):
            lab = f'[{nv} validators, {ns} votes, path {i}]'
            if p.kind != 'return':
                run.prove(f'no panic {lab}', p.pc, z3.BoolVal(False), detail=p.info); continue
            if p.result.discr != 'Ok':
                continue
            n_ok += 1
            c2 = ex.read(p, p.roots['args'][0].loc)
            total = sum((z3.ZeroExt(8, x) for x in pws), z3.BitVecVal(0, 72))
            sig_items = B.fld(ex, p, c2, 'signatures', 'Vec<CommitSig>').attrs['items']
            per_vote = []
            for k, csx in enumerate(sig_items):
                csx = ex.deref_val(p, csx)
                d = ex.discr_value(p, csx)
                is_commit = d == z3.BitVecVal(var['BlockIdFlagCommit']['index'], 64); is_nil = d == z3.BitVecVal(var['BlockIdFlagNil']['index'], 64)
                sox = ex.deref_val(p, csx.fields[('BlockIdFlagCommit', var['BlockIdFlagCommit']['fields'].index('signature'))])
                has_sig = ex.discr_value(p, sox) == z3.BitVecVal(1, 64)
                per_vote.append((is_commit, is_nil, has_sig) + meta[k])
            signed_power = z3.BitVecVal(0, 72)
            for j in range(nv):
                sj = z3.Or(*[z3.And(ic, hs, ad == ADDR_OF(pks[j]), SIG_VALID3(pks[j], sg, block_msg(ts))) for (ic, inl, hs, ad, sg, ts) in per_vote]) if per_vote else z3.BoolVal(False)
                signed_power = signed_power + z3.If(sj, z3.ZeroExt(8, pws[j]), z3.BitVecVal(0, 72))
            rp_votes = [(z3.If(ic, z3.BitVecVal(1, 8), z3.If(inl, z3.BitVecVal(2, 8), z3.BitVecVal(0, 8))), [ad == ADDR_OF(pks[j]) for j in range(nv)],
                         [z3.And(hs, SIG_VALID3(pks[j], sg, block_msg(ts))) for j in range(nv)], [z3.And(hs, SIG_VALID3(pks[j], sg, nil_msg(ts))) for j in range(nv)]) for (ic, inl, hs, ad, sg, ts) in per_vote]
            run.sample({'validators': nv, 'votes': ns, 'path': i})
            run.prove(f'accepted => commit and validator set are for the same height {lab}', p.pc, z3.BitVec('commit_height', 64) == z3.BitVec('set_height', 64))
            run.prove(f'accepted => distinct validators whose signatures verify over the precommit for THIS block hold strictly more than 2/3 of the total power {lab}', p.pc,
                      z3.UGT(signed_power * 3, total * 2), replay=replay_commit(nv, ns, pws, rp_votes))
    if not n_ok:
        raise Inconclusive('vacuity: no accepting path')
    run.require_reached(*run.cur.reach)


# ----------------------------------------------------------------------------------------------------------------- C09-3
@obligation('C09', 'C09-3 BlobVerifier::verify_metadata keeps metadata only if chain id and block hash equal the commit\'s')
def c09_3(run):
    import re
    cm, hm, ok_fetch = z3.Bool('chain_ids_match'), z3.Bool('block_hashes_match'), z3.Bool('verification_meta_available')

    def h_cache(ctx):
        meta = Obj('Arc<VerificationMeta>', kind='arc'); meta.fields[('in', 0)] = Obj('celestia::verify::VerificationMeta')

        def alts(ex, s2, fut):
            return [(ok_fetch, (lambda s3: ok(s3.tr(meta)))), (z3.Not(ok_fetch), (lambda s3: err(Obj('Arc<BoxError>', kind='error'))))]
        return [(None, M.thunk_future(alts))]

    def h_match(which):
        def h(ctx):
            ctx.st.log.append(('compared', which))
            return [(which, ok(())), (z3.Not(which), (lambda s2: err()))]
        return h
    hooks = [(re.compile(r'Cache::<.*>::try_get_with'), h_cache), (re.compile(r'^VerificationMeta::fetch$'), lambda ctx: [(None, Obj('fetch-future'))]),
             (re.compile(r'^ensure_chain_ids_match$'), h_match(cm)), (re.compile(r'^ensure_block_hashes_match$'), h_match(hm)),
             (re.compile(r'SubmittedMetadata::(height|cometbft_chain_id|block_hash)$|chain::Id::as_str$|Hash::as_bytes$|<RateLimitedVerificationClient as Clone>::clone'), lambda ctx: [(None, Obj(ctx.ret_ty))])]
    ex = loader.load(['astria-conductor'], scalar_types=SCALARS2, hooks=hooks, dep_adts=['tendermint'])
    cands = [n for n in ex.fns if n.endswith('::verify_metadata') and 'closure' not in n and ex.impl_self(n) == (None, 'BlobVerifier')]
    if len(cands) != 1:
        raise Inconclusive(f'BlobVerifier::verify_metadata not found: {cands}')
    run.bound(inputs='arbitrary metadata; the cached commit lookup is an oracle (available or not); the two comparisons are oracles (symbolic Bools)', unroll='loop-free')
    run.assume('string / byte-slice equality inside ensure_chain_ids_match / ensure_block_hashes_match is abstracted by one Bool each')
    me = Obj('Arc<BlobVerifier>', kind='arc'); me.fields[('in', 0)] = Obj('celestia::verify::BlobVerifier')
    md = Obj('astria_core::sequencerblock::v1::SubmittedMetadata'); md.attrs['tag'] = 'input'
    st = ex.start(cands[0], [me, md])
    kept = 0
    for i, p in enumerate(run.explore(ex, st, poll=True, allow_havoc=(r'^Arguments::|fmt::',))):
        if p.kind != 'return':
            run.prove(f'no panic [path {i}]', p.pc, z3.BoolVal(False), detail=p.info); continue
        r = p.result.fields[('Ready', 0)]
        run.sample({'path': i, 'result': r.discr, 'compared': [e[1].decl().name() for e in p.log if e[0] == 'compared']})
        if r.discr == 'Some':
            kept += 1
            run.prove(f'metadata is kept only if the commit was available and chain id and block hash both match it [path {i}]', p.pc, z3.And(ok_fetch, cm, hm))
    if not kept:
        raise Inconclusive('vacuity: no path keeps the metadata')
    run.require_reached(*run.cur.reach)


# ----------------------------------------------------------------------------------------------------------------- C09-4
PROOF_OK = z3.Function('merkle_audit_ok', z3.BitVecSort(256), z3.BitVecSort(256), z3.BitVecSort(256), z3.BitVecSort(256), z3.BoolSort())   # (proof, root, rollup id, tx root)
TXROOT = z3.Function('merkle_root_of_transactions', z3.BitVecSort(256), z3.BitVecSort(256))


def reconstruct_hooks():
    def attr(name, as_ref=True):
        def h(ctx):
            o = ctx.ex.deref_val(ctx.st, ctx.args[0])
            v = o.attrs[name]
            return [(None, B.cell(v) if as_ref else v)]
        return h

    def h_contains(ctx):
        o = ctx.ex.deref_val(ctx.st, ctx.args[0])
        return [(None, o.attrs['lists_rollup'])]

    def h_md_unchecked(ctx):
        o = ctx.ex.deref_val(ctx.st, ctx.args[0])
        u = B.struct(ctx.ex, 'UncheckedSubmittedMetadata', block_hash=o.attrs['block_hash'], header=o.attrs['header'])
        return [(None, u)]

    def h_rd_unchecked(ctx):
        o = ctx.ex.deref_val(ctx.st, ctx.args[0])
        u = B.struct(ctx.ex, 'UncheckedSubmittedRollupData', sequencer_block_hash=o.attrs['sequencer_block_hash'], rollup_id=o.attrs['rollup_id'], transactions=o.attrs['transactions'], proof=o.attrs['proof'])
        return [(None, u)]

    def h_audit(ctx):
        a = Obj('merkle::Audit'); a.attrs['proof'] = ctx.ex.deref_val(ctx.st, ctx.args[0]); a.attrs['writes'] = []
        return [(None, a)]

    def h_with_root(ctx):
        a = ctx.ex.deref_val(ctx.st, ctx.args[0]); a.attrs['root'] = ctx.ex.deref_val(ctx.st, ctx.args[1])
        return [(None, a)]

    def h_same(ctx):
        return [(None, ctx.ex.deref_val(ctx.st, ctx.args[0]))]

    def h_write(ctx):
        a = ctx.ex.deref_val(ctx.st, ctx.args[0])
        v = ctx.ex.deref_val(ctx.st, ctx.args[1])
        a.attrs['writes'] = a.attrs['writes'] + [v]
        return [(None, a)]

    def h_from_leaves(ctx):
        v = ctx.ex.deref_val(ctx.st, ctx.args[0])
        t = Obj('merkle::Tree'); t.attrs['root'] = TXROOT(M.ident(v))
        return [(None, t)]

    def h_perform(ctx):
        a = ctx.ex.deref_val(ctx.st, ctx.args[0])
        w = a.attrs['writes']
        if len(w) != 2 or not all(z3.is_bv(x) and x.size() == 256 for x in w) or 'root' not in a.attrs:
            ctx.st.log.append(('audit-malformed', len(w)))
            r = z3.Bool(f'malformed_audit_{len(ctx.st.log)}')
            return [(None, r)]
        r = PROOF_OK(M.ident(a.attrs['proof']), a.attrs['root'], w[0], w[1])
        ctx.st.log.append(('audit', M.ident(a.attrs['proof']), a.attrs['root'], w[0], w[1], r))
        return [(None, r)]
    R = re.compile
    return [(R(r'SubmittedRollupData::sequencer_block_hash$'), attr('sequencer_block_hash')), (R(r'SubmittedRollupData::proof$'), attr('proof')), (R(r'SubmittedRollupData::rollup_id$'), attr('rollup_id')),
            (R(r'SubmittedRollupData::transactions$'), attr('transactions')), (R(r'SubmittedRollupData::into_unchecked$'), h_rd_unchecked),
            (R(r'SubmittedMetadata::rollup_transactions_root$'), attr('root')), (R(r'SubmittedMetadata::block_hash$'), attr('block_hash')), (R(r'SubmittedMetadata::contains_rollup_id$'), h_contains),
            (R(r'SubmittedMetadata::extended_commit_info$'), lambda ctx: [(None, none())]), (R(r'SubmittedMetadata::into_unchecked$'), h_md_unchecked),
            (R(r'RollupId::as_bytes$'), h_same), (R(r'(^|::)Proof::audit$'), h_audit), (R(r'Audit::<.*>::with_root$|Audit::with_root$'), h_with_root),
            (R(r'Audit::<.*>::with_leaf_builder$|Audit::with_leaf_builder$'), h_same), (R(r'LeafBuilder::<.*>::write$|LeafBuilder::write$'), h_write),
            (R(r'LeafBuilder::<.*>::finish_leaf$|LeafBuilder::finish_leaf$'), h_same), (R(r'Audit::<.*>::perform$|Audit::perform$'), h_perform),
            (R(r'Tree::from_leaves(::<.*>)?$'), h_from_leaves), (R(r'(^|::)Tree::root$'), attr('root', as_ref=False)),
            (R(r'^<\[u8; 32\] as AsRef<\[u8\]>>::as_ref$|^<&\[u8; 32\] as AsRef|as Deref>::deref$'), h_same)]


@obligation('C09', 'C09-4 reconstruct_blocks_from_verified_blobs: rollup data is attached only to the header with its block hash and only under a passing Merkle audit of (rollup id, root of its transactions) against that header\'s rollup-data root')
def c09_4(run):
    sc = dict(SCALARS2, **{'astria_core::sequencerblock::v1::block::Hash': 256, 'block::Hash': 256, 'astria_core::primitive::v1::RollupId': 256, 'RollupId': 256})
    ex = loader.load(['astria-conductor', 'astria-core'], scalar_types=sc, hooks=reconstruct_hooks(), dep_adts=['tendermint'])
    f = ex.find(r'^(celestia::reconstruct::)?reconstruct_blocks_from_verified_blobs$')
    shapes = [(h, r) for h in (0, 1, 2) for r in (0, 1, 2)]
    run.bound(blobs='0..2 verified header blobs (distinct block hashes = map keys) x 0..2 rollup blobs, arbitrary hashes / roots / ids / proofs', merkle='astria-merkle audit and Tree::root are oracles: uninterpreted predicate / function of their inputs (decided under C08)')
    run.assume('header blobs are keyed by their own block hash (established by verify_metadata / the HashMap construction in verify.rs)')
    n_with = n_empty = 0
    for nh, nr in shapes:
        hdrs = []
        for i in range(nh):
            h = Obj('astria_core::sequencerblock::v1::SubmittedMetadata')
            hobj = Obj('astria_core::sequencerblock::v1::block::SequencerBlockHeader'); hobj.attrs['tag'] = f'hdr{i}'
            h.attrs.update(block_hash=z3.BitVec(f'header{i}_block_hash', 256), root=z3.BitVec(f'header{i}_rollup_root', 256), lists_rollup=z3.Bool(f'header{i}_lists_rollup'), header=hobj, tag=f'md{i}')
            hdrs.append(h)
        rds = []
        for j in range(nr):
            r = Obj('astria_core::sequencerblock::v1::SubmittedRollupData')
            txs = M.new_vec('Vec<Bytes>', []); txs.attrs['tag'] = f'txs{j}'; txs.attrs['opaque'] = True; txs.attrs['ident'] = z3.BitVec(f'rollup{j}_transactions', 256)
            proof = Obj('astria_merkle::audit::Proof'); proof.attrs['ident'] = z3.BitVec(f'rollup{j}_proof', 256)
            r.attrs.update(sequencer_block_hash=z3.BitVec(f'rollup{j}_block_hash', 256), rollup_id=z3.BitVec(f'rollup{j}_id', 256), transactions=txs, proof=proof, tag=f'rd{j}')
            rds.append(r)
        vb = B.struct(ex, 'VerifiedBlobs', celestia_height=z3.BitVec('celestia_height', 64), header_blobs=M.new_map('HashMap<block::Hash, SubmittedMetadata>', [(h.attrs['block_hash'], h) for h in hdrs]),
                      rollup_blobs=M.new_vec('Vec<SubmittedRollupData>', rds))
        st = ex.start(f, [vb, z3.BitVec('target_rollup_id', 256)])
        st.pc += [hdrs[a].attrs['block_hash'] != hdrs[b].attrs['block_hash'] for a in range(nh) for b in range(a + 1, nh)]
        for i, p in enumerate(run.explore(ex, st, allow_havoc=(r'^Arguments::|fmt::',))):
            lab = f'[{nh} headers, {nr} rollup blobs, path {i}]'
            if p.kind != 'return':
                run.prove(f'no panic {lab}', p.pc, z3.BoolVal(False), detail=p.info); continue
            blocks = [ex.deref_val(p, b) for b in p.result.attrs['items']]
            audits = [e for e in p.log if e[0] == 'audit']
            claim = [z3.BoolVal(not any(e[0] == 'audit-malformed' for e in p.log))]
            used = []
            desc = []
            for b in blocks:
                hd = B.fld(ex, p, b, 'header', 'SequencerBlockHeader'); txs = B.fld(ex, p, b, 'transactions', 'Vec<Bytes>'); bh = B.fld(ex, p, b, 'block_hash', 'block::Hash')
                hi = int(hd.attrs['tag'][3:]) if isinstance(hd, Obj) and 'tag' in hd.attrs else None
                tj = int(txs.attrs['tag'][3:]) if isinstance(txs, Obj) and 'tag' in txs.attrs else None
                desc.append((hi, tj))
                if hi is None:
                    claim.append(z3.BoolVal(False)); continue
                used.append(hi)
                H = hdrs[hi].attrs
                claim.append(bh == H['block_hash'])
                if tj is not None:
                    n_with += 1
                    Rr = rds[tj].attrs
                    claim += [Rr['sequencer_block_hash'] == H['block_hash'],
                              PROOF_OK(Rr['proof'].attrs['ident'], H['root'], Rr['rollup_id'], TXROOT(Rr['transactions'].attrs['ident']))]
                else:
                    n_empty += 1
                    claim += [z3.BoolVal(len(txs.attrs.get('items', [1])) == 0), z3.Not(H['lists_rollup'])]
            claim.append(z3.BoolVal(len(set(used)) == len(used)))
            run.sample({'headers': nh, 'rollups': nr, 'path': i, 'blocks': desc, 'audits': len(audits)})
            run.prove(f'every reconstructed block carries the header stored under its block hash; rollup transactions only with the same block hash and a passing audit of (rollup id, transactions root) against that header\'s root; an empty block only for a header that does not list the rollup; each header used once {lab}',
                      p.pc, z3.And(*claim))
    if not n_with or not n_empty:
        raise Inconclusive(f'vacuity: blocks with data {n_with}, empty blocks {n_empty}')
    run.require_reached(*run.cur.reach)


# ----------------------------------------------------------------------------------------------------------------- C09-5
@obligation('C09', 'C09-5 decode_raw_blobs never fails: a blob from another namespace, an undecodable blob or a list with one ill-formed entry is dropped as a whole; everything else is kept in order')
def c09_5(run):
    def h_decompress(ctx):
        b = ctx.ex.deref_val(ctx.st, ctx.args[0])
        okv = b.attrs['decompress_ok']
        return [(okv, (lambda s2: ok(s2.tr(b)))), (z3.Not(okv), (lambda s2: err(Obj('std::io::Error', kind='error'))))]

    def h_decode(ctx):
        b = ctx.ex.deref_val(ctx.st, ctx.args[0])
        okv = b.attrs['decode_ok']

        def mk(s2):
            b2 = s2.tr(b)
            lst = Obj(ctx.ret_ty and re.search(r'Result<(.*), ', ctx.ret_ty).group(1) or 'List')
            a = ctx.ex.adts.lookup(lst.ty)
            lst.fields[(None, a['fields'].index('entries'))] = M.new_vec('Vec', list(b2.attrs['entries']))
            return ok(lst)
        return [(okv, mk), (z3.Not(okv), (lambda s2: err(Obj('prost::DecodeError', kind='error'))))]

    def h_try_from_raw(ctx):
        raw = ctx.ex.deref_val(ctx.st, ctx.args[0])
        okv = raw.attrs['wellformed']

        def mk(s2):
            o = Obj(re.search(r'Result<(.*), ', ctx.ret_ty).group(1), kind='opaque'); o.attrs['tag'] = s2.tr(raw).attrs['tag']
            return ok(o)
        return [(okv, mk), (z3.Not(okv), (lambda s2: err(Obj('Error', kind='error'))))]
    same = lambda ctx: [(None, ctx.ex.deref_val(ctx.st, ctx.args[0]))]
    hooks = [(re.compile(r'^(astria_core::brotli::)?decompress_bytes$'), h_decompress), (re.compile(r'(SubmittedMetadataList|SubmittedRollupDataList) as (prost::)?Message>::decode(::<.*>)?$'), h_decode),
             (re.compile(r'(SubmittedMetadata|SubmittedRollupData)::try_from_raw$'), h_try_from_raw),
             (re.compile(r'^<([\w:]+::)?Namespace as PartialEq>::eq$'), lambda ctx: [(None, ctx.ex.deref_val(ctx.st, ctx.args[0]) == ctx.ex.deref_val(ctx.st, ctx.args[1]))]),
             (re.compile(r'^<Vec<u8> as Deref>::deref$|^<(bytes::)?Bytes as Deref>::deref$|as AsRef<\[u8\]>>::as_ref$'), same), (re.compile(r'^(telemetry::display::)?base64'), lambda ctx: [(None, Obj('b64'))]),
             (re.compile(r'Result::<.*>::inspect_err::<'), same), (re.compile(r'::full_name$'), lambda ctx: [(None, Obj('String', kind='opaque'))])]
    sc = dict(SCALARS2, **{'celestia_types::nmt::Namespace': 232, 'nmt::Namespace': 232, 'Namespace': 232, 'astria_core::celestia::Namespace': 232})
    ex = loader.load(['astria-conductor', 'astria-core'], scalar_types=sc, hooks=hooks, dep_adts=['tendermint'])
    f = ex.find(r'^(celestia::convert::)?decode_raw_blobs$')
    shapes = [((), ()), ((1,), ()), ((2,), ()), ((1, 1), ()), ((), (1,)), ((), (2,)), ((1,), (1,)), ((0,), (1, 2))]
    run.bound(blobs=f'(header blobs, rollup blobs) as lists of entries per blob: {shapes}; namespaces arbitrary', decoding='brotli decompression, protobuf decoding and try_from_raw are oracles that may fail independently')
    n_done = 0
    for hs, rs in shapes:
        sns, rns = z3.BitVec('sequencer_namespace', 232), z3.BitVec('rollup_namespace', 232)
        def mk_blobs(kind, spec):
            out = []
            for bi, n in enumerate(spec):
                data = Obj('Vec<u8>', kind='opaque')
                entries = []
                for ei in range(n):
                    r_ = Obj('raw-entry', kind='opaque'); r_.attrs['tag'] = f'{kind}{bi}e{ei}'; r_.attrs['wellformed'] = z3.Bool(f'{kind}{bi}e{ei}_wellformed')
                    entries.append(r_)
                data.attrs.update(decompress_ok=z3.Bool(f'{kind}{bi}_decompress_ok'), decode_ok=z3.Bool(f'{kind}{bi}_decode_ok'), entries=entries)
                # celestia_types::Blob is not in the ADT tables: fields by declaration index (0 = namespace, 1 = data), as the MIR accesses them
                blob = Obj('celestia_types::blob::Blob-verif'); blob.fields[(None, 0)] = z3.BitVec(f'{kind}{bi}_namespace', 232); blob.fields[(None, 1)] = data
                out.append((blob, data, entries, z3.BitVec(f'{kind}{bi}_namespace', 232)))
            return out
        hb, rb = mk_blobs('h', hs), mk_blobs('r', rs)
        raw = B.struct(ex, 'RawBlobs', celestia_height=z3.BitVec('celestia_height', 64), header_blobs=M.new_vec('Vec<Blob>', [b[0] for b in hb]), rollup_blobs=M.new_vec('Vec<Blob>', [b[0] for b in rb]))
        st = ex.start(f, [raw, rns, sns])
        for i, p in enumerate(run.explore(ex, st, allow_havoc=(r'^Arguments::|fmt::',))):
            lab = f'[headers {hs}, rollup {rs}, path {i}]'
            if p.kind != 'return':
                run.prove(f'no panic {lab}', p.pc, z3.BoolVal(False), detail=p.info); continue
            n_done += 1
            res = ex.deref_val(p, p.result)
            md = [ex.deref_val(p, x).attrs.get('tag') for x in B.fld(ex, p, res, 'metadata', 'Vec').attrs['items']]
            rd = [ex.deref_val(p, x).attrs.get('tag') for x in B.fld(ex, p, res, 'rollup_data', 'Vec').attrs['items']]
            run.sample({'headers': list(hs), 'rollup': list(rs), 'path': i, 'metadata': md, 'rollup_data': rd})
            def expect(blobs, ns, got):
                # got must be the concatenation, in blob order, of the entries of the blobs that pass every check
                conds = []; pos = 0
                def rec(bi, rest):
                    if bi == len(blobs):
                        return z3.BoolVal(rest == [])
                    blob, data, entries, bns = blobs[bi]
                    keep = z3.And(bns == ns, data.attrs['decompress_ok'], data.attrs['decode_ok'], *[e.attrs['wellformed'] for e in entries])
                    tags = [e.attrs['tag'] for e in entries]
                    kept = rec(bi + 1, rest[len(tags):]) if rest[:len(tags)] == tags else z3.BoolVal(False)
                    dropped = rec(bi + 1, rest)
                    return z3.Or(z3.And(keep, kept), z3.And(z3.Not(keep), dropped))
                return rec(0, list(got))
            run.prove(f'kept = exactly the entries of the blobs that are in the right namespace, decompress, decode and are entirely well-formed, in order; nothing else; no error {lab}', p.pc,
                      z3.And(expect(hb, sns, md), expect(rb, rns, rd), B.fld(ex, p, res, 'celestia_height', 'u64') == z3.BitVec('celestia_height', 64)))
    if not n_done:
        raise Inconclusive('vacuity')
    run.require_reached(*run.cur.reach)


# ----------------------------------------------------------------------------------------------------------------- C09-6
@obligation('C09', 'C09-6 verify_metadata (the task fan-out): a header blob reaches reconstruction only if BlobVerifier::verify_metadata returned it, it is not below the next expected firm height, and it is filed under its own block hash; a verified blob is lost only to a duplicate of the same hash')
def c09_6(run):
    import re
    R = re.compile
    cfg = {}

    def h_into_parts(ctx):
        return [(None, (z3.BitVec('celestia_height', 64), M.new_vec('Vec<SubmittedMetadata>', list(cfg['blobs'])), Obj('Vec<SubmittedRollupData>', kind='opaque')))]

    def h_attr(name, ref=False):
        def h(ctx):
            o = ctx.ex.deref_val(ctx.st, ctx.args[0])
            v = o.attrs[name]
            return [(None, B.cell(v) if ref else v)]
        return h

    def h_jm_new(ctx):
        o = Obj('JoinMap', kind='opaque'); o.attrs['tasks'] = []
        return [(None, o)]

    def h_spawn(ctx):
        jm = ctx.ex.deref_val(ctx.st, ctx.args[0])
        jm.attrs['tasks'] = jm.attrs['tasks'] + [(ctx.args[1], ctx.args[2])]
        ctx.st.log.append(('spawn', ctx.ex.deref_val(ctx.st, ctx.args[2]).attrs.get('blob_idx')))
        return [(None, ())]

    def h_verify(ctx):
        blob = ctx.ex.deref_val(ctx.st, ctx.args[1])
        f = Obj('verify-future', kind='opaque'); f.attrs['blob_idx'] = blob.attrs['idx']; f.attrs['blob'] = blob
        return [(None, f)]

    def h_join_next(ctx):
        def alts(ex, s2, fut):
            jm = ex.deref_val(s2, s2.tr(fut.attrs['jm']))
            if not jm.attrs['tasks']:
                return [(None, none())]
            key, vf = jm.attrs['tasks'][0]
            vf = ex.deref_val(s2, vf); i = vf.attrs['blob_idx']
            oc = z3.BitVec(f'verification_outcome_{i}', 8)       # 0 verified, 1 rejected (None), 2 task cancelled
            s2.pc.append(z3.ULE(oc, 2))

            def pop(s3):
                j3 = ex.deref_val(s3, s3.tr(fut.attrs['jm'])); j3.attrs['tasks'] = j3.attrs['tasks'][1:]
                k3, v3 = s3.tr(key), ex.deref_val(s3, s3.tr(vf))
                return k3, v3
            def verified(s3):
                k3, v3 = pop(s3); return some((k3, ok(some(v3.attrs['blob']))))
            def rejected(s3):
                k3, v3 = pop(s3); return some((k3, ok(none())))
            def cancelled(s3):
                k3, v3 = pop(s3); return some((k3, err(Obj('JoinError', kind='error'))))
            return [(oc == 0, verified), (oc == 1, rejected), (oc == 2, cancelled)]
        return [(None, M.thunk_future(alts, jm=ctx.args[0]))]
    hooks = [(R(r'ConvertedBlobs::into_parts$'), h_into_parts), (R(r'SubmittedMetadata::height$'), h_attr('height')), (R(r'SubmittedMetadata::block_hash$'), h_attr('block_hash', True)),
             (R(r'next_expected_firm_sequencer_height$'), lambda ctx: [(None, z3.BitVec('next_expected_firm_height', 64))]),
             (R(r'(^|::)Height::value$'), lambda ctx: [(None, ctx.ex.deref_val(ctx.st, ctx.args[0]))]),
             (R(r'JoinMap::<.*>::new$|JoinMap::new$'), h_jm_new), (R(r'JoinMap::<.*>::spawn|JoinMap::spawn'), h_spawn), (R(r'JoinMap::<.*>::join_next$|JoinMap::join_next$'), h_join_next),
             (R(r'BlobVerifier::verify_metadata$'), h_verify), (R(r'^<Arc<.*> as (std::clone::)?Clone>::clone$'), lambda ctx: [(None, ctx.ex.deref_val(ctx.st, ctx.args[0]))])]
    ex = loader.load(['astria-conductor'], scalar_types=dict(SCALARS2, **{'sequencerblock::v1::block::Hash': 256, 'block::Hash': 256, 'astria_core::sequencerblock::v1::block::Hash': 256}), hooks=hooks, dep_adts=['tendermint'])
    cands = [n for n in ex.fns if re.search(r'(^|::)verify_metadata$', n) and 'closure' not in n and 'impl at' not in n]
    if len(cands) != 1:
        raise Inconclusive(f'verify::verify_metadata not found: {cands}')
    K = 2 if run.tier == 'quick' else 3
    run.bound(blobs=f'0..{K} header blobs with symbolic heights and block hashes (equal hashes allowed)', tasks='tokio JoinMap as a FIFO list of tasks; each verification task ends verified / rejected / cancelled (oracle; its own logic is C09-3)')
    n_paths = 0
    for k in range(K + 1):
        blobs = []
        for i in range(k):
            b = Obj('astria_core::sequencerblock::v1::SubmittedMetadata', kind='opaque'); b.attrs.update(idx=i, height=z3.BitVec(f'blob_height_{i}', 64), block_hash=z3.BitVec(f'blob_hash_{i}', 256))
            blobs.append(b)
        cfg['blobs'] = blobs
        nxt = z3.BitVec('next_expected_firm_height', 64)
        st = ex.start(cands[0], [Obj('Arc<BlobVerifier>', kind='arc'), Obj('ConvertedBlobs', kind='opaque'), Obj('StateReceiver', kind='opaque')])
        for pi, p in enumerate(run.explore(ex, st, poll=True, allow_havoc=(r'^Arguments::|fmt::',))):
            lab = f'[{k} blobs, path {pi}]'
            if p.kind != 'return':
                run.prove(f'no panic {lab}', p.pc, z3.BoolVal(False), detail=p.info); continue
            n_paths += 1
            res = ex.deref_val(p, p.result.fields[('Ready', 0)])
            ents = ex.deref_val(p, B.fld(ex, p, res, 'header_blobs', 'HashMap')).attrs['items']
            ocs = [z3.BitVec(f'verification_outcome_{i}', 8) for i in range(k)]
            spawned = [e[1] for e in p.log if e[0] == 'spawn']
            run.sample({'blobs': k, 'path': pi, 'kept': len(ents), 'spawned': spawned})
            for kk, v in ents:
                v = ex.deref_val(p, v); i = v.attrs['idx']
                run.prove(f'a kept header blob was verified, is not below the next expected firm height, and is filed under its own block hash {lab}', p.pc,
                          z3.And(z3.BoolVal(i in spawned), ocs[i] == 0, z3.UGE(v.attrs['height'], nxt), kk == v.attrs['block_hash']))
            x = z3.BitVec('any_hash', 256)
            for i in range(k):
                b = blobs[i]
                here = z3.Or(*[kk == b.attrs['block_hash'] for kk, _ in ents]) if ents else z3.BoolVal(False)
                run.prove(f'a verified blob at or above the next expected height is kept, or another verified blob with the same hash is [{i}] {lab}', p.pc,
                          z3.Implies(z3.And(z3.UGE(b.attrs['height'], nxt), z3.BoolVal(i in spawned), ocs[i] == 0 if i in spawned else z3.BoolVal(False)), here))
                run.prove(f'verification is started exactly for the blobs at or above the next expected firm height [{i}] {lab}', p.pc, z3.UGE(b.attrs['height'], nxt) == z3.BoolVal(i in spawned))
    if not n_paths:
        raise Inconclusive('vacuity')
    run.require_reached(*run.cur.reach)
