"""Shared obligation: checked-action constructors establish what the execute obligations assume about `self` (registered as C02-N and C18-1c)."""
import re as _re
import z3
from vlib import actions as A, build as B
from mirsym.engine import Obj, Inconclusive, ok, err, some, none
from mirsym import models as M
from vlib.seqworld import initial_world as initial_world_


def constructors_obligation(run):
    """every CheckedX::new(action, tx_signer, .., state): Ok(self) => self carries exactly the given signer and the given action; for Ics20Withdrawal also the
    derived withdrawal address (the bridge address when one is given, otherwise the signer) and the bridge pair."""
    ex, W = A.ics20_engine()
    extra = [(_re.compile(r'StateReadExt>::get_ibc_compat_prefix$'), lambda ctx: [(None, M.thunk_future(lambda ex_, s2, fut: [(z3.Bool('compat_prefix_ok'), (lambda s3: ok(Obj('String', kind='opaque')))), (z3.Not(z3.Bool('compat_prefix_ok')), (lambda s3: err()))]))])]
    extra.append((_re.compile(r'(^|::)create_ibc_packet_from_withdrawal(::<.*>)?$'), lambda ctx: [(None, M.thunk_future(lambda ex_, s2, fut: [(z3.Bool('packet_ok'), (lambda s3: ok(Obj('Packet', kind='opaque')))), (z3.Not(z3.Bool('packet_ok')), (lambda s3: err()))]))]))
    ex.hooks = extra + ex.hooks
    run.bound(actions='every checked action whose constructor the engine can execute (listed in the samples); arbitrary action payload (containers with exactly one element), arbitrary signer, arbitrary chain state',
              ibc='IbcRelay and RecoverIbcClient constructors are not included (penumbra handlers); their gates are decided at execute time (C02-IbcRelay / C02-RecoverIbcClient)')
    done = []; skipped = []
    variants = []
    for name in A.ACTIONS:
        variants += [(name, None)] if name != 'Ics20Withdrawal' else [(name, True), (name, False)]
    for name, with_bridge in variants:
        spec = A.ACTIONS[name]
        if name in ('IbcRelay', 'RecoverIbcClient'):
            continue
        f = ex.find(rf'(^|::){spec["mod"]}::<impl at [^>]*>::new$')
        fn = ex.fns[f].parse()
        ex.const_params = {k: z3.BoolVal(v) for k, v in spec.get('consts', {}).items()}
        ex.lazy_vec_len = 1
        signer = z3.BitVec('given_signer', 160)
        args = []; act = None
        for i, pt in enumerate(fn.ptypes):
            pt = pt.strip()
            if i == 0:
                act = Obj(pt)
                if name == 'Ics20Withdrawal':
                    # explicit addresses (shared by every copy the constructor makes): the bridge address, when given, and the return address
                    def mk_addr(nm):
                        # both views of an address the engine uses: the `bytes` field (real Address::bytes from MIR) and the identity attribute (state-model hooks)
                        o = Obj('astria_core::primitive::v1::Address'); bv = z3.BitVec(nm, 160)
                        a_ = ex.adts.lookup('astria_core_address::Address')
                        if not a_ or 'bytes' not in a_['fields']:
                            raise Inconclusive('astria_core_address::Address { bytes, .. } not found (refactored?)')
                        o.fields[(None, a_['fields'].index('bytes'))] = bv; o.attrs['addr160'] = bv
                        return o
                    act = B.struct(ex, pt, bridge_address=(some(mk_addr('bridge_address_bytes')) if with_bridge else none()), return_address=mk_addr('return_address_bytes'))
                args.append(act)
            elif pt == '[u8; 20]':
                args.append(signer)
            elif pt == 'S' or i == len(fn.ptypes) - 1:
                args.append(Obj('S', kind='cell'))
            else:
                args.append(ex.fresh(None, pt, 'arg'))
        w0 = initial_world_()
        world = dict(w0, block_fees=[], cached_deposits=[], events=[], validator_updates=[], all_upgrades_active=True)
        st = ex.start(f, args, world=world)
        try:
            paths = run.explore(ex, st, poll=True, allow_havoc=(r'^Arguments::|fmt::', r'String::(len|is_empty|new)$', r'PortId::transfer', r'serde_json::', r'to_vec$', r'Clone>::clone$', r'Timestamp|Height::new|to_string$|IbcHeight', r'as Into<Cow<', r'ChannelId|Packet|Sequence|Memo|Ics20|ibc_types|penumbra|prost|FungibleTokenPacketData'))
        except Inconclusive as e:
            skipped.append(f'{name}: {str(e)[:120]}'); continue
        n_ok = 0
        for i, p in enumerate(paths):
            lab = f'[{name}::new, path {i}]'
            if p.kind != 'return':
                run.prove(f'no panic {lab}', p.pc, z3.BoolVal(False), detail=p.info); continue
            kind, r = A.poll_result(p)
            if kind != 'Ok':
                continue
            n_ok += 1
            me = ex.deref_val(p, r.fields[('Ok', 0)])
            run.prove(f'the constructed action carries exactly the signer it was given {lab}', p.pc, A.signer_of(ex, W, p, me) == signer)
            a = ex.adts.lookup(me.ty)
            if a and 'action' in a['fields']:
                stored = ex.deref_val(p, B.fld(ex, p, me, 'action'))
                run.prove(f'the constructed action carries exactly the action it was given {lab}', p.pc, z3.BoolVal(stored is ex.deref_val(p, p.tr(act)) or stored is act or _same_obj(ex, p, stored, act)))
            if name == 'Ics20Withdrawal':
                wa = B.fld(ex, p, me, 'withdrawal_address', '[u8; 20]')
                pair = ex.deref_val(p, B.fld(ex, p, me, 'bridge_address_and_rollup_withdrawal'))
                if with_bridge:
                    baddr = z3.BitVec('bridge_address_bytes', 160)
                    run.prove(f'on behalf of a bridge: the debited account is that bridge account and the bridge pair names it {lab}', p.pc,
                              z3.And(wa == baddr, z3.BoolVal(pair.discr == 'Some'), (W.addr(p, pair.fields[('Some', 0)][0]) == baddr) if pair.discr == 'Some' else z3.BoolVal(False)))
                else:
                    run.prove(f'plain withdrawal: the debited account is the signer and there is no bridge pair {lab}', p.pc, z3.And(wa == signer, z3.BoolVal(pair.discr == 'None')))
        run.sample({'action': name, 'paths': len(paths), 'ok_paths': n_ok})
        if n_ok:
            done.append(name if with_bridge is None else f'{name}[{"bridge" if with_bridge else "plain"}]')
        else:
            skipped.append(f'{name}: no successful construction path')
    ex.lazy_vec_len = None
    run.note('constructors decided: ' + ', '.join(done)); run.note('constructors not decided: ' + '; '.join(skipped))
    if len(done) < 12 or 'Ics20Withdrawal[bridge]' not in done or 'Ics20Withdrawal[plain]' not in done:
        raise Inconclusive(f'only {len(done)} constructors decided: {done}; skipped: {skipped}')
    run.require_reached(*run.cur.reach)


def _same_obj(ex, p, a, b):
    return isinstance(a, Obj) and isinstance(b, Obj) and a.lz == b.lz




def dispatch_obligation(run):
    """convert_actions + CheckedAction::new_*: every unchecked action is handed to the constructor of ITS OWN kind, exactly once, with the transaction's signer
    (and, for the deposit-producing kinds, the transaction id and the action's position in the transaction)"""
    from vlib import loader
    from vlib.seqworld import SCALARS
    VARIANTS = {'RollupDataSubmission': 'RollupDataSubmission', 'Transfer': 'Transfer', 'ValidatorUpdate': 'ValidatorUpdate', 'SudoAddressChange': 'SudoAddressChange', 'Ibc': 'IbcRelay',
                'IbcSudoChange': 'IbcSudoChange', 'Ics20Withdrawal': 'Ics20Withdrawal', 'IbcRelayerChange': 'IbcRelayerChange', 'FeeAssetChange': 'FeeAssetChange',
                'InitBridgeAccount': 'InitBridgeAccount', 'BridgeLock': 'BridgeLock', 'BridgeUnlock': 'BridgeUnlock', 'BridgeSudoChange': 'BridgeSudoChange', 'BridgeTransfer': 'BridgeTransfer',
                'FeeChange': 'FeeChange', 'RecoverIbcClient': 'RecoverIbcClient', 'CurrencyPairsChange': 'CurrencyPairsChange', 'MarketsChange': 'MarketsChange'}

    def h_ctor(ctx):
        m_ = _re.search(r'Checked(\w+?)(Impl)?(::<[^>]*>)?::new(::<.*>)?$', ctx.callee)
        kind = m_.group(1)
        args = [ctx.ex.deref_val(ctx.st, a) for a in ctx.args]
        ctx.st.log.append(('ctor', kind, args))
        res = Obj('Checked' + kind, kind='opaque'); res.attrs['ident'] = ('checked', kind, args[0].attrs.get('ident') if isinstance(args[0], Obj) else None)
        okv = z3.Bool(f'ctor_ok_{sum(1 for e in ctx.st.log if e[0] == "ctor")}')
        alts = [(okv, (lambda s: ok(s.tr(res) if False else res))), (z3.Not(okv), (lambda s: err(Obj('eyre::Report', kind='error'))))]
        if 'async' in ctx.ret_ty or 'Future' in ctx.ret_ty:
            return [(None, M.thunk_future(lambda ex_, s2, fut: alts))]
        return alts
    hooks = [(_re.compile(r'^(?![^<]*Error)(checked_actions::[\w:]*::)?Checked(?!Action\b)(?!Transaction\b)\w+?(Impl)?(::<[^>]*>)?::new(::<.*>)?$'), h_ctor),
             (_re.compile(r'ActionName>::name$|::name$'), lambda ctx: [(None, Obj('name', kind='opaque'))]),
             (_re.compile(r'CheckedActionInitialCheckError::new$'), lambda ctx: [(None, Obj('CheckedActionInitialCheckError', kind='error'))])]
    ex = loader.load(['astria-sequencer', 'astria-core'], scalar_types=SCALARS, hooks=hooks, dep_adts=['tendermint'])
    f = ex.find(r'(^|::)convert_actions$')
    a = ex.adts.lookup('astria_core::protocol::transaction::v1::action::Action') or ex.adts.lookup('Action')
    run.bound(transactions='one action of every kind, alone and as the second of two actions; constructors of the checked actions (decided in C02-N) are logging oracles that may fail')
    signer = z3.BitVec('tx_signer', 160); txid = z3.BitVec('tx_id', 256)
    n = 0
    for variant, kind in VARIANTS.items():
        for pos in (0, 1):
            acts = []
            if pos == 1:
                first = Obj('astria_core::protocol::transaction::v1::action::Action'); first.discr = 'Transfer'; fa = Obj('Transfer', kind='opaque'); fa.attrs['ident'] = 'first_action'; first.fields[('Transfer', 0)] = fa
                acts.append(first)
            act = Obj('astria_core::protocol::transaction::v1::action::Action'); act.discr = variant
            inner = Obj(kind, kind='opaque'); inner.attrs['ident'] = 'the_action'; act.fields[(variant, 0)] = inner
            acts.append(act)
            st = ex.start(f, [M.new_vec('Vec<Action>', acts), signer, txid, B.cell(Obj('S', kind='cell'))])
            for i, p in enumerate(run.explore(ex, st, poll=True, allow_havoc=(r'^Arguments::|fmt::',))):
                lab = f'[{variant} at position {pos}, path {i}]'
                if p.kind != 'return':
                    run.prove(f'no panic {lab}', p.pc, z3.BoolVal(False), detail=p.info); continue
                n += 1
                ctors = [e for e in p.log if e[0] == 'ctor']
                mine = [e for e in ctors if isinstance(e[2][0], Obj) and e[2][0].attrs.get('ident') == 'the_action']
                kind_ok = lambda k: k == kind or (kind == 'IbcRelay' and k == 'IbcRelay')
                cl = [z3.BoolVal(len(mine) <= 1), z3.BoolVal(all(kind_ok(e[1]) for e in mine))]
                for e in mine:
                    extra = e[2][1:]
                    bvs = [x for x in extra if z3.is_bv(x)]
                    if kind != 'RollupDataSubmission':
                        cl.append(z3.BoolVal(any(z3.is_bv(x) and x.size() == 160 for x in bvs)))
                        cl += [x == signer for x in bvs if x.size() == 160]
                    cl += [x == txid for x in bvs if x.size() == 256]
                    if kind in ('BridgeLock', 'BridgeTransfer'):
                        cl.append(z3.BoolVal(any(x.size() == 256 for x in bvs) and any(x.size() == 64 for x in bvs)))
                        cl += [x == z3.BitVecVal(pos, 64) for x in bvs if x.size() == 64]
                kindr, r = A.poll_result(p)
                if kindr == 'Ok':
                    out = ex.deref_val(p, r.fields[('Ok', 0)]).attrs['items']
                    cl.append(z3.BoolVal(len(out) == len(acts) and len(mine) == 1))
                    last = ex.deref_val(p, out[-1]) if out else None
                    payload = [v for k_, v in last.fields.items()] if isinstance(last, Obj) else []
                    pv = ex.deref_val(p, payload[0]) if payload else None
                    if isinstance(pv, Obj) and pv.kind == 'box':          # large variants are boxed
                        pv = ex.deref_val(p, pv.fields[('in', 0)])
                    cl.append(z3.BoolVal(isinstance(pv, Obj) and pv.attrs.get('ident', (None,))[0] == 'checked' and pv.attrs['ident'][2] == 'the_action'))
                run.prove(f'the action goes to the constructor of its own kind, once, with the transaction signer (and id / position where a deposit may result); the checked action in the result is the one built from it {lab}', p.pc, z3.And(*cl))
    if n < 40:
        raise Inconclusive(f'vacuity: {n} paths')
    run.require_reached(*run.cur.reach)
