"""C02 — only the owner or the designated authority moves funds or changes privileged state (every checked action's execute over the
symbolic chain state; one action-independent authorisation table + per-action write-sets)."""
import z3
from vlib.oblig import obligation, mval
from vlib import actions as A, build as B
from mirsym.engine import Obj, Inconclusive

# families each action may write on success (anything else must be unchanged)
WRITE_SET = {
    'Transfer': {'balance'}, 'SudoAddressChange': {'sudo'}, 'IbcSudoChange': {'ibc_sudo'}, 'IbcRelayerChange': {'ibc_relayer'},
    'FeeAssetChange': {'allowed_fee_asset'}, 'FeeChange': {'fees_base', 'fees_mult'},
    'BridgeSudoChange': {'bridge_sudo', 'bridge_withdrawer', 'bridge_disabled'},
    'InitBridgeAccount': {'bridge_rollup', 'bridge_asset', 'bridge_sudo', 'bridge_withdrawer'},
    'BridgeLock': {'balance', 'cached_deposits', 'events'}, 'BridgeUnlock': {'balance', 'withdrawal_event'},
    'BridgeTransfer': {'balance', 'cached_deposits', 'events', 'withdrawal_event'},
    'ValidatorUpdate': {'validator_power', 'validator_key', 'validator_count', 'validator_updates'},
}
EXTRA = {'ValidatorUpdate': {'all_upgrades_active': True}}


def action_obligation(name):
    def ob(run):
        ex, W = A.engine()
        run.bound(state='arbitrary symbolic chain state (SMT arrays; every cell unconstrained)', action=f'arbitrary {name} payload and signer (aliasing allowed)',
                  unroll='loop-free; containers in payloads: none for this action')
        run.assume('state reads succeed (no storage I/O or decode errors); storage keys injective; StoredValue (de)serialisation is the identity')
        run.assume('awaited sub-futures complete; tracing disabled; address of a verification key is an uninterpreted function of the key')
        if name in EXTRA:
            run.bound(upgrades='all upgrade changes active (post-Aspen / post-Blackburn code paths)')
        prep = None
        if name == 'InitBridgeAccount':
            def prep(me):
                # explicit optional addresses (both views of an address the engine uses: the `bytes` field and the identity attribute), so that every copy agrees
                a_ = ex.adts.lookup('astria_core_address::Address')
                if not a_ or 'bytes' not in a_['fields']:
                    raise Inconclusive('astria_core_address::Address { bytes, .. } not found (refactored?)')
                opts = {}
                for fld in ('sudo_address', 'withdrawer_address'):
                    ad = Obj('astria_core::primitive::v1::Address'); bv = z3.BitVec(f'named_{fld}', 160)
                    ad.fields[(None, a_['fields'].index('bytes'))] = bv; ad.attrs['addr160'] = bv
                    o = Obj('std::option::Option<astria_core::primitive::v1::Address>'); o.discr = z3.If(z3.Bool(f'{fld}_is_named'), z3.BitVecVal(1, 64), z3.BitVecVal(0, 64)); o.fields[('Some', 0)] = ad
                    opts[fld] = o
                act_ = B.struct(ex, 'astria_core::protocol::transaction::v1::action::InitBridgeAccount', **opts)
                am = ex.adts.lookup(me.ty)
                me.fields[(None, am['fields'].index('action'))] = act_
        w0, res = A.run_action(run, ex, W, name, world_extra=EXTRA.get(name), prep=prep)
        n_ok = 0
        for i, (p, kind, r, me) in enumerate(res):
            if kind == 'panic':
                run.prove(f'no panic [path {i}]', p.pc, z3.BoolVal(False), detail=p.info); continue
            run.sample({'action': name, 'path': i, 'result': kind, 'writes': [e[1] for e in p.log if e[0] == 'write'], 'pc': [str(z3.simplify(c))[:90] for c in p.pc][:5]})
            if kind != 'Ok':
                continue
            n_ok += 1
            signer = A.signer_of(ex, W, p, me)
            for label, claim in A.c02_claims(w0, p.world, signer):
                run.prove(f'{label} [path {i}]', p.pc, claim)
            run.prove(f'{name} writes only {sorted(WRITE_SET[name])} [path {i}]', p.pc, A.unchanged(w0, p.world, except_=WRITE_SET[name]))
            if name == 'InitBridgeAccount':
                # who holds the two per-bridge privileges afterwards: the address named in the action, and the SIGNER (nobody else) when none is named
                for fld, fam in (('sudo_address', 'bridge_sudo'), ('withdrawer_address', 'bridge_withdrawer')):
                    want = z3.If(z3.Bool(f'{fld}_is_named'), z3.BitVec(f'named_{fld}', 160), signer)
                    run.prove(f'InitBridgeAccount: {fld.split("_")[0]} of the new bridge account = the address named in the action, else the signer itself [path {i}]', p.pc,
                              z3.And(z3.Select(p.world[fam + '?'], signer), z3.Select(p.world[fam], signer) == want))
        if n_ok == 0:
            raise Inconclusive('vacuity: no successful execution path')
        run.require_reached(*run.cur.reach)
    return ob


for _n in WRITE_SET:
    obligation('C02', f'C02-{_n} authorisation and write-set of {_n}::execute')(action_obligation(_n))


from obligations.c18 import ics20_obligation
obligation('C02', 'C02-Ics20Withdrawal authorisation and write-set of Ics20Withdrawal::execute')(ics20_obligation('C02'))


# ----------------------------------------------------------------------------------------------------------------- oracle administration (sudo-gated)
from mirsym import models as M


def currency_pairs_obligation(run):
    ex, W = A.engine()
    run.bound(state='arbitrary symbolic chain state; the price-feed state is one opaque family (reads arbitrary, writes bump its version)', action='CurrencyPairsChange::Addition / Removal of 0..2 currency pairs, arbitrary signer')
    run.assume('price-feed state_ext methods are not modelled cell by cell: what is decided is WHO may change that state and that nothing else is written')
    n_ok = 0
    a = ex.adts.lookup('CurrencyPairsChange')
    for variant in ('Addition', 'Removal'):
        for k in (0, 1, 2):
            pairs = M.new_map('IndexSet<CurrencyPair>', [(Obj('astria_core::oracles::price_feed::types::v2::CurrencyPair', kind='opaque'), ()) for _ in range(k)])
            for kk, (o, _) in enumerate(pairs.attrs['items']):
                o.attrs['ident'] = z3.BitVec(f'pair{kk}', 256)
            act = B.variant(ex, 'CurrencyPairsChange', variant, **{'0': pairs})
            me = B.struct(ex, 'CheckedCurrencyPairsChange', action=act)
            w0, res = A.run_action(run, ex, W, 'CurrencyPairsChange', me=me, allow_havoc=(r'^Arguments::|fmt::',), pc=[z3.BitVec('pair0', 256) != z3.BitVec('pair1', 256)] if k == 2 else None)
            for i, (p, kind, r, me2) in enumerate(res):
                lab = f'[{variant} of {k}, path {i}]'
                if kind == 'panic':
                    run.prove(f'no panic {lab}', p.pc, z3.BoolVal(False), detail=p.info); continue
                run.sample({'variant': variant, 'pairs': k, 'path': i, 'result': kind, 'writes': [e[1] for e in p.log if e[0] == 'write']})
                if kind != 'Ok':
                    continue
                n_ok += 1
                signer = A.signer_of(ex, W, p, me2)
                run.prove(f'a successful CurrencyPairsChange is signed by the current sudo address {lab}', p.pc, signer == w0['sudo'])
                for label, claim in A.c02_claims(w0, p.world, signer):
                    run.prove(f'{label} {lab}', p.pc, claim)
                run.prove(f'CurrencyPairsChange writes only the price-feed state {lab}', p.pc, A.unchanged(w0, p.world, except_={'price_feed'}))
    if n_ok == 0:
        raise Inconclusive('vacuity: no successful execution path')
    run.require_reached(*run.cur.reach)


obligation('C02', 'C02-CurrencyPairsChange authorisation and write-set of CurrencyPairsChange::execute')(currency_pairs_obligation)


def markets_change_obligation(run):
    ex, W = A.engine()
    run.bound(state='arbitrary symbolic chain state; the price-feed / market-map state is one opaque family', action='MarketsChange::Creation / Removal / Update of 0..1 markets, arbitrary signer; the stored market map has 0..1 markets')
    run.assume('price-feed / market-map state_ext methods are not modelled cell by cell: what is decided is WHO may change that state and that nothing else is written')
    n_ok = 0
    for variant in ('Creation', 'Removal', 'Update'):
        for k in (0, 1):
            mk = []
            for j in range(k):
                t = Obj('astria_core::oracles::price_feed::market_map::v2::Market')
                mk.append(t)
            act = B.variant(ex, 'MarketsChange', variant, **{'0': M.new_vec('Vec<Market>', mk)})
            me = B.struct(ex, 'CheckedMarketsChange', action=act)
            w0, res = A.run_action(run, ex, W, 'MarketsChange', me=me, allow_havoc=(r'^Arguments::|fmt::',))
            for i, (p, kind, r, me2) in enumerate(res):
                lab = f'[{variant} of {k}, path {i}]'
                if kind == 'panic':
                    run.prove(f'no panic {lab}', p.pc, z3.BoolVal(False), detail=p.info); continue
                run.sample({'variant': variant, 'markets': k, 'path': i, 'result': kind, 'writes': [e[1] for e in p.log if e[0] == 'write']})
                if kind != 'Ok':
                    continue
                n_ok += 1
                signer = A.signer_of(ex, W, p, me2)
                run.prove(f'a successful MarketsChange is signed by the current sudo address {lab}', p.pc, signer == w0['sudo'])
                for label, claim in A.c02_claims(w0, p.world, signer):
                    run.prove(f'{label} {lab}', p.pc, claim)
                run.prove(f'MarketsChange writes only the price-feed / market-map state {lab}', p.pc, A.unchanged(w0, p.world, except_={'price_feed'}))
    if n_ok == 0:
        raise Inconclusive('vacuity: no successful execution path')
    run.require_reached(*run.cur.reach)


obligation('C02', 'C02-MarketsChange authorisation and write-set of MarketsChange::execute')(markets_change_obligation)


# ----------------------------------------------------------------------------------------------------------------- signature binding
from vlib import loader
from mirsym.engine import ok, err, some, none
import re as _re


def _orc(name, mk, log_args=()):
    def h(ctx):
        st = ctx.st
        n = sum(1 for e in st.log if e[0] == 'oracle' and e[1] == name)
        okv = z3.Bool(f'{name}_{n}')
        st.log.append(('oracle', name, okv) + tuple(ctx.ex.deref_val(st, ctx.args[i]) for i in log_args))
        return [(okv, (lambda s2: ok(mk(ctx, s2)))), (z3.Not(okv), (lambda s2: err(Obj('Error', kind='error'))))]
    return h


@obligation('C02', 'C02-S1 Transaction::try_from_raw (astria-core): a transaction is accepted only if the signature in the message verifies under the public key in the message over exactly the body bytes that are then decoded')
def c02_s1(run):
    SIG = z3.Function('ed25519_verify', z3.BitVecSort(256), z3.BitVecSort(256), z3.BitVecSort(256), z3.BoolSort())

    def h_verify(ctx):
        key, sig, msg = (ctx.ex.deref_val(ctx.st, x) for x in ctx.args[:3])
        v = SIG(M.ident(key), M.ident(sig), M.ident(msg))
        ctx.st.log.append(('verify', M.ident(key), M.ident(sig), M.ident(msg)))
        return [(v, ok(())), (z3.Not(v), (lambda s2: err(Obj('Error', kind='error'))))]

    def mk_from(tag):
        def mk(ctx, s2):
            src = ctx.ex.deref_val(s2, ctx.args[0])
            o = Obj(tag, kind='opaque'); o.attrs['ident'] = M.ident(src)       # the parsed key / signature is a function of its bytes
            return o
        return mk

    def h_body(ctx):
        anyv = ctx.ex.deref_val(ctx.st, ctx.args[0])
        okv = z3.Bool('body_decodes')
        ctx.st.log.append(('decode_body', anyv))
        o = Obj('astria_core::protocol::transaction::v1::TransactionBody', kind='opaque')
        return [(okv, (lambda s2: ok(o))), (z3.Not(okv), (lambda s2: err(Obj('Error', kind='error'))))]
    same = lambda ctx: [(None, ctx.ex.deref_val(ctx.st, ctx.args[0]))]
    hooks = [(_re.compile(r'Signature as TryFrom<&\[u8\]>>::try_from$'), _orc('signature_wellformed', mk_from('Signature'))),
             (_re.compile(r'VerificationKey as TryFrom<&\[u8\]>>::try_from$'), _orc('key_wellformed', mk_from('VerificationKey'))),
             (_re.compile(r'VerificationKey::verify$'), h_verify), (_re.compile(r'TransactionBody::try_from_any$|TransactionBody as .*Protobuf>::try_from_any$'), h_body),
             (_re.compile(r'^<(bytes::)?Bytes as Deref>::deref$|^<(bytes::)?Bytes as Clone>::clone$|as AsRef<\[u8\]>>::as_ref$'), same)]
    ex = loader.load(['astria-core'], hooks=hooks, dep_adts=['tendermint'])
    n_ok = 0
    for fname in ('try_from_raw', 'try_from_raw_ref'):
        cands = [n for n in ex.fns if n.endswith('::' + fname) and 'closure' not in n and (ex.impl_self(n) or (None, ''))[1] == 'Transaction' and (ex.impl_self(n) or ('',))[0] == 'Protobuf']
        if len(cands) != 1:
            raise Inconclusive(f'<Transaction as Protobuf>::{fname} not found: {cands}')
        sigb = Obj('bytes::Bytes', kind='opaque'); sigb.attrs['ident'] = z3.BitVec('signature_bytes', 256)
        keyb = Obj('bytes::Bytes', kind='opaque'); keyb.attrs['ident'] = z3.BitVec('public_key_bytes', 256)
        val = Obj('bytes::Bytes', kind='opaque'); val.attrs['ident'] = z3.BitVec('body_bytes', 256)
        anyv = B.struct(ex, 'pbjson_types::Any', value=val) if ex.adts.lookup('pbjson_types::Any') else None
        if anyv is None:
            anyv = Obj('pbjson_types::Any'); anyv.fields[(None, 1)] = val; anyv.fields[(None, 0)] = Obj('String', kind='opaque')
        body = Obj('std::option::Option<pbjson_types::Any>'); body.discr = z3.If(z3.Bool('body_present'), z3.BitVecVal(1, 64), z3.BitVecVal(0, 64)); body.fields[('Some', 0)] = anyv
        raw = B.struct(ex, 'astria_core::generated::astria::protocol::transaction::v1::Transaction', signature=sigb, public_key=keyb, body=body)
        arg = raw if fname == 'try_from_raw' else B.cell(raw)
        for i, p in enumerate(run.explore(ex, ex.start(cands[0], [arg]), allow_havoc=(r'^Arguments::|fmt::', r'TransactionError::'))):
            lab = f'[{fname}, path {i}]'
            if p.kind != 'return':
                run.prove(f'no panic {lab}', p.pc, z3.BoolVal(False), detail=p.info); continue
            run.sample({'fn': fname, 'path': i, 'result': p.result.discr, 'verifies': len([e for e in p.log if e[0] == 'verify'])})
            if p.result.discr != 'Ok':
                continue
            n_ok += 1
            vs = [e for e in p.log if e[0] == 'verify']
            tx = ex.deref_val(p, p.result.fields[('Ok', 0)])
            vk = ex.deref_val(p, B.fld(ex, p, tx, 'verification_key', 'VerificationKey'))
            bb = ex.deref_val(p, B.fld(ex, p, tx, 'body_bytes', 'Bytes'))
            dec = [e for e in p.log if e[0] == 'decode_body']
            decoded_val = None
            if dec:
                a_ = dec[0][1]
                decoded_val = ex.deref_val(p, B.fld(ex, p, a_, 'value', 'Bytes')) if ex.adts.lookup('pbjson_types::Any') else ex.deref_val(p, a_.fields[(None, 1)])
            run.prove(f'accepted => exactly one signature check, of the message\'s signature under the message\'s public key over the body bytes; the transaction keeps that key and those bytes, and the decoded body is built from the same bytes {lab}', p.pc,
                      z3.And(z3.BoolVal(len(vs) == 1 and len(dec) == 1), SIG(z3.BitVec('public_key_bytes', 256), z3.BitVec('signature_bytes', 256), z3.BitVec('body_bytes', 256)),
                             *( [vs[0][1] == z3.BitVec('public_key_bytes', 256), vs[0][2] == z3.BitVec('signature_bytes', 256), vs[0][3] == z3.BitVec('body_bytes', 256)] if vs else []),
                             M.ident(vk) == z3.BitVec('public_key_bytes', 256), M.ident(bb) == z3.BitVec('body_bytes', 256),
                             (M.ident(decoded_val) == z3.BitVec('body_bytes', 256)) if decoded_val is not None else z3.BoolVal(False)))
    if not n_ok:
        raise Inconclusive('vacuity: no accepting path')
    run.require_reached(*run.cur.reach)


@obligation('C02', 'C02-S2 CheckedTransaction::new: a transaction becomes executable only if it decoded and verified (Transaction::try_from_raw), its actions were checked with the address of ITS verification key as signer, its nonce is not below the account nonce, and its chain id is the chain\'s')
def c02_s2(run):
    def h_decode(ctx):
        okv = z3.Bool('tx_decodes')
        ctx.st.log.append(('oracle', 'decode', okv))
        return [(okv, (lambda s2: ok(Obj('raw::Transaction', kind='opaque')))), (z3.Not(okv), (lambda s2: err(Obj('prost::DecodeError', kind='error'))))]

    def h_try_from_raw(ctx):
        okv = z3.Bool('tx_verifies')
        ctx.st.log.append(('oracle', 'try_from_raw', okv))

        def mk(s2):
            t = Obj('astria_core::protocol::transaction::v1::Transaction', kind='opaque'); t.attrs['tag'] = 'tx'
            return ok(t)
        return [(okv, mk), (z3.Not(okv), (lambda s2: err(Obj('TransactionError', kind='error'))))]
    VK = z3.BitVec('tx_verification_key', 256)
    tx_chain = Obj('String', kind='opaque'); tx_chain.attrs['ident'] = z3.BitVec('tx_chain_id', 256)

    def h_parts(ctx):
        parts = B.struct(ctx.ex, 'TransactionParts', actions=M.new_vec('Vec<Action>', []), group=Obj('Group', kind='opaque'), params=Obj('TransactionParams', kind='opaque'), verification_key=VK)
        return [(None, parts)]

    def h_convert(ctx):
        okv = z3.Bool('actions_check_ok')
        ctx.st.log.append(('convert_actions', ctx.ex.deref_val(ctx.st, ctx.args[1]), okv))
        return [(None, M.thunk_future(lambda ex, s2, fut: [(okv, (lambda s3: ok(M.new_vec('Vec<CheckedAction>', [])))), (z3.Not(okv), (lambda s3: err(Obj('CheckedTransactionInitialCheckError', kind='error'))))]))]

    def h_str_ne(ctx):
        a_, b_ = (ctx.ex.deref_val(ctx.st, x) for x in ctx.args[:2])
        return [(None, M.ident(a_) != M.ident(b_))]
    same = lambda ctx: [(None, ctx.ex.deref_val(ctx.st, ctx.args[0]))]
    hooks = [(_re.compile(r'raw::Transaction as (prost::)?Message>::decode(::<.*>)?$|v1::Transaction as (prost::)?Message>::decode(::<.*>)?$'), h_decode),
             (_re.compile(r'Transaction as ([\w:]+::)?Protobuf>::try_from_raw$|(^|::)Transaction::try_from_raw$'), h_try_from_raw),
             (_re.compile(r'(^|::)Transaction::nonce$'), lambda ctx: [(None, z3.BitVec('tx_nonce', 32))]), (_re.compile(r'(^|::)Transaction::chain_id$'), lambda ctx: [(None, B.cell(tx_chain))]),
             (_re.compile(r'(^|::)Transaction::into_parts$'), h_parts), (_re.compile(r'(^|::)Transaction::address_bytes$|Transaction as ([\w:]+::)?AddressBytes>::address_bytes$'), lambda ctx: [(None, B.cell(W_holder['W'].vk_addr(VK)))]),
             (_re.compile(r'^(checked_transaction::)?convert_actions(::<.*>)?$'), h_convert), (_re.compile(r'Digest>::digest(::<.*>)?$|Sha256::digest'), lambda ctx: [(None, z3.BitVec('sha256_of_tx_bytes', 256))]),
             (_re.compile(r'^(bytes::)?Bytes::len$'), lambda ctx: [(None, z3.BitVec('tx_len', 64))]), (_re.compile(r'^<(bytes::)?Bytes as Clone>::clone$|chain::Id::as_str$|^<str as ToString>::to_string$|^<String as Deref>::deref$|as AsRef<\[u8\]>>::as_ref$'), same),
             (_re.compile(r'^<(std::string::)?String as PartialEq<(&)?str>>::(ne|eq)$|^<str as PartialEq>::(ne|eq)$|^<(std::string::)?String as PartialEq>::(ne|eq)$'), lambda ctx: [(None, (h_str_ne(ctx)[0][1]) if ctx.callee.endswith('ne') else z3.Not(h_str_ne(ctx)[0][1]))])]
    W_holder = {}
    ex, W = A.engine(extra_hooks=hooks)
    W.vk_addr = lambda vk: z3.Function('vk_address', z3.BitVecSort(256), z3.BitVecSort(160))(vk)      # the chain-state model's address-of-key function
    W_holder['W'] = W
    cands = [n for n in ex.fns if n.endswith('::new') and 'closure' not in n and (ex.impl_self(n) or (None, ''))[1] == 'CheckedTransaction']
    if len(cands) != 1:
        raise Inconclusive(f'CheckedTransaction::new not found: {cands}')
    MAXB = ex.named_const('MAX_TX_BYTES')
    if MAXB is None:
        raise Inconclusive('MAX_TX_BYTES not found')
    run.bound(tx='arbitrary bytes; protobuf decoding, Transaction::try_from_raw (decided in C02-S1) and convert_actions are oracles that may fail', state='arbitrary symbolic chain state')
    w0 = initial_world() if 'initial_world' in globals() else None
    from vlib.seqworld import initial_world as iw
    w0 = iw()
    txb = Obj('bytes::Bytes', kind='opaque'); txb.attrs['tag'] = 'tx_bytes'
    st = ex.start(cands[0], [txb, B.cell(Obj('S', kind='cell'))], world=dict(w0))
    n_ok = 0
    signer = W.vk_addr(VK)
    for i, p in enumerate(run.explore(ex, st, poll=True, allow_havoc=(r'^Arguments::|fmt::', r'CheckedTransactionInitialCheckError::', r'TransactionId::new'))):
        if p.kind != 'return':
            run.prove(f'no panic [path {i}]', p.pc, z3.BoolVal(False), detail=p.info); continue
        kind, r = A.poll_result(p)
        conv = [e for e in p.log if e[0] == 'convert_actions']
        orc = {e[1]: e[2] for e in p.log if e[0] == 'oracle'}
        run.sample({'path': i, 'result': kind, 'oracles': list(orc), 'convert_calls': len(conv)})
        if kind != 'Ok':
            continue
        n_ok += 1
        ct = ex.deref_val(p, r.fields[('Ok', 0)])
        cvk = B.fld(ex, p, ct, 'verification_key', 'VerificationKey')
        cbytes = ex.deref_val(p, B.fld(ex, p, ct, 'tx_bytes', 'Bytes'))
        run.prove(f'accepted => size within the limit, decoded, verified, nonce >= the signer\'s account nonce, actions checked against the signer derived from the transaction\'s own key, chain id equal; the checked transaction carries that key and the original bytes [path {i}]', p.pc,
                  z3.And(z3.ULE(z3.BitVec('tx_len', 64), MAXB), orc.get('decode', z3.BoolVal(False)), orc.get('try_from_raw', z3.BoolVal(False)),
                         z3.UGE(z3.BitVec('tx_nonce', 32), z3.Select(w0['nonce'], signer)), z3.BoolVal(len(conv) == 1), *( [conv[0][1] == signer, conv[0][2]] if conv else []),
                         z3.BitVec('tx_chain_id', 256) == z3.BitVec('chain_id', 256), cvk == VK, z3.BoolVal(isinstance(cbytes, Obj) and cbytes.attrs.get('tag') == 'tx_bytes')))
    if not n_ok:
        raise Inconclusive('vacuity: no accepting path')
    run.require_reached(*run.cur.reach)


# ----------------------------------------------------------------------------------------------------------------- IBC relay / client recovery (penumbra handlers are oracles)
def ibc_relay_obligation(run):
    def h_handler(ctx):
        st = ctx.st; okv = z3.Bool('ibc_handler_ok')
        st.log.append(('ibc_handler', ctx.callee.split('::')[-1]))
        return [(None, M.thunk_future(lambda ex, s2, fut: [(okv, ok(())), (z3.Not(okv), (lambda s3: err(Obj('anyhow::Error', kind='error'))))]))]
    ex, W = A.engine(extra_hooks=[(_re.compile(r'^[^{]*IbcRelayWithHandlers<[^{]*>::check_and_execute(::<[^{]*>)?$'), h_handler)])
    run.bound(state='arbitrary symbolic chain state', action='arbitrary IbcRelay message and signer',
              handler='IbcRelayWithHandlers::check_and_execute (penumbra-ibc; client / connection / channel / packet handling) is an oracle: succeeds or fails arbitrarily; its writes to IBC-module state are not modelled')
    w0, res = A.run_action(run, ex, W, 'IbcRelay', allow_havoc=(r'^Arguments::|fmt::',))
    n_ok = n_err = 0
    a = z3.BitVec('any_addr', 160)
    for i, (p, kind, r, me) in enumerate(res):
        if kind == 'panic':
            run.prove(f'no panic [path {i}]', p.pc, z3.BoolVal(False), detail=p.info); continue
        handled = [e for e in p.log if e[0] == 'ibc_handler']
        run.sample({'path': i, 'result': kind, 'handler_calls': len(handled), 'writes': [e[1] for e in p.log if e[0] == 'write']})
        signer = A.signer_of(ex, W, p, me)
        is_relayer = z3.Select(w0['ibc_relayer'], signer)
        if handled:
            run.prove(f'the IBC handlers run only for a signer in the current relayer set [path {i}]', p.pc, is_relayer)
        if kind == 'Ok':
            n_ok += 1
            run.prove(f'a successful IbcRelay is signed by a current IBC relayer and went through the handlers exactly once [path {i}]', p.pc, z3.And(is_relayer, z3.BoolVal(len(handled) == 1), z3.Bool('ibc_handler_ok')))
            for label, claim in A.c02_claims(w0, p.world, signer):
                run.prove(f'{label} [path {i}]', p.pc, claim)
        else:
            n_err += 1
        run.prove(f'IbcRelay::execute itself writes nothing outside the handlers [path {i}]', p.pc, A.unchanged(w0, p.world))
    if n_ok == 0 or n_err == 0:
        raise Inconclusive('vacuity: need both a successful and a rejected path')
    run.require_reached(*run.cur.reach)


obligation('C02', 'C02-IbcRelay only a current IBC relayer reaches the IBC handlers')(ibc_relay_obligation)


def recover_ibc_client_obligation(run):
    CS = 'ibc_types::lightclients::tendermint::client_state::ClientState'

    def h_status(ctx):
        st = ctx.st
        n = sum(1 for e in st.log if e[0] == 'client_status')
        st.log.append(('client_status', n))
        active = z3.Bool(f'client_status_active_{n}')
        a = ctx.ex.adts.lookup('ClientStatus')
        o = Obj(a['path'] if a else 'ClientStatus'); o.attrs['active'] = active

        def alts(ex, s2, fut):
            def mk(name):
                def f(s3):
                    v = Obj(o.ty); v.discr = name
                    return v
                return f
            return [(active, mk('Active')), (z3.Not(active), mk('Expired'))]
        return [(None, M.thunk_future(alts))]

    def h_client_state(ctx):
        st = ctx.st
        n = sum(1 for e in st.log if e[0] == 'client_state')
        st.log.append(('client_state', n))
        okv = z3.Bool(f'client_state_found_{n}')

        def mk(s3):
            o = Obj(CS, kind='opaque'); o.attrs['which'] = n
            return ok(o)
        return [(None, M.thunk_future(lambda ex, s2, fut: [(okv, mk), (z3.Not(okv), (lambda s3: err(Obj('anyhow::Error', kind='error'))))]))]

    def h_cmp(ctx):
        return [(None, z3.Bool('subject_height_lt_substitute'))]

    def h_fields_match(ctx):
        okv = z3.Bool('required_fields_match')
        return [(okv, ok(())), (z3.Not(okv), (lambda s: err(Obj('eyre::Report', kind='error'))))]

    def h_get_cons(ctx):
        okv = z3.Bool('consensus_state_found')
        ctx.st.log.append(('read_consensus_state',))
        return [(None, M.thunk_future(lambda ex, s2, fut: [(okv, (lambda s3: ok(Obj('ConsensusState', kind='opaque')))), (z3.Not(okv), (lambda s3: err(Obj('anyhow::Error', kind='error'))))]))]

    def h_put_cons(ctx):
        okv = z3.Bool('consensus_state_put_ok')
        ctx.st.log.append(('ibc_client_write', 'consensus_state'))
        return [(None, M.thunk_future(lambda ex, s2, fut: [(okv, ok(())), (z3.Not(okv), (lambda s3: err(Obj('anyhow::Error', kind='error'))))]))]

    def h_put_client(ctx):
        ctx.st.log.append(('ibc_client_write', 'client'))
        return [(None, ())]
    hooks = [(_re.compile(r'^<[^{]* as [\w:]*ClientStateReadExt>::get_client_status'), h_status),
             (_re.compile(r'^<[^{]* as [\w:]*ClientStateReadExt>::get_client_state'), h_client_state),
             (_re.compile(r'^<[^{]* as [\w:]*(ClientStateReadExt|ConsensusStateReadExt)>::get_verified_consensus_state'), h_get_cons),
             (_re.compile(r'^<[^{]* as [\w:]*(ClientStateWriteExt|ConsensusStateWriteExt)>::put_verified_consensus_state'), h_put_cons),
             (_re.compile(r'^<[^{]* as [\w:]*ClientStateWriteExt>::put_client'), h_put_client),
             (_re.compile(r'Height as PartialOrd>::(lt|le|gt|ge)$'), h_cmp),
             (_re.compile(r'ClientState::latest_height$'), lambda ctx: [(None, Obj('Height', kind='opaque'))]),
             (_re.compile(r'(^|::)ensure_required_client_state_fields_match$'), h_fields_match)]
    ex, W = A.engine(extra_hooks=hooks)
    run.bound(state='arbitrary symbolic chain state', action='arbitrary RecoverIbcClient (subject / substitute client ids) and signer',
              ibc='penumbra client-state reads (status, client state, consensus state) are oracles with arbitrary answers; ensure_required_client_state_fields_match is an oracle (ok / err); client writes are logged effects')
    w0, res = A.run_action(run, ex, W, 'RecoverIbcClient', allow_havoc=(r'^Arguments::|fmt::', r'Clone>::clone$', r'ChainId|Duration|Height'))
    n_ok = n_err = 0
    for i, (p, kind, r, me) in enumerate(res):
        if kind == 'panic':
            run.prove(f'no panic [path {i}]', p.pc, z3.BoolVal(False), detail=p.info); continue
        writes = [e for e in p.log if e[0] == 'ibc_client_write']
        run.sample({'path': i, 'result': kind, 'client_writes': [e[1] for e in writes], 'status_reads': sum(1 for e in p.log if e[0] == 'client_status')})
        signer = A.signer_of(ex, W, p, me)
        gate = z3.And(signer == w0['sudo'], z3.Not(z3.Bool('client_status_active_0')), z3.Bool('client_status_active_1'), z3.Bool('subject_height_lt_substitute'), z3.Bool('required_fields_match'))
        if writes:
            run.prove(f'IBC client state is written only for the sudo signer, a non-active subject, an active higher substitute with matching parameters [path {i}]', p.pc, gate)
        if kind == 'Ok':
            n_ok += 1
            run.prove(f'a successful RecoverIbcClient passed every gate and wrote the consensus state and the client [path {i}]', p.pc,
                      z3.And(gate, z3.BoolVal([e[1] for e in writes] == ['consensus_state', 'client'])))
            for label, claim in A.c02_claims(w0, p.world, signer):
                run.prove(f'{label} [path {i}]', p.pc, claim)
        else:
            n_err += 1
        run.prove(f'RecoverIbcClient writes nothing outside the IBC client store [path {i}]', p.pc, A.unchanged(w0, p.world))
    if n_ok == 0 or n_err == 0:
        raise Inconclusive('vacuity: need both a successful and a rejected path')
    run.require_reached(*run.cur.reach)


obligation('C02', 'C02-RecoverIbcClient only the sudo address replaces an IBC client, and only a non-active one by an active one')(recover_ibc_client_obligation)


# ----------------------------------------------------------------------------------------------------------------- constructors (shared with C18)
from obligations import shared_ctor as _ctor
obligation('C02', 'C02-N checked-action constructors: the executable action carries exactly the signer and the action it was built from (and, for Ics20Withdrawal, debits the bridge account only when one is named, otherwise the signer)')(_ctor.constructors_obligation)
obligation('C02', 'C02-D dispatch (convert_actions / CheckedAction::new_*): every action of a transaction is checked by the constructor of its own kind with the TRANSACTION\'s signer (between C02-S2, which derives that signer, and C02-N, which decides each constructor)')(_ctor.dispatch_obligation)
