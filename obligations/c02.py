"""C02 — only the owner or the designated authority moves funds or changes privileged state (every checked action's execute over the
symbolic chain state; one action-independent authorisation table + per-action write-sets)."""
import z3
from vlib.oblig import obligation, mval
from vlib import actions as A, build as B
from mirsym.engine import Obj, Inconclusive

# families each action may write on success (anything else must be unchanged)
WRITE_SET = {
    'Transfer': {'balance'}, 'SudoAddressChange': {'sudo'}, 'IbcSudoChange': {'ibc_sudo'}, 'IbcRelayerChange': {'ibc_relayer'},
    'FeeAssetChange': {'allowed_fee_asset'}, 'FeeChange': {'fees_base', 'fees_mult'},
    'BridgeSudoChange': {'bridge_sudo', 'bridge_withdrawer', 'bridge_disabled'},
    'InitBridgeAccount': {'bridge_rollup', 'bridge_asset', 'bridge_sudo', 'bridge_withdrawer'},
    'BridgeLock': {'balance', 'cached_deposits', 'events'}, 'BridgeUnlock': {'balance', 'withdrawal_event'},
    'BridgeTransfer': {'balance', 'cached_deposits', 'events', 'withdrawal_event'},
    'ValidatorUpdate': {'validator_power', 'validator_key', 'validator_count', 'validator_updates'},
}
EXTRA = {'ValidatorUpdate': {'all_upgrades_active': True}}


def action_obligation(name):
    def ob(run):
        ex, W = A.engine()
        run.bound(state='arbitrary symbolic chain state (SMT arrays; every cell unconstrained)', action=f'arbitrary {name} payload and signer (aliasing allowed)',
                  unroll='loop-free; containers in payloads: none for this action')
        run.assume('state reads succeed (no storage I/O or decode errors); storage keys injective; StoredValue (de)serialisation is the identity')
        run.assume('awaited sub-futures complete; tracing disabled; address of a verification key is an uninterpreted function of the key')
        if name in EXTRA:
            run.bound(upgrades='all upgrade changes active (post-Aspen / post-Blackburn code paths)')
        w0, res = A.run_action(run, ex, W, name, world_extra=EXTRA.get(name))
        n_ok = 0
        for i, (p, kind, r, me) in enumerate(res):
            if kind == 'panic':
                run.prove(f'no panic [path {i}]', p.pc, z3.BoolVal(False), detail=p.info); continue
            run.sample({'action': name, 'path': i, 'result': kind, 'writes': [e[1] for e in p.log if e[0] == 'write'], 'pc': [str(z3.simplify(c))[:90] for c in p.pc][:5]})
            if kind != 'Ok':
                continue
            n_ok += 1
            signer = A.signer_of(ex, W, p, me)
            for label, claim in A.c02_claims(w0, p.world, signer):
                run.prove(f'{label} [path {i}]', p.pc, claim)
            run.prove(f'{name} writes only {sorted(WRITE_SET[name])} [path {i}]', p.pc, A.unchanged(w0, p.world, except_=WRITE_SET[name]))
        if n_ok == 0:
            raise Inconclusive('vacuity: no successful execution path')
        run.require_reached(*run.cur.reach)
    return ob


for _n in WRITE_SET:
    obligation('C02', f'C02-{_n} authorisation and write-set of {_n}::execute')(action_obligation(_n))


from obligations.c18 import ics20_obligation
obligation('C02', 'C02-Ics20Withdrawal authorisation and write-set of Ics20Withdrawal::execute')(ics20_obligation('C02'))


# ----------------------------------------------------------------------------------------------------------------- oracle administration (sudo-gated)
from mirsym import models as M


def currency_pairs_obligation(run):
    ex, W = A.engine()
    run.bound(state='arbitrary symbolic chain state; the price-feed state is one opaque family (reads arbitrary, writes bump its version)', action='CurrencyPairsChange::Addition / Removal of 0..2 currency pairs, arbitrary signer')
    run.assume('price-feed state_ext methods are not modelled cell by cell: what is decided is WHO may change that state and that nothing else is written')
    n_ok = 0
    a = ex.adts.lookup('CurrencyPairsChange')
    for variant in ('Addition', 'Removal'):
        for k in (0, 1, 2):
            pairs = M.new_map('IndexSet<CurrencyPair>', [(Obj('astria_core::oracles::price_feed::types::v2::CurrencyPair', kind='opaque'), ()) for _ in range(k)])
            for kk, (o, _) in enumerate(pairs.attrs['items']):
                o.attrs['ident'] = z3.BitVec(f'pair{kk}', 256)
            act = B.variant(ex, 'CurrencyPairsChange', variant, **{'0': pairs})
            me = B.struct(ex, 'CheckedCurrencyPairsChange', action=act)
            w0, res = A.run_action(run, ex, W, 'CurrencyPairsChange', me=me, allow_havoc=(r'^Arguments::|fmt::',), pc=[z3.BitVec('pair0', 256) != z3.BitVec('pair1', 256)] if k == 2 else None)
            for i, (p, kind, r, me2) in enumerate(res):
                lab = f'[{variant} of {k}, path {i}]'
                if kind == 'panic':
                    run.prove(f'no panic {lab}', p.pc, z3.BoolVal(False), detail=p.info); continue
                run.sample({'variant': variant, 'pairs': k, 'path': i, 'result': kind, 'writes': [e[1] for e in p.log if e[0] == 'write']})
                if kind != 'Ok':
                    continue
                n_ok += 1
                signer = A.signer_of(ex, W, p, me2)
                run.prove(f'a successful CurrencyPairsChange is signed by the current sudo address {lab}', p.pc, signer == w0['sudo'])
                for label, claim in A.c02_claims(w0, p.world, signer):
                    run.prove(f'{label} {lab}', p.pc, claim)
                run.prove(f'CurrencyPairsChange writes only the price-feed state {lab}', p.pc, A.unchanged(w0, p.world, except_={'price_feed'}))
    if n_ok == 0:
        raise Inconclusive('vacuity: no successful execution path')
    run.require_reached(*run.cur.reach)


obligation('C02', 'C02-CurrencyPairsChange authorisation and write-set of CurrencyPairsChange::execute')(currency_pairs_obligation)


def markets_change_obligation(run):
    ex, W = A.engine()
    run.bound(state='arbitrary symbolic chain state; the price-feed / market-map state is one opaque family', action='MarketsChange::Creation / Removal / Update of 0..1 markets, arbitrary signer; the stored market map has 0..1 markets')
    run.assume('price-feed / market-map state_ext methods are not modelled cell by cell: what is decided is WHO may change that state and that nothing else is written')
    n_ok = 0
    for variant in ('Creation', 'Removal', 'Update'):
        for k in (0, 1):
            mk = []
            for j in range(k):
                t = Obj('astria_core::oracles::price_feed::market_map::v2::Market')
                mk.append(t)
            act = B.variant(ex, 'MarketsChange', variant, **{'0': M.new_vec('Vec<Market>', mk)})
            me = B.struct(ex, 'CheckedMarketsChange', action=act)
            w0, res = A.run_action(run, ex, W, 'MarketsChange', me=me, allow_havoc=(r'^Arguments::|fmt::',))
            for i, (p, kind, r, me2) in enumerate(res):
                lab = f'[{variant} of {k}, path {i}]'
                if kind == 'panic':
                    run.prove(f'no panic {lab}', p.pc, z3.BoolVal(False), detail=p.info); continue
                run.sample({'variant': variant, 'markets': k, 'path': i, 'result': kind, 'writes': [e[1] for e in p.log if e[0] == 'write']})
                if kind != 'Ok':
                    continue
                n_ok += 1
                signer = A.signer_of(ex, W, p, me2)
                run.prove(f'a successful MarketsChange is signed by the current sudo address {lab}', p.pc, signer == w0['sudo'])
                for label, claim in A.c02_claims(w0, p.world, signer):
                    run.prove(f'{label} {lab}', p.pc, claim)
                run.prove(f'MarketsChange writes only the price-feed / market-map state {lab}', p.pc, A.unchanged(w0, p.world, except_={'price_feed'}))
    if n_ok == 0:
        raise Inconclusive('vacuity: no successful execution path')
    run.require_reached(*run.cur.reach)


obligation('C02', 'C02-MarketsChange authorisation and write-set of MarketsChange::execute')(markets_change_obligation)
