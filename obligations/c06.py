"""C06 — Honest proposals accepted; malformed / over-limit rejected (astria-sequencer MIR)."""
import os
import z3
from vlib.oblig import obligation, mval
from vlib import loader, replay, snap, build as B
from mirsym.engine import Obj, Ref, Inconclusive

BSC = 'crates/astria-sequencer/src/proposal/block_size_constraints.rs'


def engine(hooks=None, **kw):
    return loader.load(['astria-sequencer'], hooks=hooks, **kw)


def sym_bsc(ex, tag=''):
    f = {k: z3.BitVec(k + tag, 64) for k in ('max_size_sequencer', 'max_size_cometbft', 'current_size_sequencer', 'current_size_cometbft')}
    return B.struct(ex, 'BlockSizeConstraints', **f), f


def replay_bsc(which, f, size):
    """native replay: the real struct + impl compiled standalone (eyre replaced by a unit error type shim)"""
    def rp(model, path):
        vals = {k: mval(model, v) for k, v in f.items()}; sz = mval(model, size)
        src = open(os.path.join(snap.REPO, BSC)).read()
        import re
        m = re.search(r'impl BlockSizeConstraints \{', src)
        fns = []
        for name in (which + '_has_space', which + '_checked_add'):
            t = replay.extract_fn(os.path.join(snap.REPO, BSC), name)
            if t is None:
                return {'mode': 'native', 'reproduced': None, 'error': f'{name} not found'}
            fns.append(t)
        prelude = '''
type Result<T> = std::result::Result<T, String>;
trait OptionExt<T> { fn ok_or_eyre(self, m: &'static str) -> Result<T>; }
impl<T> OptionExt<T> for Option<T> { fn ok_or_eyre(self, m: &'static str) -> Result<T> { self.ok_or(m.to_string()) } }
macro_rules! ensure { ($c:expr, $m:expr $(,)?) => { if !($c) { return Err($m.to_string()); } }; }
#[derive(Copy, Clone, Debug, PartialEq)]
struct BlockSizeConstraints { max_size_sequencer: usize, max_size_cometbft: usize, current_size_sequencer: usize, current_size_cometbft: usize }
impl BlockSizeConstraints {
''' + '\n'.join(fns) + '\n}\n'
        main = f'''let mut b = BlockSizeConstraints {{ max_size_sequencer: {vals['max_size_sequencer']}, max_size_cometbft: {vals['max_size_cometbft']}, current_size_sequencer: {vals['current_size_sequencer']}, current_size_cometbft: {vals['current_size_cometbft']} }};
let before = b; let hs = b.{which}_has_space({sz}); let r = b.{which}_checked_add({sz});
println!("{{}} {{}} {{}} {{}}", hs, r.is_ok(), b.current_size_{which}, before == b || r.is_ok());'''
        r = replay.run_standalone([], main, prelude)
        if 'error' in r:
            return {'mode': 'native', 'reproduced': None, 'error': r['error']}
        cur, mx = vals[f'current_size_{which}'], vals[f'max_size_{which}']
        fits = cur + sz <= mx
        bad = False
        for prof in ('dev', 'release'):
            if r[prof]['panicked']:
                bad = True; continue
            hs, okk, newcur, unchanged_on_err = r[prof]['stdout'][-1].split()
            if (hs == 'true') != (okk == 'true') or (okk == 'true') != fits or (okk == 'true' and int(newcur) != cur + sz) or unchanged_on_err != 'true':
                bad = True
        return {'mode': 'native-standalone', 'inputs': dict(vals, size=sz), 'expected_fits': fits, 'got': {p: r[p]['stdout'][-1] for p in ('dev', 'release')}, 'reproduced': bad}
    return rp


@obligation('C06', 'C06-1 block size constraint algebra')
def c06_1(run):
    ex = engine()
    run.bound(inputs='arbitrary BlockSizeConstraints state with current <= max (the invariant `new`/checked_add establish), arbitrary usize size', unroll='loop-free')
    for which in ('sequencer', 'cometbft'):
        has_space = ex.find(rf'block_size_constraints.*::{which}_has_space$')
        checked_add = ex.find(rf'block_size_constraints.*::{which}_checked_add$')
        size = z3.BitVec('size', 64)
        # has_space
        o, f = sym_bsc(ex)
        cur, mx = f[f'current_size_{which}'], f[f'max_size_{which}']
        inv = z3.ULE(cur, mx)
        fits = z3.ULE(z3.ZeroExt(1, cur) + z3.ZeroExt(1, size), z3.ZeroExt(1, mx))
        rp = replay_bsc(which, f, size)
        hs_paths = run.explore(ex, ex.start(has_space, [B.cell(o), size]))
        for i, p in enumerate(hs_paths):
            if p.kind != 'return':
                run.prove(f'{which}_has_space no panic[{i}]', p.pc + [inv], z3.BoolVal(False), replay=rp); continue
            run.prove(f'{which}_has_space <=> current+size <= max [{i}]', p.pc + [inv], p.result == fits, replay=rp)
        # checked_add
        o2, f2 = sym_bsc(ex)          # same symbolic names -> same variables
        ref = B.cell(o2)
        ca_paths = run.explore(ex, ex.start(checked_add, [ref, size]))
        for i, p in enumerate(ca_paths):
            if p.kind != 'return':
                run.prove(f'{which}_checked_add no panic[{i}]', p.pc + [inv], z3.BoolVal(False), replay=rp); continue
            res = p.result
            post = ex.read(p, p.roots['args'][0].loc)
            vals = {k: B.fld(ex, p, post, k, 'usize') for k in f}
            frame = z3.And(*[vals[k] == f[k] for k in f if k != f'current_size_{which}'])
            is_ok = res.discr == 'Ok'
            run.sample({'fn': f'{which}_checked_add', 'path': i, 'result': res.discr, 'pc': [str(z3.simplify(c))[:120] for c in p.pc]})
            if is_ok:
                run.prove(f'{which}_checked_add Ok => fits, current\' = current+size <= max, frame [{i}]', p.pc + [inv],
                          z3.And(fits, vals[f'current_size_{which}'] == cur + size, z3.ULE(vals[f'current_size_{which}'], mx), frame), replay=rp)
            else:
                run.prove(f'{which}_checked_add Err => does not fit, state unchanged [{i}]', p.pc + [inv],
                          z3.And(z3.Not(fits), vals[f'current_size_{which}'] == cur, frame), replay=rp)
    run.require_reached(*run.cur.reach)
