"""C06 — Honest proposals accepted; malformed / over-limit rejected (astria-sequencer MIR)."""
import os
import z3
from vlib.oblig import obligation, mval
from vlib import loader, replay, snap, build as B
from mirsym.engine import Obj, Ref, Inconclusive

BSC = 'crates/astria-sequencer/src/proposal/block_size_constraints.rs'


def engine(hooks=None, **kw):
    return loader.load(['astria-sequencer'], hooks=hooks, **kw)


def sym_bsc(ex, tag=''):
    f = {k: z3.BitVec(k + tag, 64) for k in ('max_size_sequencer', 'max_size_cometbft', 'current_size_sequencer', 'current_size_cometbft')}
    return B.struct(ex, 'BlockSizeConstraints', **f), f


def replay_bsc(which, f, size):
    """native replay: the real struct + impl compiled standalone (eyre replaced by a unit error type shim)"""
    def rp(model, path):
        vals = {k: mval(model, v) for k, v in f.items()}; sz = mval(model, size)
        src = open(os.path.join(snap.REPO, BSC)).read()
        import re
        m = re.search(r'impl BlockSizeConstraints \{', src)
        fns = []
        for name in (which + '_has_space', which + '_checked_add'):
            t = replay.extract_fn(os.path.join(snap.REPO, BSC), name)
            if t is None:
                return {'mode': 'native', 'reproduced': None, 'error': f'{name} not found'}
            fns.append(t)
        prelude = '''
type Result<T> = std::result::Result<T, String>;
trait OptionExt<T> { fn ok_or_eyre(self, m: &'static str) -> Result<T>; }
impl<T> OptionExt<T> for Option<T> { fn ok_or_eyre(self, m: &'static str) -> Result<T> { self.ok_or(m.to_string()) } }
macro_rules! ensure { ($c:expr, $m:expr $(,)?) => { if !($c) { return Err($m.to_string()); } }; }
#[derive(Copy, Clone, Debug, PartialEq)]
struct BlockSizeConstraints { max_size_sequencer: usize, max_size_cometbft: usize, current_size_sequencer: usize, current_size_cometbft: usize }
impl BlockSizeConstraints {
''' + '\n'.join(fns) + '\n}\n'
        main = f'''let mut b = BlockSizeConstraints {{ max_size_sequencer: {vals['max_size_sequencer']}, max_size_cometbft: {vals['max_size_cometbft']}, current_size_sequencer: {vals['current_size_sequencer']}, current_size_cometbft: {vals['current_size_cometbft']} }};
let before = b; let hs = b.{which}_has_space({sz}); let r = b.{which}_checked_add({sz});
println!("{{}} {{}} {{}} {{}}", hs, r.is_ok(), b.current_size_{which}, before == b || r.is_ok());'''
        r = replay.run_standalone([], main, prelude)
        if 'error' in r:
            return {'mode': 'native', 'reproduced': None, 'error': r['error']}
        cur, mx = vals[f'current_size_{which}'], vals[f'max_size_{which}']
        fits = cur + sz <= mx
        bad = False
        for prof in ('dev', 'release'):
            if r[prof]['panicked']:
                bad = True; continue
            hs, okk, newcur, unchanged_on_err = r[prof]['stdout'][-1].split()
            if (hs == 'true') != (okk == 'true') or (okk == 'true') != fits or (okk == 'true' and int(newcur) != cur + sz) or unchanged_on_err != 'true':
                bad = True
        return {'mode': 'native-standalone', 'inputs': dict(vals, size=sz), 'expected_fits': fits, 'got': {p: r[p]['stdout'][-1] for p in ('dev', 'release')}, 'reproduced': bad}
    return rp


@obligation('C06', 'C06-1 block size constraint algebra')
def c06_1(run):
    ex = engine()
    run.bound(inputs='arbitrary BlockSizeConstraints state with current <= max (the invariant `new`/checked_add establish), arbitrary usize size', unroll='loop-free')
    for which in ('sequencer', 'cometbft'):
        has_space = ex.find(rf'block_size_constraints.*::{which}_has_space$')
        checked_add = ex.find(rf'block_size_constraints.*::{which}_checked_add$')
        size = z3.BitVec('size', 64)
        # has_space
        o, f = sym_bsc(ex)
        cur, mx = f[f'current_size_{which}'], f[f'max_size_{which}']
        inv = z3.ULE(cur, mx)
        fits = z3.ULE(z3.ZeroExt(1, cur) + z3.ZeroExt(1, size), z3.ZeroExt(1, mx))
        rp = replay_bsc(which, f, size)
        hs_paths = run.explore(ex, ex.start(has_space, [B.cell(o), size]))
        for i, p in enumerate(hs_paths):
            if p.kind != 'return':
                run.prove(f'{which}_has_space no panic[{i}]', p.pc + [inv], z3.BoolVal(False), replay=rp); continue
            run.prove(f'{which}_has_space <=> current+size <= max [{i}]', p.pc + [inv], p.result == fits, replay=rp)
        # checked_add
        o2, f2 = sym_bsc(ex)          # same symbolic names -> same variables
        ref = B.cell(o2)
        ca_paths = run.explore(ex, ex.start(checked_add, [ref, size]))
        for i, p in enumerate(ca_paths):
            if p.kind != 'return':
                run.prove(f'{which}_checked_add no panic[{i}]', p.pc + [inv], z3.BoolVal(False), replay=rp); continue
            res = p.result
            post = ex.read(p, p.roots['args'][0].loc)
            vals = {k: B.fld(ex, p, post, k, 'usize') for k in f}
            frame = z3.And(*[vals[k] == f[k] for k in f if k != f'current_size_{which}'])
            is_ok = res.discr == 'Ok'
            run.sample({'fn': f'{which}_checked_add', 'path': i, 'result': res.discr, 'pc': [str(z3.simplify(c))[:120] for c in p.pc]})
            if is_ok:
                run.prove(f'{which}_checked_add Ok => fits, current\' = current+size <= max, frame [{i}]', p.pc + [inv],
                          z3.And(fits, vals[f'current_size_{which}'] == cur + size, z3.ULE(vals[f'current_size_{which}'], mx), frame), replay=rp)
            else:
                run.prove(f'{which}_checked_add Err => does not fit, state unchanged [{i}]', p.pc + [inv],
                          z3.And(z3.Not(fits), vals[f'current_size_{which}'] == cur, frame), replay=rp)
    run.require_reached(*run.cur.reach)


# ----------------------------------------------------------------------------------------------------------------- C06-2
import re
from vlib import actions as A
from mirsym import models as M
from mirsym.engine import ok, err, some, none

GROUP = 'astria_core::protocol::transaction::v1::Group'


def c06_hooks():
    def h_len(ctx):
        return [(None, z3.BitVec('tx_len', 64))]

    def h_rollup_bytes(ctx):
        it = Obj('Iter', kind='iter'); b = Obj('bytes::Bytes'); b.attrs['symlen'] = z3.BitVec('tx_sequence_data_len', 64)
        it.attrs['src'] = M.new_vec('Vec', [(Ref(('field', Obj('h', kind='cell'), ('*', 0, 'RollupId'))), Ref(('field', _cell_with(b), ('*', 0, 'Bytes'))))]); it.attrs['pos'] = 0; it.attrs['mode'] = 'val'
        return [(None, it)]

    def h_bytes_len(ctx):
        v = ctx.ex.deref_val(ctx.st, ctx.args[0])
        if isinstance(v, Obj) and 'symlen' in v.attrs:
            return [(None, v.attrs['symlen'])]
        return [(None, z3.BitVec('tx_len', 64))]

    def h_group(ctx):
        g = Obj(GROUP); g.discr = z3.BitVec('tx_group', 64)
        ctx.st.pc.append(z3.Or(*[g.discr == z3.BitVecVal(v, 64) for v in (1, 2, 3, 4)]))
        return [(None, g)]

    def h_exec(ctx):
        st = ctx.st
        kind = z3.BitVec('exec_outcome', 8)       # 0 ok, 1 non-fatal action failure, 2 invalid nonce, 3 other (fatal)
        st.pc.append(z3.ULE(kind, 3))
        st.log.append(('execute_transaction',))

        def alts(ex, s2, fut):
            def mk(variant):
                def f(s3):
                    e = Obj('checked_transaction::error::CheckedTransactionExecutionError'); e.discr = variant
                    if variant == 'CheckedAction':
                        inner = Obj('checked_actions::error::CheckedActionExecutionError'); inner.discr = 'NonFatalExecution'
                        e.fields[('CheckedAction', 0)] = inner
                    return err(e)
                return f
            return [(kind == 0, (lambda s3: ok(M.new_vec('Vec<Event>', [])))), (kind == 1, mk('CheckedAction')), (kind == 2, mk('InvalidNonce')), (kind == 3, mk('NonceOverflowed'))]
        return [(None, M.thunk_future(alts))]

    def h_remove(ctx):
        ctx.st.log.append(('mempool_remove',))
        return [(None, M.thunk_future(lambda ex, s2, fut: [(None, ())]))]
    return [(re.compile(r'^bytes::Bytes::len$|^Bytes::len$'), h_bytes_len), (re.compile(r'CheckedTransaction::rollup_data_bytes$'), h_rollup_bytes),
            (re.compile(r'CheckedTransaction::group$'), h_group), (re.compile(r'(^|::)App::execute_transaction$'), h_exec),
            (re.compile(r'Mempool::remove_tx_invalid$'), h_remove), (re.compile(r'CheckedTransaction::(encoded_bytes|id)$'), lambda ctx: [(None, Ref(('field', _cell_with(Obj(ctx.ret_ty)), ('*', 0, '?'))))]),
            (re.compile(r'^(telemetry::display::)?json'), lambda ctx: [(None, Obj('json'))]), (re.compile(r'Report::new|::to_string$'), lambda ctx: [(None, Obj(ctx.ret_ty, kind='error' if 'Report' in ctx.ret_ty else None))])]


def _cell_with(v):
    h = Obj('cell', kind='cell'); h.fields[('*', 0)] = v
    return h


def mk_proposal(ex, which):
    f = {k: z3.BitVec(k if 'sequencer' in k or which == 'Prepare' else 'process_' + k, 64) for k in ('max_size_sequencer', 'max_size_cometbft', 'current_size_sequencer', 'current_size_cometbft')}
    bsc = B.struct(ex, 'BlockSizeConstraints', **f)
    cur = Obj(GROUP); cur.discr = z3.BitVec('current_group', 64)
    fields = dict(block_size_constraints=bsc, executed_txs=M.new_vec('Vec<ExecutedTransaction>', []), current_tx_group=cur, mempool=Obj('Mempool'))
    if which == 'Prepare':
        fields.update(failed_tx_count=z3.BitVec('failed_tx_count', 64), excluded_tx_count=z3.BitVec('excluded_tx_count', 64), metrics=B.cell(Obj('Metrics')))
    return B.variant(ex, 'app::Proposal', which, **fields), f, cur


@obligation('C06', 'C06-2 proposal_checks_and_tx_execution: what PrepareProposal includes, ProcessProposal accepts; limits, group order and fatal errors are enforced')
def c06_2(run):
    ex, W = A.engine(extra_hooks=c06_hooks())
    f = ex.find(r'^app::<impl at [^>]*>::proposal_checks_and_tx_execution$')
    run.bound(step='one transaction against an arbitrary proposal state (sizes, limits, current group all symbolic; executed list empty)',
              execution='execute_transaction is an oracle with 4 outcomes: ok / non-fatal action failure / invalid nonce / other (fatal)')
    run.bound(sizes='all byte counts < 2^62; in Process mode the CometBFT limit is usize::MAX (new_unlimited_cometbft)')
    run.assume('tx.encoded_bytes().len(), the sequenced-data length and tx.group() are arbitrary values fixed per transaction; invariant current <= max for both counters')
    results = {}
    for which in ('Prepare', 'Process'):
        prop, fv, cur = mk_proposal(ex, which)
        app = Obj('App'); tx = Obj('Arc<CheckedTransaction>', kind='arc'); tx.fields[('in', 0)] = Obj('CheckedTransaction')
        st = ex.start(f, [B.cell(app), tx, B.cell(prop)])
        st.pc += [z3.ULE(fv['current_size_sequencer'], fv['max_size_sequencer']), z3.ULE(fv['current_size_cometbft'], fv['max_size_cometbft']),
                  z3.Or(*[cur.discr == z3.BitVecVal(v, 64) for v in (1, 2, 3, 4)])]
        lim = z3.BitVecVal(1 << 62, 64)
        st.pc += [z3.ULT(fv['current_size_cometbft'], lim), z3.ULT(fv['current_size_sequencer'], lim), z3.ULT(z3.BitVec('tx_len', 64), lim), z3.ULT(z3.BitVec('tx_sequence_data_len', 64), lim)]
        if which == 'Process':
            st.pc.append(fv['max_size_cometbft'] == z3.BitVecVal(2**64 - 1, 64))      # process_proposal uses BlockSizeConstraints::new_unlimited_cometbft()
        results[which] = []
        tl, sl, tg, oc = z3.BitVec('tx_len', 64), z3.BitVec('tx_sequence_data_len', 64), z3.BitVec('tx_group', 64), z3.BitVec('exec_outcome', 8)
        w = lambda x: z3.ZeroExt(2, x)
        fits_seq = z3.ULE(w(fv['current_size_sequencer']) + w(sl), w(fv['max_size_sequencer']))
        fits_comet = z3.ULE(w(fv['current_size_cometbft']) + w(tl), w(fv['max_size_cometbft']))
        group_ok = tg <= cur.discr
        for i, p in enumerate(run.explore(ex, st, poll=True, allow_havoc=(r'^Arguments::|fmt::', r'ExecTxResult', r'Default>::default', r'AbciErrorCode', r'Code::'))):
            lab = f'[{which}, path {i}]'
            if p.kind != 'return':
                run.prove(f'no panic {lab}', p.pc, z3.BoolVal(False), detail=p.info); continue
            r = p.result.fields[('Ready', 0)]
            pr = ex.read(p, p.roots['args'][2].loc)
            included = len(B.vfld(ex, p, pr, which, 'executed_txs').attrs['items']) == 1
            executed = any(e[0] == 'execute_transaction' for e in p.log)
            bsc1 = B.vfld(ex, p, pr, which, 'block_size_constraints')
            seq1, com1 = B.fld(ex, p, bsc1, 'current_size_sequencer', 'usize'), B.fld(ex, p, bsc1, 'current_size_cometbft', 'usize')
            results[which].append((p, r.discr, included))
            run.sample({'mode': which, 'path': i, 'result': r.discr, 'included': included, 'executed': executed})
            if included:
                run.prove(f'included => fits the sequenced-data limit, group not above the current one, execution not fatal; counters grow by exactly the tx sizes {lab}', p.pc,
                          z3.And(fits_seq, group_ok, z3.ULE(oc, 1), seq1 == fv['current_size_sequencer'] + sl, com1 == fv['current_size_cometbft'] + tl,
                                 z3.BoolVal(r.discr == 'Ok'), fits_comet if which == 'Prepare' else z3.BoolVal(True),
                                 ex.discr_value(p, B.vfld(ex, p, pr, which, 'current_tx_group')) == tg))
            else:
                run.prove(f'not included => counters and current group unchanged {lab}', p.pc,
                          z3.And(seq1 == fv['current_size_sequencer'], com1 == fv['current_size_cometbft'], ex.discr_value(p, B.vfld(ex, p, pr, which, 'current_tx_group')) == cur.discr))
            if which == 'Process':
                run.prove(f'ProcessProposal rejects over-limit sequenced data, a group increase, and fatally failing transactions {lab}', p.pc,
                          z3.Implies(z3.Or(z3.Not(fits_seq), z3.Not(group_ok), z3.UGE(oc, 2)), z3.BoolVal(r.discr == 'Err')))
                boc = r.fields.get(('Ok', 0)) if r.discr == 'Ok' else None
                run.prove(f'ProcessProposal never skips a transaction: Ok means the transaction was included and the loop continues {lab}', p.pc,
                          z3.BoolVal(True) if r.discr == 'Err' else (z3.And(z3.BoolVal(included), ex.discr_value(p, boc) == z3.BitVecVal(ex.adts.variant_index(boc.ty, 'Continue'), 64)) if boc is not None else z3.BoolVal(False)))
            if executed:
                run.prove(f'a transaction is executed only after the size and group checks passed {lab}', p.pc, z3.And(fits_seq, group_ok, fits_comet if which == 'Prepare' else z3.BoolVal(True)))
    # agreement: every input on which Prepare includes the tx is accepted (Ok, included) by Process
    acc = z3.Or(*[z3.And(*p.pc) for p, d, inc in results['Process'] if d == 'Ok' and inc]) if any(d == 'Ok' and inc for _, d, inc in results['Process']) else z3.BoolVal(False)
    n = 0
    for p, d, inc in results['Prepare']:
        if inc:
            n += 1
            pre_process = [z3.BitVec('process_max_size_cometbft', 64) == z3.BitVecVal(2**64 - 1, 64), z3.ULT(z3.BitVec('process_current_size_cometbft', 64), z3.BitVecVal(1 << 62, 64))]
            run.prove(f'agreement: whatever PrepareProposal includes, ProcessProposal accepts on the same inputs [prepare path {n}]', p.pc + pre_process, acc)
    if not n:
        raise Inconclusive('vacuity: Prepare never includes')
    run.require_reached(*run.cur.reach)


from obligations import c05 as _c05
obligation('C06', 'C06-3 process_proposal accepts an executed block only if both commitments in the block equal the ones regenerated after executing its transactions')(_c05.c06_3)


# ----------------------------------------------------------------------------------------------------------------- C06-4
@obligation('C06', 'C06-4 the space reserved for the two commitments equals their size on the wire (DataItem-encoded: 2 x (tag + length + 32) = 68 bytes; legacy raw: 64), and BlockSizeConstraints::new starts from exactly that reservation')
def c06_4(run):
    ex = engine()
    cands = [n for n in ex.fns if n.endswith('::total_size') and 'closure' not in n and (ex.impl_self(n) or (None, ''))[1].startswith('GeneratedCommitments')]
    if len(cands) != 1:
        raise Inconclusive(f'GeneratedCommitments::total_size not found: {cands}')
    newf = [n for n in ex.fns if n.endswith('::new') and 'closure' not in n and (ex.impl_self(n) or (None, ''))[1] == 'BlockSizeConstraints']
    if len(newf) != 1:
        raise Inconclusive(f'BlockSizeConstraints::new not found: {newf}')
    run.bound(inputs='both values of USES_DATA_ITEM_ENUM; every i64 cometbft_max_size', wire_size='protobuf arithmetic for `DataItem { oneof value { bytes = N } }` with N < 16 and a 32-byte payload: 1 key byte + 1 length byte + 32')
    wire = {True: 2 * (1 + 1 + 32), False: 64}
    for flag in (True, False):
        ex.const_params = {'USES_DATA_ITEM_ENUM': z3.BoolVal(flag)}
        for i, p in enumerate(run.explore(ex, ex.start(cands[0], []))):
            if p.kind != 'return':
                run.prove(f'total_size::<{flag}> does not panic', p.pc, z3.BoolVal(False), detail=p.info); continue
            run.sample({'uses_data_item_enum': flag, 'total_size': str(z3.simplify(p.result))})
            run.prove(f'total_size::<{flag}>() equals the wire size of the two commitment items ({wire[flag]} bytes)', p.pc, p.result == z3.BitVecVal(wire[flag], 64))
        # new(_, flag) calls GeneratedCommitments::<flag>::total_size(): the const generic is bound accordingly
        mx = z3.BitVec('cometbft_max_size', 64)
        for i, p in enumerate(run.explore(ex, ex.start(newf[0], [mx, z3.BoolVal(flag)]), allow_havoc=(r'^Arguments::|fmt::',))):
            if p.kind != 'return':
                run.prove(f'BlockSizeConstraints::new(_, {flag}) does not panic [path {i}]', p.pc, z3.BoolVal(False), detail=p.info); continue
            if p.result.discr != 'Ok':
                run.prove(f'new(_, {flag}) fails only for a negative limit or one below the reservation [path {i}]', p.pc, z3.Or(mx < 0, z3.ULT(mx, z3.BitVecVal(wire[flag], 64))))
                continue
            c = ex.deref_val(p, p.result.fields[('Ok', 0)])
            run.prove(f'new(max, {flag}) => limit = max, nothing sequenced yet, and the cometbft size starts at the commitments\' wire size [path {i}]', p.pc,
                      z3.And(B.fld(ex, p, c, 'max_size_cometbft', 'usize') == mx, B.fld(ex, p, c, 'current_size_sequencer', 'usize') == 0, B.fld(ex, p, c, 'current_size_cometbft', 'usize') == z3.BitVecVal(wire[flag], 64)))
    run.require_reached(*run.cur.reach)


# ----------------------------------------------------------------------------------------------------------------- C06-5
def _step_hook(which):
    """proposal_checks_and_tx_execution as an oracle: per call an arbitrary outcome (Continue+included, Continue+skipped [Prepare only], Break, Err);
    the per-step behaviour itself is C06-2 (which also shows Process never answers skipped/Break)"""
    def h_step(ctx):
        st = ctx.st
        k = sum(1 for e in st.log if e[0] == 'step')
        tx = ctx.args[1]
        st.log.append(('step', tx.attrs.get('idx') if isinstance(tx, Obj) else None))
        oc = z3.BitVec(f'step_outcome_{k}', 8); st.pc.append(z3.ULE(oc, 3))

        def alts(ex, s2, fut):
            def include(s3):
                pr = ex.read(s3, s3.tr(fut.attrs['prop']).loc)
                vec = B.vfld(ex, s3, pr, which, 'executed_txs')
                vec.attrs['items'].append(B.struct(ex, 'ExecutedTransaction', tx=s3.tr(fut.attrs['tx']), exec_result=Obj('ExecTxResult')))
                return ok(_boc(ex, 'Continue'))
            return [(oc == 0, include), (oc == 1, (lambda s3: ok(_boc(ex, 'Continue')))), (oc == 2, (lambda s3: ok(_boc(ex, 'Break')))),
                    (oc == 3, (lambda s3: err(Obj('eyre::Report', kind='error'))))]
        return [(None, M.thunk_future(alts, prop=ctx.args[2], tx=tx))]
    return h_step


def _boc(ex, name):
    a = ex.adts.lookup('app::BreakOrContinue')
    if not a:
        raise Inconclusive('enum BreakOrContinue not found (refactored?)')
    o = Obj(a['path']); o.discr = name
    return o


@obligation('C06', 'C06-5 process_proposal_tx_execution: every transaction of the proposal is checked+executed exactly once, in block order; an error from any step rejects the proposal; Ok returns exactly the included transactions in order')
def c06_5(run):
    N = 3 if run.tier == 'quick' else 4
    run.bound(txs=f'proposals of 0..{N} transactions', step='proposal_checks_and_tx_execution is an oracle with 4 outcomes per call (its own behaviour is C06-2)')
    ex, W = A.engine(extra_hooks=[(re.compile(r'(^|::)proposal_checks_and_tx_execution$'), _step_hook('Process')),
                                  (re.compile(r'Mempool as (std::clone::)?Clone>::clone$'), lambda ctx: [(None, Obj('Mempool'))])] + c06_hooks())
    f = ex.find(r'^app::<impl at [^>]*>::process_proposal_tx_execution$')
    for n in range(N + 1):
        txs = []
        for i in range(n):
            t = Obj('Arc<CheckedTransaction>', kind='arc'); t.attrs['idx'] = i; t.fields[('in', 0)] = Obj('CheckedTransaction'); txs.append(t)
        app = B.struct(ex, 'App', mempool=Obj('Mempool'))
        bsc, _ = sym_bsc(ex)
        st = ex.start(f, [B.cell(app), B.cell(M.new_vec('Vec<Arc<CheckedTransaction>>', txs)), bsc])
        ocs = [z3.BitVec(f'step_outcome_{k}', 8) for k in range(n)]
        nret = 0
        for i, p in enumerate(run.explore(ex, st, poll=True)):
            lab = f'[n={n}, path {i}]'
            if p.kind != 'return':
                run.prove(f'no panic {lab}', p.pc, z3.BoolVal(False), detail=p.info); continue
            r = p.result.fields[('Ready', 0)]
            steps = [e[1] for e in p.log if e[0] == 'step']
            run.sample({'n': n, 'path': i, 'result': r.discr, 'steps': steps})
            run.prove(f'the steps are a prefix of the block in block order, each transaction at most once {lab}', p.pc, z3.BoolVal(steps == list(range(len(steps)))))
            # the first step that does not answer "continue" (Break or Err) ends the loop; nothing after it is executed
            for k in range(len(steps) - 1):
                run.prove(f'a step is taken only after every earlier step continued [{k}] {lab}', p.pc, z3.ULE(ocs[k], 1))
            if r.discr == 'Ok':
                nret += 1
                run.prove(f'Ok => no step failed {lab}', p.pc, z3.And(*[ocs[k] != 3 for k in range(len(steps))]) if steps else z3.BoolVal(True))
                run.prove(f'Ok => all {n} transactions were stepped through unless a step asked to break {lab}', p.pc,
                          z3.Or(z3.BoolVal(len(steps) == n), *([ocs[len(steps) - 1] == 2] if steps else [])))
                out = r.fields[('Ok', 0)]
                items = out.attrs['items']
                got = []
                for it in items:
                    t = B.fld(ex, p, it, 'tx')
                    got.append(t.attrs.get('idx') if isinstance(t, Obj) else None)
                inc = [k for k in range(len(steps))]
                # expected: exactly those k whose outcome is 0 — decided per path by the solver
                import itertools
                run.prove(f'Ok => the executed list is exactly the included transactions, in order {lab}', p.pc,
                          z3.And(z3.BoolVal(got == sorted(got) and len(set(got)) == len(got)), *[(ocs[k] == 0) == z3.BoolVal(k in got) for k in inc]))
            else:
                run.prove(f'Err => some step failed {lab}', p.pc, z3.Or(*[ocs[k] == 3 for k in range(len(steps))]) if steps else z3.BoolVal(False))
        if not nret:
            raise Inconclusive(f'vacuity: no Ok path for n={n}')
    run.require_reached(*run.cur.reach)


# ----------------------------------------------------------------------------------------------------------------- C06-6
@obligation('C06', 'C06-6 prepare_proposal_tx_execution: mempool transactions are stepped through in builder-queue order until a step asks to stop; the proposal contains exactly the included ones, in that order, and the same list (with results) is cached for process/finalize')
def c06_6(run):
    N = 3 if run.tier == 'quick' else 4
    run.bound(txs=f'builder queues of 0..{N} transactions', step='proposal_checks_and_tx_execution is an oracle with 4 outcomes per call (its own behaviour is C06-2)',
              state='Arc::try_begin_transaction / object_put / apply are logging stubs (ephemeral object store)')
    holder = {}

    def h_queue(ctx):
        return [(None, M.thunk_future(lambda ex, s2, fut: [(None, (lambda s3: s3.tr(fut.attrs['q'])))], q=holder['q']))]

    def h_put(ctx):
        key = ctx.args[1]; val = ctx.args[2]
        ctx.st.log.append(('object_put', M.const_str(ctx.ex, ctx.st, key) if hasattr(M, 'const_str') else None, val))
        return [(None, ())]
    hooks = [(re.compile(r'(^|::)proposal_checks_and_tx_execution$'), _step_hook('Prepare')),
             (re.compile(r'Mempool as (std::clone::)?Clone>::clone$'), lambda ctx: [(None, Obj('Mempool'))]),
             (re.compile(r'Mempool::len$'), lambda ctx: [(None, M.thunk_future(lambda ex, s2, fut: [(None, z3.BitVec('mempool_len', 64))]))]),
             (re.compile(r'Mempool::builder_queue$'), h_queue),
             (re.compile(r'try_begin_transaction'), lambda ctx: [(None, some(Obj('StateDelta', kind='opaque')))]),
             (re.compile(r'object_put::<'), h_put),
             (re.compile(r'StateDelta<.*>::apply$|::apply$'), lambda ctx: [(None, ())])] + c06_hooks()
    ex, W = A.engine(extra_hooks=hooks)
    f = ex.find(r'^app::<impl at [^>]*>::prepare_proposal_tx_execution$')
    for n in range(N + 1):
        txs = []
        for i in range(n):
            t = Obj('Arc<CheckedTransaction>', kind='arc'); t.attrs['idx'] = i; t.fields[('in', 0)] = Obj('CheckedTransaction'); txs.append(t)
        holder['q'] = M.new_vec('Vec<Arc<CheckedTransaction>>', txs)
        app = B.struct(ex, 'App', mempool=Obj('Mempool'), metrics=B.cell(Obj('Metrics')), state=Obj('Arc<StateDelta<Snapshot>>', kind='arc'))
        bsc, _ = sym_bsc(ex)
        st = ex.start(f, [B.cell(app), bsc])
        st.scratch = holder['q']           # keep the queue inside the state so that clones carry it
        ocs = [z3.BitVec(f'step_outcome_{k}', 8) for k in range(n)]
        nret = 0
        for i, p in enumerate(run.explore(ex, st, poll=True, allow_havoc=(r'^Arguments::|fmt::',))):
            lab = f'[n={n}, path {i}]'
            if p.kind != 'return':
                run.prove(f'no panic {lab}', p.pc, z3.BoolVal(False), detail=p.info); continue
            r = p.result.fields[('Ready', 0)]
            steps = [e[1] for e in p.log if e[0] == 'step']
            puts = [e for e in p.log if e[0] == 'object_put']
            run.sample({'n': n, 'path': i, 'result': r.discr, 'steps': steps, 'puts': len(puts)})
            run.prove(f'the steps are a prefix of the builder queue, in queue order {lab}', p.pc, z3.BoolVal(steps == list(range(len(steps)))))
            for k in range(len(steps) - 1):
                run.prove(f'a step is taken only after every earlier step continued [{k}] {lab}', p.pc, z3.ULE(ocs[k], 1))
            if r.discr == 'Ok':
                nret += 1
                run.prove(f'Ok => no step failed; the whole queue was stepped through unless a step asked to stop {lab}', p.pc,
                          z3.And(*[ocs[k] != 3 for k in range(len(steps))], z3.Or(z3.BoolVal(len(steps) == n), *([ocs[len(steps) - 1] == 2] if steps else []))))
                got = [(t.attrs.get('idx') if isinstance(t, Obj) else None) for t in r.fields[('Ok', 0)].attrs['items']]
                run.prove(f'Ok => the proposal is exactly the included transactions, in order {lab}', p.pc,
                          z3.And(z3.BoolVal(got == sorted(got) and len(set(got)) == len(got)), *[(ocs[k] == 0) == z3.BoolVal(k in got) for k in range(len(steps))]))
                cached = None
                if len(puts) == 1 and isinstance(puts[0][2], Obj) and 'items' in puts[0][2].attrs:
                    cached = []
                    for it in puts[0][2].attrs['items']:
                        t = B.fld(ex, p, it, 'tx'); cached.append(t.attrs.get('idx') if isinstance(t, Obj) else None)
                run.prove(f'Ok => exactly one executed-transactions list is cached and it holds the same transactions as the proposal {lab}', p.pc, z3.BoolVal(cached == got))
            else:
                run.prove(f'Err => some step failed {lab}', p.pc, z3.Or(*[ocs[k] == 3 for k in range(len(steps))]) if steps else z3.BoolVal(False))
        if not nret:
            raise Inconclusive(f'vacuity: no Ok path for n={n}')
    run.require_reached(*run.cur.reach)


# ----------------------------------------------------------------------------------------------------------------- C06-7 / C06-8 (honest proposals survive post-execution; shared with C07-1 / C07-4)
from obligations import c07 as _c07
obligation('C06', 'C06-7 the commitments PrepareProposal generates are the canonical ones (rollups in ascending id order, submissions then deposits): exactly what the block builder recomputes after execution, so an honest proposal is not rejected there (= C07-1)')(_c07.c07_1)
obligation('C06', 'C06-8 the block builder used after executing a proposal accepts exactly the canonical commitments (= C07-4)')(_c07.c07_4)


# ----------------------------------------------------------------------------------------------------------------- C06-9
def replay_empty_eci(model=None, path=None):
    """native: the fallback item (ExtendedCommitInfo(Bytes::new())) through the parser of ProcessProposal"""
    code = open('/verif/replay_templates/c06_empty_eci.rs').read()
    r = replay.run_crate_test('astria-core', 'crates/astria-core/src/sequencerblock/v1/block/mod.rs', code, 'verif_replay_c06_eci')
    if not r['lines']:
        return {'mode': 'native-crate-test', 'reproduced': None, 'error': r['output'][-1500:]}
    o = r['lines'][-1]
    return {'mode': 'native-crate-test', 'scenario': 'block data [commitments, DataItem::ExtendedCommitInfo(empty bytes)] parsed with vote extensions enabled', 'observed': o, 'reproduced': not o['parsed']}


@obligation('C06', 'C06-9 prepare_proposal assembly: the response is commitments, upgrade hashes (if any), extended commit info (if enabled; the empty one when the real one does not fit), then exactly the included transactions in order, and its total size never exceeds max_tx_bytes')
def c06_9(run):
    from obligations import c05 as C5
    R = re.compile
    wire = {True: 68, False: 64}
    cfg = {}
    LIM = z3.BitVecVal(1 << 62, 64)

    def bytes_obj(tag, ln, prov=None):
        b = Obj('bytes::Bytes', kind='opaque'); b.attrs['tag'] = tag; b.attrs['symlen'] = ln; b.attrs['prov'] = prov
        return b

    def prov_of(ctx, v):
        v = ctx.ex.deref_val(ctx.st, v)
        return v.attrs.get('prov') if isinstance(v, Obj) else None

    def tagged(ty, prov):
        o = Obj(ty, kind='opaque'); o.attrs['prov'] = prov
        return o

    def _with(o, **attrs):
        o.attrs.update({k: v for k, v in attrs.items() if v is not None})
        return o

    def round_of(ctx, v):
        v = ctx.ex.deref_val(ctx.st, v)
        return v.attrs.get('round') if isinstance(v, Obj) else None

    def h_encode(ctx):
        item = ctx.ex.deref_val(ctx.st, ctx.args[0])
        d = item.discr if isinstance(item.discr, str) else (ctx.ex.adts.variant_name(item.ty, item.discr) if isinstance(item.discr, int) else None)
        if d == 'UpgradeChangeHashes':
            return [(None, bytes_obj('upgrade_hashes', z3.BitVec('upgrade_hashes_len', 64)))]
        if d == 'ExtendedCommitInfo':
            inner = ctx.ex.deref_val(ctx.st, item.fields[('ExtendedCommitInfo', 0)])
            pv = inner.attrs.get('prov') if isinstance(inner, Obj) else None
            # the first commit-info item a run encodes is the real one (or the vote-less one when generating it failed); a second one is the size fallback
            k = sum(1 for e in ctx.st.log if e[0] == 'encode_eci'); ctx.st.log.append(('encode_eci',))
            rnd = inner.attrs.get('round') if isinstance(inner, Obj) else None
            if k >= 1:
                return [(None, _with(bytes_obj('eci_empty', z3.BitVec('eci_empty_len', 64), pv), round=rnd))]
            return [(None, _with(bytes_obj('eci_full', z3.BitVec('eci_full_len', 64), pv), round=rnd))]
        raise Inconclusive(f'DataItem::encode of unexpected variant {item.discr!r} of {item.ty}')

    def h_pre(ctx):
        st = ctx.st; okv = z3.Bool('pre_execute_ok'); has = z3.Bool('upgrade_due')
        st.log.append(('pre_execute',))
        one = lambda s: ok(M.new_vec('Vec<ChangeHash>', [Obj('ChangeHash', kind='opaque')]))
        return [(None, M.thunk_future(lambda ex, s2, fut: [(z3.And(okv, has), one), (z3.And(okv, z3.Not(has)), (lambda s: ok(M.new_vec('Vec<ChangeHash>', [])))), (z3.Not(okv), (lambda s: err()))]))]

    def h_ve(ctx):
        okv = z3.Bool('ve_query_ok')
        return [(None, M.thunk_future(lambda ex, s2, fut: [(okv, ok(z3.Bool('vote_extensions_enabled'))), (z3.Not(okv), (lambda s: err()))]))]

    def h_handler(ctx):
        okv = z3.Bool('commit_info_ok')
        mk = lambda s: ok(tagged('ExtendedCommitInfoWithCurrencyPairMapping', 'handler'))
        return [(None, M.thunk_future(lambda ex, s2, fut: [(okv, mk), (z3.Not(okv), (lambda s: err()))]))]

    def h_txexec(ctx):
        st = ctx.st; ex = ctx.ex
        bsc = ex.deref_val(st, ctx.args[1])
        cur = B.fld(ex, st, bsc, 'current_size_cometbft', 'usize'); mx = B.fld(ex, st, bsc, 'max_size_cometbft', 'usize')
        st.log.append(('tx_execution', cur, mx))
        k = cfg['ntx']; lens = [z3.BitVec(f'tx_len_{i}', 64) for i in range(k)]
        tot = z3.ZeroExt(8, cur)
        for l in lens:
            tot = tot + z3.ZeroExt(8, l)
        # contract of prepare_proposal_tx_execution (C06-2 + C06-6): every included transaction fitted the remaining CometBFT budget when it was added
        fits = z3.And(z3.ULE(tot, z3.ZeroExt(8, mx)), *[z3.ULT(l, LIM) for l in lens])
        okv = z3.Bool('tx_execution_ok')

        def mk(s):
            txs = []
            for i in range(k):
                t = Obj('Arc<CheckedTransaction>', kind='arc'); t.attrs['idx'] = i; c = Obj('CheckedTransaction'); c.attrs['idx'] = i; t.fields[('in', 0)] = c; txs.append(t)
            return ok(M.new_vec('Vec<Arc<CheckedTransaction>>', txs))
        return [(None, M.thunk_future(lambda ex2, s2, fut: [(z3.And(okv, fits), mk), (z3.Not(okv), (lambda s: err()))]))]

    def h_encoded_bytes(ctx):
        tx = ctx.ex.deref_val(ctx.st, ctx.args[0]); i = tx.attrs.get('idx')
        return [(None, B.cell(bytes_obj(f'tx{i}', z3.BitVec(f'tx_len_{i}', 64))))]

    def h_commit(ctx):
        flag = cfg['flag']
        a, b = bytes_obj('commitment0', z3.BitVec('commitment0_len', 64)), bytes_obj('commitment1', z3.BitVec('commitment1_len', 64))
        ctx.st.pc.append(a.attrs['symlen'] + b.attrs['symlen'] == z3.BitVecVal(wire[flag], 64)); ctx.st.pc += [z3.ULE(a.attrs['symlen'], 68), z3.ULE(b.attrs['symlen'], 68)]
        o = Obj('GeneratedCommitments', kind='opaque'); o.attrs['parts'] = [a, b]
        return [(None, o)]

    def h_commit_iter(ctx):
        o = ctx.ex.deref_val(ctx.st, ctx.args[0])
        it = Obj('Iter', kind='iter'); it.attrs['src'] = M.new_vec('Vec', list(o.attrs['parts'])); it.attrs['pos'] = 0; it.attrs['mode'] = 'val'
        return [(None, it)]

    def h_set_prepared(ctx):
        ctx.st.log.append(('set_prepared', ctx.args[2]))
        okv = z3.Bool('set_prepared_ok')
        return [(okv, ok(())), (z3.Not(okv), (lambda s: err()))]

    def h_bytes_len(ctx):
        v = ctx.ex.deref_val(ctx.st, ctx.args[0])
        if isinstance(v, Obj) and 'symlen' in v.attrs:
            return [(None, v.attrs['symlen'])]
        raise Inconclusive(f'len of untracked buffer {v!r}')
    ident = lambda ctx: [(None, ctx.ex.deref_val(ctx.st, ctx.args[0]))]
    hooks = [
        (R(r'(^|::)App::update_state_for_new_round$'), lambda ctx: (ctx.st.log.append(('reset',)), [(None, ())])[1]),
        (R(r'(^|::)App::pre_execute_transactions$'), h_pre),
        (R(r'DataItem::encode$'), h_encode),
        (R(r'(^|::)App::uses_data_item_enum$'), lambda ctx: [(None, z3.BoolVal(cfg['flag']))]),
        (R(r'(^|::)App::vote_extensions_enabled$'), h_ve),
        (R(r'ProposalHandler::prepare_proposal(::<.*>)?$'), h_handler),
        (R(r'ExtendedCommitInfoWithCurrencyPairMapping::empty$'), lambda ctx: [(None, _with(tagged('ExtendedCommitInfoWithCurrencyPairMapping', 'empty(round)'), round=ctx.ex.deref_val(ctx.st, ctx.args[0])))]),
        (R(r'ExtendedCommitInfoWithCurrencyPairMapping::into_raw$'), lambda ctx: [(None, _with(tagged('RawExtendedCommitInfo', ('raw_of', prov_of(ctx, ctx.args[0]))), round=round_of(ctx, ctx.args[0])))]),
        (R(r'Message>::encode_to_vec$'), lambda ctx: [(None, _with(tagged('Vec<u8>', ('encoded', prov_of(ctx, ctx.args[0]))), round=round_of(ctx, ctx.args[0])))]),
        (R(r'^<(bytes::)?Bytes as From<Vec<u8>>>::from$|^<Vec<u8> as Into<(bytes::)?Bytes>>::into$'), lambda ctx: [(None, _with(bytes_obj('eci_payload', z3.BitVec('eci_payload_len', 64), prov_of(ctx, ctx.args[0])), round=round_of(ctx, ctx.args[0])))]),
        (R(r'^(bytes::)?Bytes::new$'), lambda ctx: [(None, bytes_obj('empty', z3.BitVecVal(0, 64), 'empty_bytes'))]),
        (R(r'^(bytes::)?Bytes::len$'), h_bytes_len),
        (R(r'(^|::)App::prepare_proposal_tx_execution$'), h_txexec),
        (R(r'get_cached_block_deposits$'), lambda ctx: [(None, M.new_map('HashMap<RollupId, Vec<Deposit>>', []))]),
        (R(r'^(proposal::commitment::)?generate_rollup_datas_commitment::<.*>$'), h_commit),
        (R(r'GeneratedCommitments<.*> as (std::iter::)?IntoIterator>::into_iter$'), h_commit_iter),
        (R(r'CheckedTransaction::encoded_bytes$'), h_encoded_bytes),
        (R(r'^<(bytes::)?Bytes as (std::clone::)?Clone>::clone$'), ident),
        (R(r'^<tendermint::abci::(request|response)::PrepareProposal as (std::clone::)?Clone>::clone$'), lambda ctx: [(None, ctx.ex.copy_val(ctx.ex.deref_val(ctx.st, ctx.args[0])))]),
        (R(r'set_prepared_proposal$'), h_set_prepared),
        (R(r'(^|::)Metrics::\w+$'), lambda ctx: [(None, ())]),
        (R(r'(^|::)Height::value$|^<tendermint::block::Height as Into<u64>>::into$'), ident),
    ]
    sc = {k: v for k, v in C5.SCALARS.items()}
    n_ok = 0
    for flag in (True, False):
        for ntx in (0, 1, 2):
            cfg['flag'] = flag; cfg['ntx'] = ntx
            ex = loader.load(['astria-sequencer', 'astria-core'], scalar_types=sc, dep_adts=['tendermint'], hooks=hooks)
            ex.const_params = {'USES_DATA_ITEM_ENUM': z3.BoolVal(flag)}
            cands = [n for n in ex.fns if n.endswith('::prepare_proposal') and 'closure' not in n and ex.impl_self(n) == (None, 'App')]
            if len(cands) != 1:
                raise Inconclusive(f'App::prepare_proposal not found: {cands}')
            mx = z3.BitVec('max_tx_bytes', 64)
            llc = z3.Bool('local_last_commit_present')
            lc = Obj('std::option::Option<tendermint::abci::types::ExtendedCommitInfo>'); lc.discr = z3.If(llc, z3.BitVecVal(1, 64), z3.BitVecVal(0, 64))
            lc.fields[('Some', 0)] = B.struct(ex, 'tendermint::abci::types::ExtendedCommitInfo', round=z3.BitVec('round', 32))
            req = B.struct(ex, 'tendermint::abci::request::PrepareProposal', max_tx_bytes=mx, local_last_commit=lc, height=z3.BitVec('height', 64))
            app = B.struct(ex, 'app::App', execution_state=Obj('ExecutionStateMachine', kind='opaque'), metrics=B.cell(Obj('Metrics')), state=Obj('Arc<StateDelta<Snapshot>>', kind='arc'))
            st = ex.start(cands[0], [B.cell(app), req, Obj('Storage', kind='opaque')])
            st.pc += [z3.ULT(z3.BitVec(n_, 64), LIM) for n_ in ('upgrade_hashes_len', 'eci_full_len', 'eci_empty_len')]
            for i, p in enumerate(run.explore(ex, st, poll=True, allow_havoc=(r'^Arguments::|fmt::', r'BlockData'))):
                lab = f'[data-item enum {flag}, {ntx} included txs, path {i}]'
                if p.kind != 'return':
                    run.prove(f'no panic {lab}', p.pc, z3.BoolVal(False), detail=p.info); continue
                kind, r = A.poll_result(p)
                names = [e[0] for e in p.log]
                run.sample({'flag': flag, 'ntx': ntx, 'path': i, 'result': kind, 'effects': names})
                run.prove(f'the round is reset before anything else and exactly once {lab}', p.pc, z3.BoolVal(names[:1] == ['reset'] and names.count('reset') == 1))
                if kind != 'Ok':
                    continue
                n_ok += 1
                resp = ex.deref_val(p, r.fields[('Ok', 0)])
                items = [ex.deref_val(p, x) for x in ex.deref_val(p, B.fld(ex, p, resp, 'txs', 'Vec<Bytes>')).attrs['items']]
                tags = [it.attrs.get('tag') for it in items]
                total = z3.BitVecVal(0, 72)
                for it in items:
                    total = total + z3.ZeroExt(8, it.attrs['symlen'])
                up, ve = z3.Bool('upgrade_due'), z3.Bool('vote_extensions_enabled')
                exp_fixed = ['commitment0', 'commitment1']
                has_up = 'upgrade_hashes' in tags; has_eci = any(t in ('eci_full', 'eci_empty') for t in tags)
                expect = exp_fixed + (['upgrade_hashes'] if has_up else []) + ([t for t in tags if t in ('eci_full', 'eci_empty')][:1] if has_eci else []) + [f'tx{j}' for j in range(ntx)]
                run.prove(f'response order: commitments, upgrade hashes iff an upgrade ran, commit info iff vote extensions are enabled, then the included transactions in order {lab}', p.pc,
                          z3.And(z3.BoolVal(tags == expect), up == z3.BoolVal(has_up), ve == z3.BoolVal(has_eci)))
                run.prove(f'total size of the response <= max_tx_bytes {lab}', p.pc, z3.And(mx >= 0, z3.ULE(total, z3.ZeroExt(8, mx))))
                for it in items:
                    if it.attrs.get('tag') in ('eci_full', 'eci_empty'):
                        pv = it.attrs.get('prov')
                        run.prove(f'the commit-info item placed in the block is the encoding of a well-formed ExtendedCommitInfoWithCurrencyPairMapping (what every validator parses in ProcessProposal), never a bare empty byte string (C06-10: that is rejected) {lab}',
                                  p.pc, z3.BoolVal(isinstance(pv, tuple) and pv[0] == 'encoded' and isinstance(pv[1], tuple) and pv[1][0] == 'raw_of' and pv[1][1] in ('handler', 'empty(round)')),
                                  replay=replay_empty_eci, classify=(lambda model: None), detail={'provenance': str(pv)})
                        if isinstance(pv, tuple) and 'empty(round)' in str(pv):
                            rnd = it.attrs.get('round')
                            run.prove(f'a vote-less commit info carries the round of the local last commit (validators compare it with the proposed last commit\'s round) {lab}', p.pc,
                                      (rnd == z3.BitVec('round', 32)) if z3.is_expr(rnd) else z3.BoolVal(False), detail={'round': str(rnd)})
                if 'eci_empty' in tags:
                    # the empty one is used only when the real one did not fit on top of commitments (+ upgrade hashes)
                    base = z3.BitVecVal(wire[flag], 72) + (z3.ZeroExt(8, z3.BitVec('upgrade_hashes_len', 64)) if has_up else z3.BitVecVal(0, 72))
                    run.prove(f'the empty commit info replaces the real one only if the real one does not fit {lab}', p.pc, z3.UGT(base + z3.ZeroExt(8, z3.BitVec('eci_full_len', 64)), z3.ZeroExt(8, mx)))
                sp = [e for e in p.log if e[0] == 'set_prepared']
                run.prove(f'the fingerprint is taken of the response that is returned {lab}', p.pc,
                          z3.BoolVal(len(sp) == 1 and [ex.deref_val(p, x).attrs.get('tag') for x in ex.deref_val(p, B.fld(ex, p, ex.deref_val(p, sp[0][1]), 'txs', 'Vec<Bytes>')).attrs['items']] == tags))
    if not n_ok:
        raise Inconclusive('vacuity: prepare_proposal never succeeds')
    run.require_reached(*run.cur.reach)


# ----------------------------------------------------------------------------------------------------------------- C06-10
@obligation('C06', 'C06-10 what ProcessProposal accepts as a commit-info item: a message whose extended_commit_info field is unset (which is what empty bytes decode to) is rejected')
def c06_10(run):
    ex = loader.load(['astria-core'], dep_adts=['tendermint'], scalar_types={'tendermint::block::Round': 32})
    tfr = [n for n in ex.fns if n.endswith('::try_from_raw') and 'closure' not in n and (ex.impl_self(n) or (None, ''))[1] == 'ExtendedCommitInfoWithCurrencyPairMapping']
    if len(tfr) != 1:
        raise Inconclusive(f'ExtendedCommitInfoWithCurrencyPairMapping::try_from_raw not found: {tfr}')
    run.bound(messages='the protobuf default message (prost decodes an empty buffer to it: every optional field unset, every repeated field empty)')
    run.assume('prost::Message::decode of an empty buffer yields the default message (protobuf semantics)')
    RAW = 'astria_core::generated::astria::protocol::price_feed::v1::ExtendedCommitInfoWithCurrencyPairMapping'
    raw = B.struct(ex, RAW, extended_commit_info=none(), id_to_currency_pair=M.new_vec('Vec<IdWithCurrencyPair>', []))
    n = 0
    for i, p in enumerate(run.explore(ex, ex.start(tfr[0], [raw]), allow_havoc=(r'^Arguments::|fmt::',))):
        if p.kind != 'return':
            run.prove(f'no panic [path {i}]', p.pc, z3.BoolVal(False), detail=p.info); continue
        n += 1
        run.sample({'path': i, 'result': p.result.discr})
        run.prove(f'the default message (= decoded empty bytes) is rejected: extended_commit_info is not set [path {i}]', p.pc, z3.BoolVal(p.result.discr == 'Err'))
    if not n:
        raise Inconclusive('vacuity')
    run.require_reached(*run.cur.reach)
