"""C08 — Merkle tree: RFC 6962 roots, complete and sound proofs, total verification (Kani on the index arithmetic + mirsym on the walk)."""
import z3
from vlib.oblig import obligation, mval
from vlib import kani, loader, build as B
from mirsym.engine import Obj, Ref, Inconclusive

OVERLAYS = [('crates/astria-merkle/src/lib.rs', 'verif_kani_lib', '/verif/kani/merkle/lib_harness.rs')]
QUICK = ['complete_root_is_inside_tree', 'leaf_index_check_is_total', 'complete_parent_total_below_root']
THOROUGH = QUICK + ['children_and_parent_agree']


def kani_obligation(run, crate, overlays, harnesses, rel_file, modname, harness_file, timeout_s=1500):
    res = kani.run(crate, overlays, harnesses, timeout_s=timeout_s)
    run.cur.bounds.update({'engine': 'Kani 0.68 / CBMC 6.11', 'unwind': 66, 'domain': 'full 64-bit usize inputs; unwinding assertions on'})
    unconfirmed = []
    for h in harnesses:
        r = res.get(h, {'status': 'error'})
        run.cur.queries.append({'label': f'kani:{h}', 'result': r['status'], 's': r.get('s'), 'cbmc_s': r.get('cbmc_s'), 'checks': r.get('checks'), 'covers': r.get('covers')})
        run.cur.paths += 1
        run.cur.solver_s += r.get('cbmc_s') or 0
        run.sample({'harness': h, 'status': r['status'], 'checks': r.get('checks'), 'covers': r.get('covers'), 'wall_s': r.get('s')})
        run.cur.fns[f'{crate}::{h}'] = {'crate': crate, 'engine': 'kani'}
        if r['status'] == 'success':
            bad = [c for c, s in (r.get('covers') or {}).items() if s != 'SATISFIED']
            if bad:
                raise Inconclusive(f'kani harness {h}: vacuity witness not satisfied: {bad}')
            run.reached(h)
            continue
        if r['status'] in ('error', 'timeout'):
            raise Inconclusive(f'kani harness {h}: {r["status"]}: {r.get("tail", "")[-400:]}')
        # failure: concrete playback + native replay
        vals, info = kani.playback(crate, overlays, h)

        def rp(model, path, vals=vals, h=h):
            if vals is None:
                return {'mode': 'native', 'reproduced': None, 'error': 'kani concrete playback produced no values: ' + str(info)}
            return kani.native_replay(crate, rel_file, modname, harness_file, h, vals)
        run.reached(h)
        if run.counterexample(f'kani:{h}', None, rp, None, detail={'failed_checks': r.get('failed'), 'summary': r.get('summary')}, soft=True) is None:
            unconfirmed.append(h)
    if unconfirmed and not run.cur.violations:
        raise Inconclusive(f'kani reported failures that did not reproduce natively (std debug-assertion artefacts or harness issue): {unconfirmed}')


@obligation('C08', 'C08-K index arithmetic lemmas (Kani, full 64-bit)')
def c08_k(run):
    hs = QUICK if run.tier == 'quick' else THOROUGH
    kani_obligation(run, 'astria-merkle', OVERLAYS, hs, 'crates/astria-merkle/src/lib.rs', 'verif_kani_lib', '/verif/kani/merkle/lib_harness.rs',
                    timeout_s=600 if run.tier == 'quick' else 3000)
    run.assume('Kani models the dev profile (overflow checks on); release-profile wrapping is covered by the native replay in both profiles only for counterexamples')


# ===================================================================================================================
# E2: the proof walk and the tree structure, hashes as free constructors (collision-free hash model)
_H = z3.Datatype('Hash')
_H.declare('atom', ('aid', z3.IntSort()))
_H.declare('leaf', ('lbytes', z3.IntSort()))
_H.declare('node', ('nl', _H), ('nr', _H))
Hash = _H.create()
SCALARS = {'std::num::NonZero': 64, 'NonZero': 64, 'NonZeroUsize': 64}
INVALID_PROOF_CTORS = (r'^InvalidProof::(zero_tree_size|leaf_index_outside_tree|audit_path_not_multiple_of_32)$',)


def merkle_engine(hooks):
    import re
    return loader.load(['astria-merkle'], scalar_types=SCALARS, hooks=[(re.compile(rx), h) for rx, h in hooks])


def h_combine(ctx):
    l, r = (ctx.ex.deref_val(ctx.st, a) for a in ctx.args[:2])
    if not (z3.is_expr(l) and l.sort() == Hash and z3.is_expr(r) and r.sort() == Hash):
        raise Inconclusive(f'combine on non-hash values {l!r} {r!r}')
    ctx.st.log.append(('combine', l, r))
    return [(None, Hash.node(l, r))]


def h_chunks(ctx):
    from mirsym import models as M
    v = M.shaped(ctx.ex, ctx.st, ctx.args[0], 'audit path')
    it = Obj('Chunks', kind='iter'); it.attrs['src'] = v; it.attrs['pos'] = 0; it.attrs['mode'] = 'val'
    return [(None, it)]


def h_complete_parent_contract(ctx):
    """assume-guarantee: the contract proved by the Kani lemma `complete_parent_total_below_root` for the full 64-bit domain"""
    ex, st = ctx.ex, ctx.st
    i, n = ctx.args
    root = st.world['root_of'](n)
    pre = z3.And(z3.ULT(i, n), i != root)
    p = z3.BitVec(f'parent_{len(st.log)}', 64)
    st.log.append(('complete_parent', i, n))

    def okk(s2):
        s2.pc += [z3.ULT(p, n), z3.Extract(0, 0, p) == 1, p != i]
        return p
    from mirsym.engine import Diverge
    small = z3.ULT(n, z3.BitVecVal(1 << 63, 64))
    return [(z3.And(z3.Not(pre), small), Diverge('panic', 'complete_parent called at the root / outside the tree: the walk climbs to usize::MAX and unwraps None')),
            (z3.And(z3.Not(pre), z3.Not(small)), Diverge('abort', 'complete_parent outside its proved contract for a tree size >= 2^63 (behaviour not modelled)')),
            (pre, okk)]


@obligation('C08', 'C08-W proof walk is total for every tree size, leaf index and path length <= K')
def c08_walk(run):
    K = 4 if run.tier == 'quick' else 7
    run.bound(audit_path_segments=f'0..{K}', tree_size='every NonZeroUsize', leaf_index='every index accepted by try_into_proof',
              complete_parent='replaced by its Kani-proved contract (assume-guarantee); complete_root, leaf_index_to_tree_index executed from MIR')
    run.assume('hashes are free constructors (collision-free model): combine(l, r) = node(l, r)')
    hooks = [(r'^combine$', h_combine), (r'^core::slice::<impl \[u8\]>::chunks$', h_chunks), (r'^complete_parent$', h_complete_parent_contract),
             (r'^(std::num::)?NonZero::<usize>::get$', lambda ctx: [(None, ctx.args[0])])]
    ex = merkle_engine(hooks)
    walk = ex.find(r'audit::<impl at [^>]*>::reconstruct_root_with_leaf_hash$')
    croot = ex.find(r'^complete_root$')
    # complete_root as a function of n, obtained by executing its MIR once per n-term (loop-free)
    def root_of(n):
        ps = ex.run(ex.start(croot, [n]))
        vals = [(p.pc, p.result) for p in ps if p.kind == 'return']
        if any(p.kind not in ('return', 'infeasible') for p in ps):
            raise Inconclusive('complete_root can diverge: ' + str([(p.kind, p.info) for p in ps if p.kind != 'return']))
        e = vals[-1][1]
        for pc, v in vals[:-1]:
            e = z3.If(z3.And(*pc) if pc else z3.BoolVal(True), v, e)
        return e
    for k in range(K + 1):
        n, li = z3.BitVec('tree_size', 64), z3.BitVec('leaf_index', 64)
        sibs = [z3.Const(f'sibling{j}', Hash) for j in range(k)]
        from mirsym import models as M
        path = M.new_vec('Vec<u8>', sibs)
        proof = B.struct(ex, 'Proof', audit_path=path, leaf_index=li, tree_size=n)
        leaf_hash = z3.Const('leaf_hash', Hash)
        valid = [n != 0, z3.ULE(li, z3.BitVecVal((1 << 63) - 1, 64)), z3.ULT(li * 2, n)]     # what try_into_proof establishes (checked below)
        st = ex.start(walk, [B.cell(proof), leaf_hash], world={'root_of': root_of})
        st.pc += valid
        paths = run.explore(ex, st, defer_abort=True)
        nret = 0
        aborted = [p for p in paths if p.kind == 'abort']
        for i, p in enumerate(paths):
            if p.kind == 'abort':
                continue
            if p.kind == 'return':
                nret += 1
                run.reached(f'walk returns k={k}')
                if k <= 2:
                    run.sample({'k': k, 'path': i, 'root_term': str(z3.simplify(p.result))[:160]})
                continue
            run.prove(f'no panic with {k} segments [path {i}]', p.pc, z3.BoolVal(False), replay=replay_walk(k, n, li), detail=p.info)
        run.cur.queries.append({'label': f'walk k={k}: {nret} returning paths, {len(paths) - nret} diverging', 'result': 'explored', 's': 0})
        if aborted and not run.cur.violations:
            raise Inconclusive('walk reaches unmodelled behaviour: ' + str(aborted[0].info))
    # try_into_proof establishes `valid`
    tip = ex.find(r'audit::<impl at [^>]*>::try_into_proof$')
    for plen in (0, 1, 2):
        n, li = z3.BitVec('tree_size', 64), z3.BitVec('leaf_index', 64)
        path = M.new_vec('Vec<u8>', [z3.Const(f's{j}', Hash) for j in range(plen)])
        path.attrs['bytes_per_item'] = 32
        up = B.struct(ex, 'UncheckedProof', audit_path=path, leaf_index=li, tree_size=n)
        hooks2 = ex.hooks
        for i, p in enumerate(run.explore(ex, ex.start(tip, [up]), allow_havoc=INVALID_PROOF_CTORS)):
            if p.kind != 'return':
                run.prove(f'try_into_proof no panic [len {plen}, path {i}]', p.pc, z3.BoolVal(False), replay=replay_tip(n, li, plen), detail=p.info); continue
            if p.result.discr == 'Ok':
                run.prove(f'try_into_proof Ok => tree_size != 0 and 2*leaf_index < tree_size without wrap [len {plen}, path {i}]', p.pc,
                          z3.And(n != 0, z3.ULE(li, z3.BitVecVal((1 << 63) - 1, 64)), z3.ULT(li * 2, n)), replay=replay_tip(n, li, plen))
    run.require_reached(*run.cur.reach)


def replay_walk(k, n_e, li_e):
    from vlib import replay

    def rp(model, path):
        n, li = mval(model, n_e), mval(model, li_e)
        code = f'''
#[cfg(test)]
mod verif_replay_walk {{
    #[test]
    fn verif_replay_walk() {{
        let r = std::panic::catch_unwind(|| {{
            let p = crate::Proof::unchecked().audit_path(vec![7u8; 32 * {k}]).leaf_index({li}usize).tree_size({n}usize).try_into_proof();
            match p {{ Ok(p) => {{ let _ = p.verify(b"leaf", [1u8; 32]); "verified-without-panic" }}, Err(_) => "rejected" }}
        }});
        println!("VERIF: {{{{\\"verdict\\": \\"{{}}\\"}}}}", match r {{ Ok(s) => s, Err(_) => "panic" }});
    }}
}}'''
        r = replay.run_crate_test('astria-merkle', 'crates/astria-merkle/src/lib.rs', code, 'verif_replay_walk')
        v = r['lines'][-1]['verdict'] if r['lines'] else None
        return {'mode': 'native-crate-test', 'inputs': {'tree_size': n, 'leaf_index': li, 'segments': k}, 'verdict': v, 'reproduced': (v == 'panic') if v else None,
                'error': None if v else r['output'][-1200:]}
    return rp


def replay_tip(n_e, li_e, plen):
    def rp(model, path):
        return replay_walk(plen, n_e, li_e)(model, path)
    return rp
