"""C08 — Merkle tree: RFC 6962 roots, complete and sound proofs, total verification (Kani on the index arithmetic + mirsym on the walk)."""
import z3
from vlib.oblig import obligation, mval
from vlib import kani, loader, build as B
from mirsym.engine import Obj, Ref, Inconclusive

OVERLAYS = [('crates/astria-merkle/src/lib.rs', 'verif_kani_lib', '/verif/kani/merkle/lib_harness.rs')]
QUICK = ['complete_root_is_inside_tree', 'leaf_index_check_is_total', 'complete_parent_total_below_root']
THOROUGH = QUICK + ['children_and_parent_agree']


def kani_obligation(run, crate, overlays, harnesses, rel_file, modname, harness_file, timeout_s=1500):
    res = kani.run(crate, overlays, harnesses, timeout_s=timeout_s)
    run.cur.bounds.update({'engine': 'Kani 0.68 / CBMC 6.11', 'unwind': 66, 'domain': 'full 64-bit usize inputs; unwinding assertions on'})
    unconfirmed = []
    for h in harnesses:
        r = res.get(h, {'status': 'error'})
        run.cur.queries.append({'label': f'kani:{h}', 'result': r['status'], 's': r.get('s'), 'cbmc_s': r.get('cbmc_s'), 'checks': r.get('checks'), 'covers': r.get('covers')})
        run.cur.paths += 1
        run.cur.solver_s += r.get('cbmc_s') or 0
        run.sample({'harness': h, 'status': r['status'], 'checks': r.get('checks'), 'covers': r.get('covers'), 'wall_s': r.get('s')})
        run.cur.fns[f'{crate}::{h}'] = {'crate': crate, 'engine': 'kani'}
        if r['status'] == 'success':
            bad = [c for c, s in (r.get('covers') or {}).items() if s != 'SATISFIED']
            if bad:
                raise Inconclusive(f'kani harness {h}: vacuity witness not satisfied: {bad}')
            run.reached(h)
            continue
        if r['status'] in ('error', 'timeout'):
            raise Inconclusive(f'kani harness {h}: {r["status"]}: {r.get("tail", "")[-400:]}')
        # failure: concrete playback + native replay
        vals, info = kani.playback(crate, overlays, h)

        def rp(model, path, vals=vals, h=h):
            if vals is None:
                return {'mode': 'native', 'reproduced': None, 'error': 'kani concrete playback produced no values: ' + str(info)}
            return kani.native_replay(crate, rel_file, modname, harness_file, h, vals)
        run.reached(h)
        if run.counterexample(f'kani:{h}', None, rp, None, detail={'failed_checks': r.get('failed'), 'summary': r.get('summary')}, soft=True) is None:
            unconfirmed.append(h)
    if unconfirmed and not run.cur.violations:
        raise Inconclusive(f'kani reported failures that did not reproduce natively (std debug-assertion artefacts or harness issue): {unconfirmed}')


@obligation('C08', 'C08-K index arithmetic lemmas (Kani, full 64-bit)')
def c08_k(run):
    hs = QUICK if run.tier == 'quick' else THOROUGH
    kani_obligation(run, 'astria-merkle', OVERLAYS, hs, 'crates/astria-merkle/src/lib.rs', 'verif_kani_lib', '/verif/kani/merkle/lib_harness.rs',
                    timeout_s=600 if run.tier == 'quick' else 3000)
    run.assume('Kani models the dev profile (overflow checks on); release-profile wrapping is covered by the native replay in both profiles only for counterexamples')
