"""C08 — Merkle tree: RFC 6962 roots, complete and sound proofs, total verification (Kani on the index arithmetic + mirsym on the walk)."""
import z3
from vlib.oblig import obligation, mval
from vlib import kani, loader, build as B
from mirsym.engine import Obj, Ref, Inconclusive

OVERLAYS = [('crates/astria-merkle/src/lib.rs', 'verif_kani_lib', '/verif/kani/merkle/lib_harness.rs')]
QUICK = ['complete_root_is_inside_tree', 'leaf_index_check_is_total', 'complete_parent_total_below_root']
THOROUGH = QUICK + ['children_and_parent_agree']


def kani_obligation(run, crate, overlays, harnesses, rel_file, modname, harness_file, timeout_s=1500):
    res = kani.run(crate, overlays, harnesses, timeout_s=timeout_s)
    run.cur.bounds.update({'engine': 'Kani 0.68 / CBMC 6.11', 'unwind': 66, 'domain': 'full 64-bit usize inputs; unwinding assertions on'})
    unconfirmed = []
    for h in harnesses:
        r = res.get(h, {'status': 'error'})
        run.cur.queries.append({'label': f'kani:{h}', 'result': r['status'], 's': r.get('s'), 'cbmc_s': r.get('cbmc_s'), 'checks': r.get('checks'), 'covers': r.get('covers')})
        run.cur.paths += 1
        run.cur.solver_s += r.get('cbmc_s') or 0
        run.sample({'harness': h, 'status': r['status'], 'checks': r.get('checks'), 'covers': r.get('covers'), 'wall_s': r.get('s')})
        run.cur.fns[f'{crate}::{h}'] = {'crate': crate, 'engine': 'kani'}
        if r['status'] == 'success':
            bad = [c for c, s in (r.get('covers') or {}).items() if s != 'SATISFIED']
            if bad:
                raise Inconclusive(f'kani harness {h}: vacuity witness not satisfied: {bad}')
            run.reached(h)
            continue
        if r['status'] in ('error', 'timeout'):
            raise Inconclusive(f'kani harness {h}: {r["status"]}: {r.get("tail", "")[-400:]}')
        # failure: concrete playback + native replay
        vals, info = kani.playback(crate, overlays, h)

        def rp(model, path, vals=vals, h=h):
            if vals is None:
                return {'mode': 'native', 'reproduced': None, 'error': 'kani concrete playback produced no values: ' + str(info)}
            last = None
            for cand in vals[:8]:          # one candidate per failed check / satisfied cover: the first that panics natively is the counterexample
                last = kani.native_replay(crate, rel_file, modname, harness_file, h, cand)
                if last.get('reproduced'):
                    return last
            return last
        run.reached(h)
        if run.counterexample(f'kani:{h}', None, rp, None, detail={'failed_checks': r.get('failed'), 'summary': r.get('summary')}, soft=True) is None:
            unconfirmed.append(h)
    if unconfirmed and not run.cur.violations:
        raise Inconclusive(f'kani reported failures that did not reproduce natively (std debug-assertion artefacts or harness issue): {unconfirmed}')


@obligation('C08', 'C08-K index arithmetic lemmas (Kani, full 64-bit)')
def c08_k(run):
    hs = QUICK if run.tier == 'quick' else THOROUGH
    kani_obligation(run, 'astria-merkle', OVERLAYS, hs, 'crates/astria-merkle/src/lib.rs', 'verif_kani_lib', '/verif/kani/merkle/lib_harness.rs',
                    timeout_s=600 if run.tier == 'quick' else 3000)
    run.assume('Kani models the dev profile (overflow checks on); release-profile wrapping is covered by the native replay in both profiles only for counterexamples')


# ===================================================================================================================
# E2: the proof walk and the tree structure, hashes as free constructors (collision-free hash model)
_H = z3.Datatype('Hash')
_H.declare('atom', ('aid', z3.IntSort()))
_H.declare('leaf', ('lbytes', z3.IntSort()))
_H.declare('node', ('nl', _H), ('nr', _H))
Hash = _H.create()
SCALARS = {'std::num::NonZero': 64, 'NonZero': 64, 'NonZeroUsize': 64}
INVALID_PROOF_CTORS = (r'^InvalidProof::(zero_tree_size|leaf_index_outside_tree|audit_path_not_multiple_of_32)$',)


def merkle_engine(hooks):
    import re
    return loader.load(['astria-merkle'], scalar_types=SCALARS, hooks=[(re.compile(rx), h) for rx, h in hooks])


def h_combine(ctx):
    l, r = (ctx.ex.deref_val(ctx.st, a) for a in ctx.args[:2])
    if not (z3.is_expr(l) and l.sort() == Hash and z3.is_expr(r) and r.sort() == Hash):
        raise Inconclusive(f'combine on non-hash values {l!r} {r!r}')
    ctx.st.log.append(('combine', l, r))
    return [(None, Hash.node(l, r))]


def h_chunks(ctx):
    from mirsym import models as M
    v = M.shaped(ctx.ex, ctx.st, ctx.args[0], 'audit path')
    it = Obj('Chunks', kind='iter'); it.attrs['src'] = v; it.attrs['pos'] = 0; it.attrs['mode'] = 'val'
    return [(None, it)]


def h_complete_parent_contract(ctx):
    """assume-guarantee: the contract proved by the Kani lemma `complete_parent_total_below_root` for the full 64-bit domain"""
    ex, st = ctx.ex, ctx.st
    i, n = ctx.args
    root = st.world['root_of'](n)
    pre = z3.And(z3.ULT(i, n), i != root)
    p = z3.BitVec(f'parent_{len(st.log)}', 64)
    st.log.append(('complete_parent', i, n))

    def okk(s2):
        s2.pc += [z3.ULT(p, n), z3.Extract(0, 0, p) == 1, p != i]
        return p
    from mirsym.engine import Diverge
    small = z3.ULT(n, z3.BitVecVal(1 << 63, 64))
    return [(z3.And(z3.Not(pre), small), Diverge('panic', 'complete_parent called at the root / outside the tree: the walk climbs to usize::MAX and unwraps None')),
            (z3.And(z3.Not(pre), z3.Not(small)), Diverge('abort', 'complete_parent outside its proved contract for a tree size >= 2^63 (behaviour not modelled)')),
            (pre, okk)]


@obligation('C08', 'C08-W proof walk is total for every tree size, leaf index and path length <= K')
def c08_walk(run):
    K = 4 if run.tier == 'quick' else 7
    run.bound(audit_path_segments=f'0..{K}', tree_size='every NonZeroUsize', leaf_index='every index accepted by try_into_proof',
              complete_parent='replaced by its Kani-proved contract (assume-guarantee); complete_root, leaf_index_to_tree_index executed from MIR')
    run.assume('hashes are free constructors (collision-free model): combine(l, r) = node(l, r)')
    hooks = [(r'^combine$', h_combine), (r'^core::slice::<impl \[u8\]>::chunks$', h_chunks), (r'^complete_parent$', h_complete_parent_contract),
             (r'^(std::num::)?NonZero::<usize>::get$', lambda ctx: [(None, ctx.args[0])])]
    ex = merkle_engine(hooks)
    walk = ex.find(r'audit::<impl at [^>]*>::reconstruct_root_with_leaf_hash$')
    croot = ex.find(r'^complete_root$')
    # complete_root as a function of n, obtained by executing its MIR once per n-term (loop-free)
    def root_of(n):
        ps = ex.run(ex.start(croot, [n]))
        vals = [(p.pc, p.result) for p in ps if p.kind == 'return']
        if any(p.kind not in ('return', 'infeasible') for p in ps):
            raise Inconclusive('complete_root can diverge: ' + str([(p.kind, p.info) for p in ps if p.kind != 'return']))
        e = vals[-1][1]
        for pc, v in vals[:-1]:
            e = z3.If(z3.And(*pc) if pc else z3.BoolVal(True), v, e)
        return e
    for k in range(K + 1):
        n, li = z3.BitVec('tree_size', 64), z3.BitVec('leaf_index', 64)
        sibs = [z3.Const(f'sibling{j}', Hash) for j in range(k)]
        from mirsym import models as M
        path = M.new_vec('Vec<u8>', sibs)
        proof = B.struct(ex, 'Proof', audit_path=path, leaf_index=li, tree_size=n)
        leaf_hash = z3.Const('leaf_hash', Hash)
        valid = [n != 0, z3.ULE(li, z3.BitVecVal((1 << 63) - 1, 64)), z3.ULT(li * 2, n)]     # what try_into_proof establishes (checked below)
        st = ex.start(walk, [B.cell(proof), leaf_hash], world={'root_of': root_of})
        st.pc += valid
        paths = run.explore(ex, st, defer_abort=True)
        nret = 0
        aborted = [p for p in paths if p.kind == 'abort']
        for i, p in enumerate(paths):
            if p.kind == 'abort':
                continue
            if p.kind == 'return':
                nret += 1
                run.reached(f'walk returns k={k}')
                if k <= 2:
                    run.sample({'k': k, 'path': i, 'root_term': str(z3.simplify(p.result))[:160]})
                continue
            run.prove(f'no panic with {k} segments [path {i}]', p.pc, z3.BoolVal(False), replay=replay_walk(k, n, li), detail=p.info)
        run.cur.queries.append({'label': f'walk k={k}: {nret} returning paths, {len(paths) - nret} diverging', 'result': 'explored', 's': 0})
        if aborted and not run.cur.violations:
            raise Inconclusive('walk reaches unmodelled behaviour: ' + str(aborted[0].info))
    # try_into_proof establishes `valid`
    tip = ex.find(r'audit::<impl at [^>]*>::try_into_proof$')
    for plen in (0, 1, 2):
        n, li = z3.BitVec('tree_size', 64), z3.BitVec('leaf_index', 64)
        path = M.new_vec('Vec<u8>', [z3.Const(f's{j}', Hash) for j in range(plen)])
        path.attrs['bytes_per_item'] = 32
        up = B.struct(ex, 'UncheckedProof', audit_path=path, leaf_index=li, tree_size=n)
        hooks2 = ex.hooks
        for i, p in enumerate(run.explore(ex, ex.start(tip, [up]), allow_havoc=INVALID_PROOF_CTORS)):
            if p.kind != 'return':
                run.prove(f'try_into_proof no panic [len {plen}, path {i}]', p.pc, z3.BoolVal(False), replay=replay_tip(n, li, plen), detail=p.info); continue
            if p.result.discr == 'Ok':
                run.prove(f'try_into_proof Ok => tree_size != 0 and 2*leaf_index < tree_size without wrap [len {plen}, path {i}]', p.pc,
                          z3.And(n != 0, z3.ULE(li, z3.BitVecVal((1 << 63) - 1, 64)), z3.ULT(li * 2, n)), replay=replay_tip(n, li, plen))
    run.require_reached(*run.cur.reach)


def replay_walk(k, n_e, li_e):
    from vlib import replay

    def rp(model, path):
        n, li = mval(model, n_e), mval(model, li_e)
        code = f'''
#[cfg(test)]
mod verif_replay_walk {{
    #[test]
    fn verif_replay_walk() {{
        let r = std::panic::catch_unwind(|| {{
            let p = crate::Proof::unchecked().audit_path(vec![7u8; 32 * {k}]).leaf_index({li}usize).tree_size({n}usize).try_into_proof();
            match p {{ Ok(p) => {{ let _ = p.verify(b"leaf", [1u8; 32]); "verified-without-panic" }}, Err(_) => "rejected" }}
        }});
        println!("VERIF: {{{{\\"verdict\\": \\"{{}}\\"}}}}", match r {{ Ok(s) => s, Err(_) => "panic" }});
    }}
}}'''
        r = replay.run_crate_test('astria-merkle', 'crates/astria-merkle/src/lib.rs', code, 'verif_replay_walk')
        v = r['lines'][-1]['verdict'] if r['lines'] else None
        return {'mode': 'native-crate-test', 'inputs': {'tree_size': n, 'leaf_index': li, 'segments': k}, 'verdict': v, 'reproduced': (v == 'panic') if v else None,
                'error': None if v else r['output'][-1200:]}
    return rp


def replay_tip(n_e, li_e, plen):
    def rp(model, path):
        return replay_walk(plen, n_e, li_e)(model, path)
    return rp


# ===================================================================================================================
# C08-S: tree structure = RFC 6962 for concrete sizes, symbolic leaf contents (hashes as free constructors)
def mth(leaves):
    n = len(leaves)
    if n == 1:
        return Hash.leaf(leaves[0])
    k = 1
    while k * 2 < n:
        k *= 2
    return Hash.node(mth(leaves[:k]), mth(leaves[k:]))


def structure_hooks():
    from mirsym import models as M
    from mirsym.engine import Diverge

    def nodes_of(ctx, tree):
        t = ctx.ex.deref_val(ctx.st, tree)
        a = ctx.ex.adts.lookup('Tree')
        return ctx.ex.read(ctx.st, ('field', t, (None, a['fields'].index('nodes'), 'Vec<u8>')))

    def idx(ctx, v):
        i = z3.simplify(v)
        if not z3.is_bv_value(i):
            raise Inconclusive('symbolic node index in a concrete-shape run')
        return i.as_long()

    def h_get_node(ctx):
        items = nodes_of(ctx, ctx.args[0]).attrs['items']; i = idx(ctx, ctx.args[1])
        if i >= len(items):
            return Diverge('panic', 'get_node outside the tree')
        return [(None, items[i])]

    def h_set_node(ctx):
        items = nodes_of(ctx, ctx.args[0]).attrs['items']; i = idx(ctx, ctx.args[1])
        if i >= len(items):
            return Diverge('panic', 'set_node outside the tree')
        items[i] = ctx.args[2]
        return [(None, ())]

    def h_tree_new(ctx):
        v = M.new_vec('Vec<u8>', []); v.attrs['bytes_per_item'] = 32; v.attrs['zero_atom'] = Hash.atom(z3.IntVal(0))
        return [(None, B.struct(ctx.ex, 'Tree', nodes=v))]

    def h_init_leaf_hasher(ctx):
        o = Obj('Sha256', kind='hasher'); o.attrs['parts'] = []
        return [(None, o)]

    def h_update(ctx):
        h = ctx.ex.deref_val(ctx.st, ctx.args[0]); d = ctx.ex.deref_val(ctx.st, ctx.args[1])
        h.attrs['parts'] = h.attrs['parts'] + [d]
        return [(None, ())]

    def h_finalize(ctx):
        h = ctx.ex.deref_val(ctx.st, ctx.args[0])
        parts = h.attrs['parts']
        if len(parts) != 1 or not z3.is_int(parts[0]):
            raise Inconclusive(f'leaf hasher fed with {parts!r}')
        return [(None, Hash.leaf(parts[0]))]

    return [(r'^Tree::get_node$', h_get_node), (r'^Tree::set_node$', h_set_node), (r'^Tree::new$', h_tree_new), (r'^init_leaf_hasher$', h_init_leaf_hasher),
            (r'Digest>::update(::<.*>)?$|^Sha256::update$|::update::<&\[u8\]>$', h_update), (r'Digest>::finalize$|FixedOutput>::finalize_fixed$', h_finalize),
            (r'^<.*GenericArray<u8.*as Into<\[u8; 32\]>>::into$|^<\[u8; 32\] as From<.*GenericArray', lambda ctx: [(None, ctx.args[0])]),
            (r'^combine$', h_combine), (r'^core::slice::<impl \[u8\]>::chunks$', h_chunks),
            (r'^(std::num::)?NonZero::<usize>::get$', lambda ctx: [(None, ctx.args[0])])]


def run_one(ex, fname, args, what):
    ps = [p for p in ex.run(ex.start(fname, args)) if p.kind != 'infeasible']
    for p in ps:
        if p.kind in ('abort', 'unreachable') or any(e[0] == 'havoc' for e in p.events):
            raise Inconclusive(f'{what}: {p.kind} {p.info} {[e for e in p.events if e[0] == "havoc"][:2]}')
    if len(ps) != 1 or ps[0].kind != 'return':
        return None, [(p.kind, p.info) for p in ps]
    return ps[0], None


@obligation('C08', 'C08-S roots equal RFC 6962 MTH; every constructed proof verifies; a changed leaf / path element / root, a surplus or a missing segment does not')
def c08_structure(run):
    N = 16 if run.tier == 'quick' else 48
    run.bound(leaves=f'every tree size 1..{N} (concrete shapes), symbolic leaf contents; sizes beyond are covered only through the size-independent index lemmas (C08-K)',
              hashing='free constructors leaf(bytes) / node(l, r): a collision-free hash model, so equal terms <=> equal inputs')
    run.assume('SHA-256 is collision free and leaf/inner domain separation holds (modelled by distinct free constructors)')
    ex = merkle_engine(structure_hooks())
    ex.drop_types = {'LeafBuilder'}
    ex.max_steps = 400000 if run.tier == 'quick' else 6000000
    push = ex.find(r'(^|::)<impl at [^>]*>::push$')
    root_f = ex.find(r'(^|::)<impl at [^>]*>::root$')
    cproof = ex.find(r'(^|::)<impl at [^>]*>::construct_proof$')
    walk = ex.find(r'audit::<impl at [^>]*>::reconstruct_root_with_leaf_hash$')
    tnew = ex.find(r'(^|::)<impl at [^>]*>::new$') if False else None
    from mirsym import models as M
    leaves = [z3.Int(f'leaf{i}') for i in range(N)]
    v = M.new_vec('Vec<u8>', []); v.attrs['bytes_per_item'] = 32; v.attrs['zero_atom'] = Hash.atom(z3.IntVal(0))
    tree = B.struct(ex, 'Tree', nodes=v)
    for n in range(1, N + 1):
        p, bad = run_one(ex, push, [B.cell(tree), leaves[n - 1]], 'push')
        if p is None:
            run.prove(f'push of leaf {n} does not panic', [], z3.BoolVal(False), detail=str(bad)); return
        tree = ex.read(p, p.roots['args'][0].loc)
        p, bad = run_one(ex, root_f, [B.cell(tree)], 'root')
        if p is None:
            run.prove(f'root of {n}-leaf tree does not panic', [], z3.BoolVal(False), detail=str(bad)); return
        root = p.result
        ref = mth(leaves[:n])
        run.cur.paths += 1
        run.prove(f'root of {n} leaves == RFC 6962 MTH', [], root == ref, replay=replay_structure(n), detail=str(z3.simplify(root))[:300])
        if n <= 3:
            run.sample({'leaves': n, 'root_term': str(z3.simplify(root))})
        for i in range(n):
            p, bad = run_one(ex, cproof, [B.cell(tree), z3.BitVecVal(i, 64)], 'construct_proof')
            if p is None or p.result.discr != 'Some':
                run.prove(f'construct_proof({i}) of {n} leaves yields a proof', [], z3.BoolVal(False), replay=replay_structure(n), detail=str(bad)); continue
            proof = p.result.fields[('Some', 0)]
            lh = Hash.leaf(leaves[i])
            pw, bad = run_one(ex, walk, [B.cell(proof), lh], 'walk')
            if pw is None:
                run.prove(f'proof {i}/{n} verifies without panic', [], z3.BoolVal(False), replay=replay_structure(n), detail=str(bad)); continue
            run.cur.paths += 1
            run.prove(f'proof for leaf {i} of {n} reconstructs the root', [], pw.result == root, replay=replay_structure(n))
            if run.tier == 'thorough' or n in (1, 2, 3, 5, 7, 8, 11, 13, 16):
                x = z3.Const('tampered', Hash)
                pw2, _ = run_one(ex, walk, [B.cell(ex.copy_val(proof)), x], 'walk-tampered-leaf')
                run.prove(f'proof {i}/{n}: a different leaf hash does not verify', [x != lh], pw2.result != root)
                path = B.fld(ex, p, proof, 'audit_path', 'Vec<u8>')
                # a surplus segment appended to a valid proof: the walk must not stop at the root and ignore it
                pr4 = ex.copy_val(proof); path4 = B.fld(ex, p, pr4, 'audit_path', 'Vec<u8>')
                path4.attrs['items'] = list(path4.attrs['items']) + [x]
                pw4, bad4 = run_one(ex, walk, [B.cell(pr4), lh], 'walk-surplus-segment')
                if pw4 is None:
                    run.prove(f'proof {i}/{n} with a surplus segment is verified without panic', [], z3.BoolVal(False), detail=str(bad4))
                else:
                    run.prove(f'proof {i}/{n}: a valid audit path with one surplus segment does not verify', [], pw4.result != root)
                if len(path.attrs['items']) >= 1:
                    pr5 = ex.copy_val(proof); path5 = B.fld(ex, p, pr5, 'audit_path', 'Vec<u8>')
                    path5.attrs['items'] = list(path5.attrs['items'])[:-1]
                    pw5, bad5 = run_one(ex, walk, [B.cell(pr5), lh], 'walk-missing-segment')
                    if pw5 is not None:
                        run.prove(f'proof {i}/{n}: an audit path with its last segment removed does not verify', [], pw5.result != root)
                for j in range(len(path.attrs['items'])):
                    pr2 = ex.copy_val(proof); path2 = B.fld(ex, p, pr2, 'audit_path', 'Vec<u8>')
                    orig = path2.attrs['items'][j]; path2.attrs['items'][j] = x
                    pw3, _ = run_one(ex, walk, [B.cell(pr2), lh], 'walk-tampered-path')
                    run.prove(f'proof {i}/{n}: changing path element {j} does not verify', [x != orig], pw3.result != root)
    run.require_reached(*run.cur.reach)


def replay_structure(n):
    from vlib import replay

    def rp(model, path):
        code = f'''
#[cfg(test)]
mod verif_replay_structure {{
    fn mth(leaves: &[Vec<u8>]) -> [u8; 32] {{
        if leaves.len() == 1 {{ return crate::hash_leaf(&leaves[0]); }}
        let mut k = 1; while k * 2 < leaves.len() {{ k *= 2; }}
        crate::combine(&mth(&leaves[..k]), &mth(&leaves[k..]))
    }}
    #[test]
    fn verif_replay_structure() {{
        let leaves: Vec<Vec<u8>> = (0..{n}u32).map(|i| format!("leaf-{{i}}").into_bytes()).collect();
        let r = std::panic::catch_unwind(|| {{
            let tree = crate::Tree::from_leaves(&leaves);
            let root = tree.root();
            let mut ok = root == mth(&leaves);
            for i in 0..leaves.len() {{
                let proof = tree.construct_proof(i).expect("leaf is in the tree");
                ok &= proof.verify(&leaves[i], root);
            }}
            ok
        }});
        println!("VERIF: {{{{\\"verdict\\": \\"{{}}\\"}}}}", match r {{ Ok(true) => "held", Ok(false) => "mismatch", Err(_) => "panic" }});
    }}
}}'''
        r = replay.run_crate_test('astria-merkle', 'crates/astria-merkle/src/lib.rs', code, 'verif_replay_structure')
        v = r['lines'][-1]['verdict'] if r['lines'] else None
        return {'mode': 'native-crate-test', 'inputs': {'leaves': n}, 'verdict': v, 'reproduced': (v in ('mismatch', 'panic')) if v else None, 'error': None if v else r['output'][-1200:]}
    return rp
