"""C14 — the validator set handed to CometBFT mirrors the application's and is never emptied (ValidatorUpdate::execute, one and two actions per block)."""
import z3
from vlib.oblig import obligation, mval
from vlib import build as B, actions as A
from vlib.actions import unchanged
from vlib.seqworld import initial_world
from mirsym.engine import Obj, Inconclusive

VU = 'astria_core::protocol::transaction::v1::action::ValidatorUpdate'
POST_ASPEN = {'all_upgrades_active': True}


def action_fields(ex, W, p, me):
    act = B.fld(ex, p, me, 'action', VU)
    vk = B.fld(ex, p, act, 'verification_key', 'VerificationKey')
    return W.addr(p, vk), B.fld(ex, p, act, 'power', 'u32'), vk


def entry_fields(ex, W, p, e):
    k, v = e
    v = ex.deref_val(p, v)
    return (k if z3.is_bv(k) else W.addr(p, k)), B.fld(ex, p, v, 'power', 'u32')


@obligation('C14', 'C14-1 ValidatorUpdate::execute keeps count = |set|, never empties the set, records the update (post-Aspen)')
def c14_1(run):
    ex, W = A.engine()
    run.bound(state='arbitrary validator map / count (arrays) and empty block update set', action='arbitrary ValidatorUpdate (any key, any power)', upgrades='post-Aspen code path',
              unroll='loop-free')
    run.assume('the address of a verification key is an uninterpreted function of the key')
    w0 = initial_world()
    small = [z3.ULT(w0['validator_count'], z3.BitVecVal(1 << 32, 64))]
    run.bound(validator_count='stored count < 2^32 (saturating arithmetic at u64::MAX is outside the claim)')
    w0, res = A.run_action(run, ex, W, 'ValidatorUpdate', w0=w0, world_extra=POST_ASPEN, pc=small)
    n_ok = 0
    for i, (p, kind, r, me) in enumerate(res):
        if kind == 'panic':
            run.prove(f'no panic [path {i}]', p.pc, z3.BoolVal(False), detail=p.info); continue
        addr, power, vk = action_fields(ex, W, p, me)
        pre_p, post_p = z3.Select(w0['validator_power?'], addr), z3.Select(p.world['validator_power?'], addr)
        c0, c1 = w0['validator_count'], p.world['validator_count']
        ups = p.world['validator_updates']
        run.sample({'path': i, 'result': kind, 'updates': len(ups), 'pc': [str(z3.simplify(c))[:80] for c in p.pc][:6]})
        if kind != 'Ok':
            continue
        n_ok += 1
        a = z3.BitVec('any_addr', 160)
        others = z3.Implies(a != addr, z3.And(z3.Select(p.world['validator_power?'], a) == z3.Select(w0['validator_power?'], a),
                                              z3.Select(p.world['validator_power'], a) == z3.Select(w0['validator_power'], a)))
        delta = z3.If(z3.And(z3.Not(pre_p), post_p), c1 == c0 + 1, z3.If(z3.And(pre_p, z3.Not(post_p)), c1 == c0 - 1, c1 == c0))
        run.prove(f'Ok => only this validator\'s entry changes and the count moves with its membership (count = |set| is preserved) [path {i}]', p.pc,
                  z3.And(others, delta))
        run.prove(f'Ok => power 0 removes an existing validator and never the last one; power > 0 stores exactly that power [path {i}]', p.pc,
                  z3.If(power == 0, z3.And(pre_p, z3.Not(post_p), z3.UGT(c0, 1)),
                        z3.And(post_p, z3.Select(p.world['validator_power'], addr) == z3.ZeroExt(32, power), z3.Select(p.world['validator_key'], addr) == vk)))
        if len(ups) != 1:
            run.prove(f'Ok => exactly one entry in the block update set [path {i}]', p.pc, z3.BoolVal(False)); continue
        ka, kp = entry_fields(ex, W, p, ups[0])
        run.prove(f'Ok => the block update set holds this action under the validator\'s address [path {i}]', p.pc, z3.And(ka == addr, kp == power))
    if not n_ok:
        raise Inconclusive('vacuity: no Ok path')
    run.require_reached(*run.cur.reach)


def classify_f8(w0, a1, pw1, a2, pw2):
    """the recorded finding is exactly: first action adds a validator absent at block start, second action removes that same validator"""
    def c(model):
        ev = lambda e: model.eval(e, model_completion=True)
        is_f8 = z3.And(z3.Not(z3.Select(w0['validator_power?'], a1)), pw1 != 0, a2 == a1, pw2 == 0)
        return 'remove-of-validator-added-in-same-block' if z3.is_true(ev(is_f8)) else None
    return c


@obligation('C14', 'C14-2 two ValidatorUpdates in one block: update set mirrors the stored set; no removal of a validator CometBFT does not have')
def c14_2(run):
    ex, W = A.engine()
    run.bound(block='two ValidatorUpdate actions in one block (all add/update/remove x same/different key combinations), block update set empty at block start', upgrades='post-Aspen')
    w0 = initial_world()
    small = [z3.ULT(w0['validator_count'], z3.BitVecVal(1 << 32, 64))]
    run.bound(validator_count='stored count < 2^32')
    w0, first = A.run_action(run, ex, W, 'ValidatorUpdate', w0=w0, world_extra=POST_ASPEN, pc=small)
    n2 = 0
    for i, (p1, k1, r1, me1) in enumerate(first):
        if k1 != 'Ok':
            continue
        a1, pw1, _ = action_fields(ex, W, p1, me1)
        _, second = A.run_action(run, ex, W, 'ValidatorUpdate', w0=w0, start_world=p1.world, pc=p1.pc, tag='second')
        for j, (p2, k2, r2, me2) in enumerate(second):
            if k2 != 'Ok':
                continue
            n2 += 1
            a2, pw2, _ = action_fields(ex, W, p2, me2)
            ups = p2.world['validator_updates']
            lab = f'[first path {i}, second path {j}]'
            run.sample({'first': i, 'second': j, 'updates': len(ups)})
            a = z3.BitVec('any_addr', 160)
            ents = [entry_fields(ex, W, p2, e) for e in ups]
            # mirror: applying the update set (keyed by address) to the block-start set gives the stored set
            upd_present, upd_power = z3.BoolVal(False), z3.BitVecVal(0, 32)
            for ka, kp in ents:
                upd_power = z3.If(ka == a, kp, upd_power); upd_present = z3.Or(upd_present, ka == a)
            pre_p, post_p = z3.Select(w0['validator_power?'], a), z3.Select(p2.world['validator_power?'], a)
            mirror = z3.If(upd_present, z3.If(upd_power == 0, z3.Not(post_p), z3.And(post_p, z3.Select(p2.world['validator_power'], a) == z3.ZeroExt(32, upd_power))),
                           z3.And(post_p == pre_p, z3.Select(p2.world['validator_power'], a) == z3.Select(w0['validator_power'], a)))
            distinct = z3.And(*[ents[x][0] != ents[y][0] for x in range(len(ents)) for y in range(x + 1, len(ents))]) if len(ents) > 1 else z3.BoolVal(True)
            run.prove(f'update set keyed by distinct addresses and, applied to the block-start set, equals the stored set {lab}', p2.pc, z3.And(distinct, mirror))
            run.prove(f'stored count follows the membership changes of both actions {lab}', p2.pc,
                      p2.world['validator_count'] == w0['validator_count']
                      + z3.If(z3.And(z3.Not(z3.Select(w0['validator_power?'], a1)), z3.Select(p1.world['validator_power?'], a1)), z3.BitVecVal(1, 64), z3.BitVecVal(0, 64))
                      - z3.If(z3.And(z3.Select(w0['validator_power?'], a1), z3.Not(z3.Select(p1.world['validator_power?'], a1))), z3.BitVecVal(1, 64), z3.BitVecVal(0, 64))
                      + z3.If(z3.And(z3.Not(z3.Select(p1.world['validator_power?'], a2)), z3.Select(p2.world['validator_power?'], a2)), z3.BitVecVal(1, 64), z3.BitVecVal(0, 64))
                      - z3.If(z3.And(z3.Select(p1.world['validator_power?'], a2), z3.Not(z3.Select(p2.world['validator_power?'], a2))), z3.BitVecVal(1, 64), z3.BitVecVal(0, 64)))
            for ka, kp in ents:
                run.prove(f'a power-0 entry only names a validator that was in the set at block start {lab}', p2.pc,
                          z3.Implies(kp == 0, z3.Select(w0['validator_power?'], ka)), classify=classify_f8(w0, a1, pw1, a2, pw2))
    if not n2:
        raise Inconclusive('vacuity: no pair of successful updates')
    run.require_reached(*run.cur.reach)



def replay_f8(model=None, path=None):
    """native demonstration of F8: add-then-remove of a new validator in one block"""
    from vlib import replay
    code = open('/verif/replay_templates/c14_add_remove.rs').read()
    r = replay.run_crate_test('astria-sequencer', 'crates/astria-sequencer/src/checked_actions/validator_update.rs', code, 'verif_replay_c14')
    if not r['lines']:
        return {'mode': 'native-crate-test', 'reproduced': None, 'error': r['output'][-1500:]}
    o = r['lines'][-1]
    return {'mode': 'native-crate-test', 'scenario': 'sudo adds a new validator (power 7) and removes it (power 0) in the same block', 'observed': o,
            'reproduced': (not o['known_before']) and (not o['stored_after']) and o['update_entry_power'] == 0}


@obligation('C14', 'C14-2n native demonstration of the recorded finding F8 (informational: records whether it still reproduces; never fails the check)', tiers=('thorough',))
def c14_2n(run):
    run.bound(scenario='one concrete block with two validator updates')
    v = replay_f8()
    run.sample({'native_demonstration': v})
    run.cur.paths += 1
    run.reached('native demonstration executed')
    if v.get('reproduced') is None:
        run.cur.notes.append('native demonstration of F8 could not be run: ' + str(v.get('error'))[-300:])


# ----------------------------------------------------------------------------------------------------------------- C14-3
@obligation('C14', 'C14-3 end_block hands CometBFT exactly the block\'s validator-update set and clears it in the state that is applied (so no update is sent twice or lost)')
def c14_3(run):
    import re
    from obligations import c01
    from mirsym import models as M
    from mirsym.engine import ok
    from vlib.actions import poll_result

    def h_cometbft(ctx):
        vs = ctx.ex.deref_val(ctx.st, ctx.args[0])
        inner = vs.fields.get((None, 0)) if isinstance(vs, Obj) else None
        items = list(ctx.ex.deref_val(ctx.st, inner).attrs['items']) if inner is not None else None
        ctx.st.log.append(('to_cometbft', items))
        okv = z3.Bool('conversion_ok')
        return [(okv, (lambda s2: ok(M.new_vec('Vec<ValidatorUpdate>', [])))), (z3.Not(okv), (lambda s2: __import__('mirsym.engine', fromlist=['err']).err()))]
    hooks = [h for h in c01.end_block_hooks() if h[1] is not None and 'try_into_cometbft' not in h[0].pattern] + [(re.compile(r'try_into_cometbft$'), h_cometbft)]
    ex, W = A.engine(extra_hooks=hooks)
    f = ex.find(r'^app::<impl at [^>]*>::end_block$')
    run.bound(updates='0..2 validator updates accumulated in the block (arbitrary keys / powers)', state='arbitrary symbolic chain state', components='component end_block handlers are no-op oracles')
    n_ok = 0
    for k in (0, 1, 2):
        w0 = initial_world()
        ups = []
        for j in range(k):
            u = B.struct(ex, VU, power=z3.BitVec(f'update{j}_power', 32))
            u.attrs['tag'] = f'u{j}'
            ups.append((z3.BitVec(f'update{j}_addr', 160), u))
        app = Obj('App')
        st = ex.start(f, [B.cell(app), z3.BitVec('height', 64), B.cell(z3.BitVec('fee_recipient', 160))], world=dict(w0, validator_updates=list(ups), block_fees=[]))
        st.pc += [ups[a][0] != ups[b][0] for a in range(k) for b in range(a + 1, k)] + [z3.ULT(z3.BitVec('height', 64), z3.BitVecVal(1 << 62, 64))]
        for i, p in enumerate(run.explore(ex, st, poll=True, allow_havoc=(r'^Arguments::|fmt::', r'EndBlock', r'Default>::default'))):
            lab = f'[{k} updates, path {i}]'
            if p.kind != 'return':
                run.prove(f'no panic {lab}', p.pc, z3.BoolVal(False), detail=p.info); continue
            kind, r = poll_result(p)
            conv = [e for e in p.log if e[0] == 'to_cometbft']
            applies = [e for e in p.log if e[0] == 'apply']
            clears = [j for j, e in enumerate(p.log) if e[0] == 'write' and e[1] == 'validator_updates']
            run.sample({'updates': k, 'path': i, 'result': kind, 'converted': [len(c[1]) if c[1] is not None else None for c in conv], 'applies': len(applies), 'left_in_state': len(p.world['validator_updates'])})
            if kind != 'Ok':
                continue
            n_ok += 1
            claim = [z3.BoolVal(len(conv) == 1 and len(applies) == 1 and len(clears) >= 1 and len(p.world['validator_updates']) == 0)]
            if len(conv) == 1 and conv[0][1] is not None:
                got = conv[0][1]
                claim.append(z3.BoolVal(len(got) == k))
                if len(got) == k:
                    for (ka, ua), g in zip(ups, got):
                        gk, gv = g if isinstance(g, tuple) else (None, g)
                        gv = ex.deref_val(p, gv)
                        claim.append(z3.BoolVal(isinstance(gv, Obj) and gv.attrs.get('tag') == ua.attrs['tag']))
                        if gk is not None:
                            claim.append(gk == ka)
            if clears and applies:
                claim.append(z3.BoolVal(clears[0] < p.log.index(applies[0])))
            run.prove(f'Ok => the response is converted from exactly the accumulated update set, which is cleared before the single apply {lab}', p.pc, z3.And(*claim))
    if not n_ok:
        raise Inconclusive('vacuity: no Ok path')
    run.require_reached(*run.cur.reach)
