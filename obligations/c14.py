"""C14 — the validator set handed to CometBFT mirrors the application's and is never emptied (ValidatorUpdate::execute, one and two actions per block)."""
import z3
from vlib.oblig import obligation, mval
from vlib import build as B, actions as A
from vlib.actions import unchanged
from vlib.seqworld import initial_world
from mirsym.engine import Obj, Inconclusive

VU = 'astria_core::protocol::transaction::v1::action::ValidatorUpdate'
POST_ASPEN = {'all_upgrades_active': True}


def action_fields(ex, W, p, me):
    act = B.fld(ex, p, me, 'action', VU)
    vk = B.fld(ex, p, act, 'verification_key', 'VerificationKey')
    return W.addr(p, vk), B.fld(ex, p, act, 'power', 'u32'), vk


def entry_fields(ex, W, p, e):
    k, v = e
    v = ex.deref_val(p, v)
    return (k if z3.is_bv(k) else W.addr(p, k)), B.fld(ex, p, v, 'power', 'u32')


@obligation('C14', 'C14-1 ValidatorUpdate::execute keeps count = |set|, never empties the set, records the update (post-Aspen)')
def c14_1(run):
    ex, W = A.engine()
    run.bound(state='arbitrary validator map / count (arrays) and empty block update set', action='arbitrary ValidatorUpdate (any key, any power)', upgrades='post-Aspen code path',
              unroll='loop-free')
    run.assume('the address of a verification key is an uninterpreted function of the key')
    w0 = initial_world()
    small = [z3.ULT(w0['validator_count'], z3.BitVecVal(1 << 32, 64))]
    run.bound(validator_count='stored count < 2^32 (saturating arithmetic at u64::MAX is outside the claim)')
    w0, res = A.run_action(run, ex, W, 'ValidatorUpdate', w0=w0, world_extra=POST_ASPEN, pc=small)
    n_ok = 0
    for i, (p, kind, r, me) in enumerate(res):
        if kind == 'panic':
            run.prove(f'no panic [path {i}]', p.pc, z3.BoolVal(False), detail=p.info); continue
        addr, power, vk = action_fields(ex, W, p, me)
        pre_p, post_p = z3.Select(w0['validator_power?'], addr), z3.Select(p.world['validator_power?'], addr)
        c0, c1 = w0['validator_count'], p.world['validator_count']
        ups = p.world['validator_updates']
        run.sample({'path': i, 'result': kind, 'updates': len(ups), 'pc': [str(z3.simplify(c))[:80] for c in p.pc][:6]})
        if kind != 'Ok':
            continue
        n_ok += 1
        a = z3.BitVec('any_addr', 160)
        others = z3.Implies(a != addr, z3.And(z3.Select(p.world['validator_power?'], a) == z3.Select(w0['validator_power?'], a),
                                              z3.Select(p.world['validator_power'], a) == z3.Select(w0['validator_power'], a)))
        delta = z3.If(z3.And(z3.Not(pre_p), post_p), c1 == c0 + 1, z3.If(z3.And(pre_p, z3.Not(post_p)), c1 == c0 - 1, c1 == c0))
        run.prove(f'Ok => only this validator\'s entry changes and the count moves with its membership (count = |set| is preserved) [path {i}]', p.pc,
                  z3.And(others, delta))
        run.prove(f'Ok => power 0 removes an existing validator and never the last one; power > 0 stores exactly that power [path {i}]', p.pc,
                  z3.If(power == 0, z3.And(pre_p, z3.Not(post_p), z3.UGT(c0, 1)),
                        z3.And(post_p, z3.Select(p.world['validator_power'], addr) == z3.ZeroExt(32, power), z3.Select(p.world['validator_key'], addr) == vk)))
        if len(ups) != 1:
            run.prove(f'Ok => exactly one entry in the block update set [path {i}]', p.pc, z3.BoolVal(False)); continue
        ka, kp = entry_fields(ex, W, p, ups[0])
        run.prove(f'Ok => the block update set holds this action under the validator\'s address [path {i}]', p.pc, z3.And(ka == addr, kp == power))
    if not n_ok:
        raise Inconclusive('vacuity: no Ok path')
    run.require_reached(*run.cur.reach)


def classify_f8(w0, a1, pw1, a2, pw2):
    """the recorded finding is exactly: first action adds a validator absent at block start, second action removes that same validator"""
    def c(model):
        ev = lambda e: model.eval(e, model_completion=True)
        is_f8 = z3.And(z3.Not(z3.Select(w0['validator_power?'], a1)), pw1 != 0, a2 == a1, pw2 == 0)
        return 'remove-of-validator-added-in-same-block' if z3.is_true(ev(is_f8)) else None
    return c


@obligation('C14', 'C14-2 two ValidatorUpdates in one block: update set mirrors the stored set; no removal of a validator CometBFT does not have')
def c14_2(run):
    ex, W = A.engine()
    run.bound(block='two ValidatorUpdate actions in one block (all add/update/remove x same/different key combinations), block update set empty at block start', upgrades='post-Aspen')
    w0 = initial_world()
    small = [z3.ULT(w0['validator_count'], z3.BitVecVal(1 << 32, 64))]
    run.bound(validator_count='stored count < 2^32')
    w0, first = A.run_action(run, ex, W, 'ValidatorUpdate', w0=w0, world_extra=POST_ASPEN, pc=small)
    n2 = 0
    for i, (p1, k1, r1, me1) in enumerate(first):
        if k1 != 'Ok':
            continue
        a1, pw1, _ = action_fields(ex, W, p1, me1)
        _, second = A.run_action(run, ex, W, 'ValidatorUpdate', w0=w0, start_world=p1.world, pc=p1.pc, tag='second')
        for j, (p2, k2, r2, me2) in enumerate(second):
            if k2 != 'Ok':
                continue
            n2 += 1
            a2, pw2, _ = action_fields(ex, W, p2, me2)
            ups = p2.world['validator_updates']
            lab = f'[first path {i}, second path {j}]'
            run.sample({'first': i, 'second': j, 'updates': len(ups)})
            a = z3.BitVec('any_addr', 160)
            ents = [entry_fields(ex, W, p2, e) for e in ups]
            # mirror: applying the update set (keyed by address) to the block-start set gives the stored set
            upd_present, upd_power = z3.BoolVal(False), z3.BitVecVal(0, 32)
            for ka, kp in ents:
                upd_power = z3.If(ka == a, kp, upd_power); upd_present = z3.Or(upd_present, ka == a)
            pre_p, post_p = z3.Select(w0['validator_power?'], a), z3.Select(p2.world['validator_power?'], a)
            mirror = z3.If(upd_present, z3.If(upd_power == 0, z3.Not(post_p), z3.And(post_p, z3.Select(p2.world['validator_power'], a) == z3.ZeroExt(32, upd_power))),
                           z3.And(post_p == pre_p, z3.Select(p2.world['validator_power'], a) == z3.Select(w0['validator_power'], a)))
            distinct = z3.And(*[ents[x][0] != ents[y][0] for x in range(len(ents)) for y in range(x + 1, len(ents))]) if len(ents) > 1 else z3.BoolVal(True)
            run.prove(f'update set keyed by distinct addresses and, applied to the block-start set, equals the stored set {lab}', p2.pc, z3.And(distinct, mirror))
            run.prove(f'stored count follows the membership changes of both actions {lab}', p2.pc,
                      p2.world['validator_count'] == w0['validator_count']
                      + z3.If(z3.And(z3.Not(z3.Select(w0['validator_power?'], a1)), z3.Select(p1.world['validator_power?'], a1)), z3.BitVecVal(1, 64), z3.BitVecVal(0, 64))
                      - z3.If(z3.And(z3.Select(w0['validator_power?'], a1), z3.Not(z3.Select(p1.world['validator_power?'], a1))), z3.BitVecVal(1, 64), z3.BitVecVal(0, 64))
                      + z3.If(z3.And(z3.Not(z3.Select(p1.world['validator_power?'], a2)), z3.Select(p2.world['validator_power?'], a2)), z3.BitVecVal(1, 64), z3.BitVecVal(0, 64))
                      - z3.If(z3.And(z3.Select(p1.world['validator_power?'], a2), z3.Not(z3.Select(p2.world['validator_power?'], a2))), z3.BitVecVal(1, 64), z3.BitVecVal(0, 64)))
            for ka, kp in ents:
                run.prove(f'a power-0 entry only names a validator that was in the set at block start {lab}', p2.pc,
                          z3.Implies(kp == 0, z3.Select(w0['validator_power?'], ka)), classify=classify_f8(w0, a1, pw1, a2, pw2))
    if not n2:
        raise Inconclusive('vacuity: no pair of successful updates')
    run.require_reached(*run.cur.reach)



def replay_f8(model=None, path=None):
    """native demonstration of F8: add-then-remove of a new validator in one block"""
    from vlib import replay
    code = open('/verif/replay_templates/c14_add_remove.rs').read()
    r = replay.run_crate_test('astria-sequencer', 'crates/astria-sequencer/src/checked_actions/validator_update.rs', code, 'verif_replay_c14')
    if not r['lines']:
        return {'mode': 'native-crate-test', 'reproduced': None, 'error': r['output'][-1500:]}
    o = r['lines'][-1]
    return {'mode': 'native-crate-test', 'scenario': 'sudo adds a new validator (power 7) and removes it (power 0) in the same block', 'observed': o,
            'reproduced': (not o['known_before']) and (not o['stored_after']) and o['update_entry_power'] == 0}


@obligation('C14', 'C14-2n native demonstration of the recorded finding F8 (informational: records whether it still reproduces; never fails the check)', tiers=('thorough',))
def c14_2n(run):
    run.bound(scenario='one concrete block with two validator updates')
    v = replay_f8()
    run.sample({'native_demonstration': v})
    run.cur.paths += 1
    run.reached('native demonstration executed')
    if v.get('reproduced') is None:
        run.cur.notes.append('native demonstration of F8 could not be run: ' + str(v.get('error'))[-300:])


# ----------------------------------------------------------------------------------------------------------------- C14-3
@obligation('C14', 'C14-3 end_block hands CometBFT exactly the block\'s validator-update set and clears it in the state that is applied (so no update is sent twice or lost)')
def c14_3(run):
    import re
    from obligations import c01
    from mirsym import models as M
    from mirsym.engine import ok
    from vlib.actions import poll_result

    def h_cometbft(ctx):
        vs = ctx.ex.deref_val(ctx.st, ctx.args[0])
        inner = vs.fields.get((None, 0)) if isinstance(vs, Obj) else None
        items = list(ctx.ex.deref_val(ctx.st, inner).attrs['items']) if inner is not None else None
        ctx.st.log.append(('to_cometbft', items))
        okv = z3.Bool('conversion_ok')
        return [(okv, (lambda s2: ok(M.new_vec('Vec<ValidatorUpdate>', [])))), (z3.Not(okv), (lambda s2: __import__('mirsym.engine', fromlist=['err']).err()))]
    hooks = [h for h in c01.end_block_hooks() if h[1] is not None and 'try_into_cometbft' not in h[0].pattern] + [(re.compile(r'try_into_cometbft$'), h_cometbft)]
    ex, W = A.engine(extra_hooks=hooks)
    f = ex.find(r'^app::<impl at [^>]*>::end_block$')
    run.bound(updates='0..2 validator updates accumulated in the block (arbitrary keys / powers)', state='arbitrary symbolic chain state', components='component end_block handlers are no-op oracles')
    n_ok = 0
    for k in (0, 1, 2):
        w0 = initial_world()
        ups = []
        for j in range(k):
            u = B.struct(ex, VU, power=z3.BitVec(f'update{j}_power', 32))
            u.attrs['tag'] = f'u{j}'
            ups.append((z3.BitVec(f'update{j}_addr', 160), u))
        app = Obj('App')
        st = ex.start(f, [B.cell(app), z3.BitVec('height', 64), B.cell(z3.BitVec('fee_recipient', 160))], world=dict(w0, validator_updates=list(ups), block_fees=[]))
        st.pc += [ups[a][0] != ups[b][0] for a in range(k) for b in range(a + 1, k)] + [z3.ULT(z3.BitVec('height', 64), z3.BitVecVal(1 << 62, 64))]
        for i, p in enumerate(run.explore(ex, st, poll=True, allow_havoc=(r'^Arguments::|fmt::', r'EndBlock', r'Default>::default'))):
            lab = f'[{k} updates, path {i}]'
            if p.kind != 'return':
                run.prove(f'no panic {lab}', p.pc, z3.BoolVal(False), detail=p.info); continue
            kind, r = poll_result(p)
            conv = [e for e in p.log if e[0] == 'to_cometbft']
            applies = [e for e in p.log if e[0] == 'apply']
            clears = [j for j, e in enumerate(p.log) if e[0] == 'write' and e[1] == 'validator_updates']
            run.sample({'updates': k, 'path': i, 'result': kind, 'converted': [len(c[1]) if c[1] is not None else None for c in conv], 'applies': len(applies), 'left_in_state': len(p.world['validator_updates'])})
            if kind != 'Ok':
                continue
            n_ok += 1
            claim = [z3.BoolVal(len(conv) == 1 and len(applies) == 1 and len(clears) >= 1 and len(p.world['validator_updates']) == 0)]
            if len(conv) == 1 and conv[0][1] is not None:
                got = conv[0][1]
                claim.append(z3.BoolVal(len(got) == k))
                if len(got) == k:
                    for (ka, ua), g in zip(ups, got):
                        gk, gv = g if isinstance(g, tuple) else (None, g)
                        gv = ex.deref_val(p, gv)
                        claim.append(z3.BoolVal(isinstance(gv, Obj) and gv.attrs.get('tag') == ua.attrs['tag']))
                        if gk is not None:
                            claim.append(gk == ka)
            if clears and applies:
                claim.append(z3.BoolVal(clears[0] < p.log.index(applies[0])))
            run.prove(f'Ok => the response is converted from exactly the accumulated update set, which is cleared before the single apply {lab}', p.pc, z3.And(*claim))
    if not n_ok:
        raise Inconclusive('vacuity: no Ok path')
    run.require_reached(*run.cur.reach)


# ----------------------------------------------------------------------------------------------------------------- C14-4 (pre-Aspen storage and the migration)
from mirsym import models as M
VKA = z3.Function('vk_address', z3.BitVecSort(256), z3.BitVecSort(160))
PRE_ASPEN = {'no_upgrade_active': True}


def sym_set(W, ex, tag, n):
    """a ValidatorSet with n entries: keys ascending (BTreeMap), key_i = address(verification_key_i) (the invariant every constructor / insert keeps), powers symbolic"""
    ents = []; pc = []
    for i in range(n):
        vk = z3.BitVec(f'{tag}_vk{i}', 256); pw = z3.BitVec(f'{tag}_power{i}', 32); k = z3.BitVec(f'{tag}_addr{i}', 160)
        ents.append((k, W.validator_update_obj(ex, vk, pw))); pc.append(k == VKA(vk))
    pc += [z3.ULT(ents[i][0], ents[i + 1][0]) for i in range(n - 1)]
    return ents, pc


def set_obj(ex, ents):
    inner = M.new_map('BTreeMap<[u8; 20], ValidatorUpdate>', [(k, ex.copy_val(v)) for k, v in ents])
    vs = Obj('authority::ValidatorSet'); vs.fields[(None, 0)] = inner
    return vs


def lookup(ex, W, p, items, a):
    """(present, power) of address a in a list of (key, ValidatorUpdate) entries"""
    present, power = z3.BoolVal(False), z3.BitVecVal(0, 32)
    for e in items:
        k, pw = entry_fields(ex, W, p, e)
        power = z3.If(k == a, pw, power); present = z3.Or(present, k == a)
    return present, power


@obligation('C14', 'C14-4a ValidatorSet::apply_updates (pre-Aspen end_block): the stored set after the block is the block-start set with every update applied the way CometBFT applies it (power 0 removes, otherwise insert / overwrite)')
def c14_4a(run):
    ex, W = A.engine()
    f = ex.find(r'authority::<impl at [^>]*>::apply_updates$')
    run.bound(sets='block-start set of 0..2 validators, update set of 0..2 entries, all addresses and powers symbolic (aliasing between the two sets allowed)')
    a = z3.BitVec('any_addr', 160); n = 0
    for nc in (0, 1, 2):
        for nu in (0, 1, 2):
            cur, pc1 = sym_set(W, ex, 'cur', nc); upd, pc2 = sym_set(W, ex, 'upd', nu)
            st = ex.start(f, [B.cell(set_obj(ex, cur)), set_obj(ex, upd)])
            st.pc += pc1 + pc2
            for i, p in enumerate(run.explore(ex, st)):
                lab = f'[{nc} current, {nu} updates, path {i}]'
                if p.kind != 'return':
                    run.prove(f'no panic {lab}', p.pc, z3.BoolVal(False), detail=p.info); continue
                n += 1
                after = ex.read(p, p.roots['args'][0].loc).fields[(None, 0)].attrs['items']
                c_in, c_pw = lookup(ex, W, p, cur, a); u_in, u_pw = lookup(ex, W, p, upd, a); r_in, r_pw = lookup(ex, W, p, after, a)
                run.prove(f'result[a] = update[a] if a is updated (removed when power 0), else current[a] {lab}', p.pc,
                          z3.If(u_in, z3.If(u_pw == 0, z3.Not(r_in), z3.And(r_in, r_pw == u_pw)), z3.And(r_in == c_in, z3.Implies(c_in, r_pw == c_pw))))
                ks = [k for k, _ in after]
                run.prove(f'the result stays a map: distinct keys {lab}', p.pc, z3.And(*[ks[x] != ks[y] for x in range(len(ks)) for y in range(x + 1, len(ks))]) if len(ks) > 1 else z3.BoolVal(True))
    if not n:
        raise Inconclusive('vacuity')
    run.require_reached(*run.cur.reach)


@obligation('C14', 'C14-4b Aspen migration (handle_aspen_upgrade): every validator of the single stored set is written to per-validator storage, the stored count equals the size of the set, the old object is removed; nothing else changes')
def c14_4b(run):
    ex, W = A.engine()
    f = ex.find(r'authority::component::<impl at [^>]*>::handle_aspen_upgrade$')
    run.bound(set='pre-Aspen set of 0..3 validators with symbolic keys and powers')
    run.assume('before the migration the per-validator store is empty (it is written only by post-Aspen code) and every set key is the address of its validator\'s verification key')
    a = z3.BitVec('any_addr', 160); n_ok = 0
    for n in (0, 1, 2, 3):
        ents, pc = sym_set(W, ex, 'set', n)
        w0 = initial_world()
        world = dict(w0, block_fees=[], cached_deposits=[], events=[], validator_updates=[], pre_aspen_set=list(ents), **PRE_ASPEN)
        st = ex.start(f, [B.cell(Obj('S', kind='cell'))], world=world)
        st.pc += pc + [w0['validator_power?'] == z3.K(z3.BitVecSort(160), False)]
        for i, p in enumerate(run.explore(ex, st, poll=True, allow_havoc=(r'^Arguments::|fmt::',))):
            lab = f'[{n} validators, path {i}]'
            if p.kind != 'return':
                run.prove(f'no panic {lab}', p.pc, z3.BoolVal(False), detail=p.info); continue
            kind, r = A.poll_result(p)
            run.sample({'validators': n, 'path': i, 'result': kind})
            if kind != 'Ok':
                continue
            n_ok += 1
            s_in, s_pw = lookup(ex, W, p, ents, a)
            run.prove(f'after the migration: stored[a] present iff a was in the set, with its power and key; count = size of the set; old object gone {lab}', p.pc,
                      z3.And(z3.Select(p.world['validator_power?'], a) == s_in, z3.Implies(s_in, z3.Select(p.world['validator_power'], a) == z3.ZeroExt(32, s_pw)),
                             p.world['validator_count'] == z3.BitVecVal(n, 64), z3.BoolVal(p.world.get('pre_aspen_set') is None)))
            run.prove(f'the migration writes only validator storage {lab}', p.pc, unchanged(w0, p.world, except_={'validator_power', 'validator_key', 'validator_count'}))
    if not n_ok:
        raise Inconclusive('vacuity: migration never succeeds')
    run.require_reached(*run.cur.reach)


def classify_f11(n, ents, a1, pw1, a2, pw2):
    """the recorded finding is exactly: block-start set of two validators, the two actions remove (power 0) the two different validators"""
    def c(model):
        if n != 2:
            return None
        ev = lambda e: model.eval(e, model_completion=True)
        k0, k1 = ents[0][0], ents[1][0]
        is_f11 = z3.And(pw1 == 0, pw2 == 0, a1 != a2, z3.Or(a1 == k0, a1 == k1), z3.Or(a2 == k0, a2 == k1))
        return 'pre-aspen-two-removals-in-one-block-empty-the-set' if z3.is_true(ev(is_f11)) else None
    return c


@obligation('C14', 'C14-4c pre-Aspen: two ValidatorUpdates in one block followed by end_block never empty the stored set and never remove a validator that is not in it')
def c14_4c(run):
    ex, W = A.engine()
    apply_f = ex.find(r'authority::<impl at [^>]*>::apply_updates$')
    run.bound(block='two ValidatorUpdate actions in one block on the pre-Aspen code path, block-start set of 1..2 validators (symbolic keys and non-zero powers), then ValidatorSet::apply_updates as end_block does',
              upgrades='no upgrade change active (pre-Aspen)')
    a = z3.BitVec('any_addr', 160); n2 = 0
    for n in (1, 2):
        ents, pc = sym_set(W, ex, 'set', n)
        pc = pc + [B.fld(ex, None, v, 'power', 'u32') != 0 for _, v in ents] if False else pc + [z3.BitVec(f'set_power{i}', 32) != 0 for i in range(n)]
        w0 = initial_world()
        extra = dict(PRE_ASPEN, pre_aspen_set=list(ents))
        w0, first = A.run_action(run, ex, W, 'ValidatorUpdate', w0=w0, world_extra=extra, pc=pc)
        for i, (p1, k1, r1, me1) in enumerate(first):
            if k1 == 'panic':
                run.prove(f'no panic [first, {n} validators, path {i}]', p1.pc, z3.BoolVal(False), detail=p1.info); continue
            if k1 != 'Ok':
                continue
            _, second = A.run_action(run, ex, W, 'ValidatorUpdate', w0=w0, start_world=p1.world, pc=p1.pc, tag='second')
            for j, (p2, k2, r2, me2) in enumerate(second):
                if k2 == 'panic':
                    run.prove(f'no panic [second, {n} validators, paths {i},{j}]', p2.pc, z3.BoolVal(False), detail=p2.info); continue
                if k2 != 'Ok':
                    continue
                ups = p2.world['validator_updates']
                a1, pw1, _ = action_fields(ex, W, p1, me1); a2, pw2, _ = action_fields(ex, W, p2, me2)
                cls = classify_f11(n, ents, a1, pw1, a2, pw2)
                st = ex.start(apply_f, [B.cell(set_obj(ex, ents)), set_obj(ex, ups)])
                st.pc += list(p2.pc)
                for l, p3 in enumerate(run.explore(ex, st)):
                    lab = f'[{n} validators at block start, paths {i},{j},{l}]'
                    if p3.kind != 'return':
                        run.prove(f'no panic in apply_updates {lab}', p3.pc, z3.BoolVal(False), detail=p3.info); continue
                    n2 += 1
                    after = ex.read(p3, p3.roots['args'][0].loc).fields[(None, 0)].attrs['items']
                    run.sample({'validators': n, 'updates': len(ups), 'after': len(after)})
                    run.prove(f'the stored set is not empty after the block {lab}', p3.pc, z3.BoolVal(len(after) > 0), classify=cls)
                    for e in ups:
                        k, pw = entry_fields(ex, W, p3, e)
                        s_in, _ = lookup(ex, W, p3, ents, k)
                        run.prove(f'a power-0 update only names a validator of the block-start set {lab}', p3.pc, z3.Implies(pw == 0, s_in))
    if not n2:
        raise Inconclusive('vacuity: no pair of successful pre-Aspen updates')
    run.require_reached(*run.cur.reach)


def replay_f11(model=None, path=None):
    """native demonstration of F11: pre-Aspen, two removals in one block empty the stored validator set"""
    from vlib import replay
    code = open('/verif/replay_templates/c14_pre_aspen_empty.rs').read()
    r = replay.run_crate_test('astria-sequencer', 'crates/astria-sequencer/src/checked_actions/validator_update.rs', code, 'verif_replay_c14_pre_aspen')
    if not r['lines']:
        return {'mode': 'native-crate-test', 'reproduced': None, 'error': r['output'][-1500:]}
    o = r['lines'][-1]
    return {'mode': 'native-crate-test', 'scenario': 'pre-Aspen chain with validators {ALICE, BOB}; one block removes ALICE and removes BOB; then end_block', 'observed': o,
            'reproduced': bool(o['pre_aspen'] and o['set_before'] == 2 and o['first_ok'] and o['second_ok'] and o['set_after'] == 0 and o['removals_sent'] == 2)}


@obligation('C14', 'C14-4n native demonstration of the recorded finding F11 (informational: records whether it still reproduces; never fails the check)', tiers=('thorough',))
def c14_4n(run):
    run.bound(scenario='one concrete pre-Aspen block with two validator removals')
    v = replay_f11()
    run.sample({'native_demonstration': v})
    run.cur.paths += 1
    run.reached('native demonstration executed')
    if v.get('reproduced') is None:
        run.cur.notes.append('native demonstration of F11 could not be run: ' + str(v.get('error'))[-300:])


@obligation('C14', 'C14-4d AuthorityComponent::end_block: before Aspen the stored set becomes exactly the block-start set with the block\'s updates applied (C14-4a); after Aspen it leaves validator storage alone (the per-validator records were already written by the actions)')
def c14_4d(run):
    ex, W = A.engine()
    f = ex.find(r'authority::component::<impl at [^>]*>::end_block$')
    a = z3.BitVec('any_addr', 160); n = 0
    run.bound(sets='block-start set of 1..2 validators, block update set of 0..2 entries (symbolic keys / powers, aliasing allowed); both upgrade states')
    for pre_aspen in (True, False):
        for nc in (1, 2):
            for nu in (0, 1, 2):
                cur, pc1 = sym_set(W, ex, 'cur', nc); upd, pc2 = sym_set(W, ex, 'upd', nu)
                w0 = initial_world()
                world = dict(w0, block_fees=[], cached_deposits=[], events=[], validator_updates=list(upd), pre_aspen_set=list(cur), **(PRE_ASPEN if pre_aspen else POST_ASPEN))
                arc = Obj('Arc<S>', kind='arc'); arc.fields[('in', 0)] = Obj('S', kind='cell')
                st = ex.start(f, [B.cell(arc), B.cell(Obj('tendermint::abci::request::EndBlock'))], world=world)
                st.pc += pc1 + pc2
                for i, p in enumerate(run.explore(ex, st, poll=True, allow_havoc=(r'^Arguments::|fmt::', r'Arc::<.*>::get_mut$'))):
                    lab = f'[{"pre" if pre_aspen else "post"}-Aspen, {nc} validators, {nu} updates, path {i}]'
                    if p.kind != 'return':
                        run.prove(f'no panic {lab}', p.pc, z3.BoolVal(False), detail=p.info); continue
                    kind, r = A.poll_result(p)
                    if kind != 'Ok':
                        continue
                    n += 1
                    if pre_aspen:
                        after = p.world.get('pre_aspen_set') or []
                        c_in, c_pw = lookup(ex, W, p, cur, a); u_in, u_pw = lookup(ex, W, p, upd, a); r_in, r_pw = lookup(ex, W, p, after, a)
                        run.prove(f'stored set after the block = block-start set with every update applied (power 0 removes) {lab}', p.pc,
                                  z3.If(u_in, z3.If(u_pw == 0, z3.Not(r_in), z3.And(r_in, r_pw == u_pw)), z3.And(r_in == c_in, z3.Implies(c_in, r_pw == c_pw))))
                    else:
                        run.prove(f'post-Aspen end_block writes no validator storage {lab}', p.pc, unchanged(w0, p.world, except_={'validator_updates'}))
    if n < 6:
        raise Inconclusive(f'vacuity: {n} successful paths')
    run.require_reached(*run.cur.reach)
