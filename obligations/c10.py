"""C10 — conductor executes each height once, in order, under any soft/firm interleaving: one inductive step per event kind from an arbitrary
executor state (the executor is a sequential event loop), plus the height mappings and pure decision helpers."""
import re
import z3
from vlib.oblig import obligation, mval
from vlib import loader, build as B
from mirsym.engine import Obj, Ref, Inconclusive, ok, err, some, none
from mirsym import models as M
from mirsym.mir import MirError

SCALARS = {'tendermint::block::Height': 64, 'SequencerHeight': 64, 'astria_core::primitive::v1::RollupId': 256, 'RollupId': 256, 'std::num::NonZero': 64, 'NonZero': 64,
           'tendermint::Time': 128, 'pbjson_types::Timestamp': 128}


def h_watch_borrow(ctx):
    s = ctx.ex.deref_val(ctx.st, ctx.args[0])
    r = Ref(('field', s, ('watch', 0, 'astria_conductor::state::State')))
    ctx.ex.read(ctx.st, r.loc)
    return [(None, r)]


def h_watch_ref_deref(ctx):
    v = ctx.args[0]
    inner = ctx.ex.read(ctx.st, v.loc) if isinstance(v, Ref) else v
    return [(None, inner if isinstance(inner, Ref) else v)]


def h_forward(ctx):
    """forward_impls!-generated StateSender / StateReceiver getters: `self.inner.borrow().<fn>().clone()`"""
    ex, st = ctx.ex, ctx.st
    name = ctx.name.rsplit('::', 1)[1]
    tgt = ex.resolve_fn(f'State::{name}', 1)
    if not tgt:
        return None
    sender = ex.deref_val(st, ctx.args[0])
    inner = B.fld(ex, st, sender, 'inner', 'tokio::sync::watch::Sender<state::State>')
    r = Ref(('field', inner, ('watch', 0, 'astria_conductor::state::State')))
    ex.read(st, r.loc)
    ex.push(st, tgt, [r], ctx.dest, ctx.nxt, M.Cont('cloneval'))
    return M.PUSHED


def _resume_cloneval(ex, st, cont, rv, work):
    return 'value', ex.copy_val(ex.deref_val(st, rv))


M.RESUMERS['cloneval'] = _resume_cloneval


def h_send_modify(ctx):
    ex, st = ctx.ex, ctx.st
    s = ex.deref_val(st, ctx.args[0])
    r = Ref(('field', s, ('watch', 0, 'astria_conductor::state::State')))
    ex.read(st, r.loc)
    st.log.append(('state_update',))
    ex.call_closure(st, ctx.args[1], [r], ctx.dest, ctx.nxt, None)
    return M.PUSHED


def h_height_value(ctx):
    return [(None, ctx.ex.deref_val(ctx.st, ctx.args[0]))]


def h_height_increment(ctx):
    v = ctx.ex.deref_val(ctx.st, ctx.args[0])
    # tendermint Height::increment: Height::try_from(self.0.wrapping_add(1)).unwrap() -> panics above i64::MAX; modelled for values < 2^62 (stated bound)
    return [(None, v + 1)]


def h_execute_rpc(ctx):
    st = ctx.st
    n = sum(1 for e in st.log if e[0] == 'rpc_execute')
    okv = z3.Bool(f'execute_block_ok_{n}')
    md = Obj('astria_core::execution::v2::ExecutedBlockMetadata'); md.attrs['tag'] = f'executed{n}'
    st.log.append(('rpc_execute', ctx.ex.deref_val(st, ctx.args[2]), md.lz, okv))

    def alts(ex, s2, fut):
        return [(okv, (lambda s3: ok(s3.tr(md)))), (z3.Not(okv), err())]
    return [(None, M.thunk_future(alts))]


def h_update_rpc(ctx):
    st = ctx.st
    cs = ctx.ex.deref_val(st, ctx.args[2])
    okv = z3.Bool(f'update_commitment_ok_{sum(1 for e in st.log if e[0] == "rpc_update")}')
    st.log.append(('rpc_update', cs, okv))

    def alts(ex, s2, fut):
        return [(okv, (lambda s3: ok(s3.tr(cs)))), (z3.Not(okv), err())]      # the rollup echoes the commitment state it was given
    return [(None, M.thunk_future(alts))]


def h_get_block_rpc(ctx):
    st = ctx.st
    okv = z3.Bool('get_executed_block_ok')
    md = Obj('astria_core::execution::v2::ExecutedBlockMetadata'); md.attrs['tag'] = 'fetched'
    st.log.append(('rpc_get_block', ctx.args[1], md.lz, okv))

    def alts(ex, s2, fut):
        return [(okv, (lambda s3: ok(s3.tr(md)))), (z3.Not(okv), err())]
    return [(None, M.thunk_future(alts))]


def h_executable(ctx):
    ex, st = ctx.ex, ctx.st
    a = ex.adts.lookup('executor::ExecutableBlock')
    if not a:
        raise MirError('ExecutableBlock not in ADT table')
    b = Obj(a['path']); b.attrs['tag'] = 'incoming'
    h = z3.BitVec('incoming_height', 64)
    b.fields[(None, a['fields'].index('height'))] = h
    st.world['incoming_height'] = h
    return [(None, b)]


def h_height_try_from(ctx):
    v = ctx.args[0]
    fits = z3.ULE(v, z3.BitVecVal((1 << 63) - 1, 64))      # tendermint heights are non-negative i64
    return [(fits, (lambda s2: ok(v))), (z3.Not(fits), (lambda s2: err(Obj('tendermint::Error', kind='error'))))]


def hooks():
    return [(re.compile(r'^<u64 as TryInto<(tendermint::block::)?Height>>::try_into$|^<(tendermint::block::)?Height as TryFrom<u64>>::try_from$'), h_height_try_from),(re.compile(r'watch::Sender::<.*>::borrow$|watch::Receiver::<.*>::borrow$'), h_watch_borrow),
            (re.compile(r'watch::Sender::<.*>::send_modify'), h_send_modify),
            (re.compile(r'^<(tokio::sync::)?watch::Ref<.*> as Deref>::deref$'), h_watch_ref_deref),
            (re.compile(r'^(tendermint::block::)?Height::value$'), h_height_value),
            (re.compile(r'^(tendermint::block::)?Height::increment$'), h_height_increment),
            (re.compile(r'Client::execute_block_with_retry$'), h_execute_rpc),
            (re.compile(r'Client::update_commitment_state_with_retry$'), h_update_rpc),
            (re.compile(r'Client::get_executed_block_metadata_with_retry$'), h_get_block_rpc),
            (re.compile(r'^ExecutableBlock::from_(sequencer|reconstructed)$'), h_executable),
            (re.compile(r'^(state::)?State(Sender|Receiver)::(execution_session_parameters|execution_session_id|firm|soft|firm_number|soft_number|firm_hash|soft_hash|rollup_id|sequencer_start_block_height|lowest_celestia_search_height|celestia_search_height_max_look_ahead|rollup_start_block_number|rollup_end_block_number|has_firm_number_reached_stop_height|has_soft_number_reached_stop_height|sequencer_chain_id|celestia_chain_id)$'), h_forward)]


def engine():
    return loader.load(['astria-conductor', 'astria-core'], scalar_types=SCALARS, hooks=hooks(), dep_adts=['tendermint'], max_steps=3_000_000)


@obligation('C10', 'C10-3 rollup number <-> sequencer height mappings are mutual inverses without wrap')
def c10_3(run):
    ex = engine()
    fwd = ex.find(r'^(state::)?map_rollup_number_to_sequencer_height$')
    inv = ex.find(r'^(state::)?try_map_sequencer_height_to_rollup_height$')
    run.bound(inputs='all u64 x u64 x u64', unroll='loop-free')
    s0, r0, n = z3.BitVec('sequencer_start', 64), z3.BitVec('rollup_start', 64), z3.BitVec('rollup_number', 64)
    wide = lambda x: z3.ZeroExt(2, x)
    for i, p in enumerate(run.explore(ex, ex.start(fwd, [s0, r0, n]))):
        if p.kind != 'return':
            run.prove(f'map_rollup_number_to_sequencer_height no panic [path {i}]', p.pc, z3.BoolVal(False), detail=p.info); continue
        run.sample({'fn': 'map_rollup_number_to_sequencer_height', 'path': i, 'result': p.result.discr})
        if p.result.discr == 'Ok':
            h = p.result.fields[('Ok', 0)]
            run.prove(f'Ok => height = start + (number - rollup_start), exact [path {i}]', p.pc, z3.And(wide(h) + wide(r0) == wide(s0) + wide(n), z3.ULE(wide(r0), wide(n) + 1)))
    h = z3.BitVec('sequencer_height', 64)
    for i, p in enumerate(run.explore(ex, ex.start(inv, [s0, r0, h]), allow_havoc=(r'^Arguments::|fmt::', r'new_adhoc'))):
        if p.kind != 'return':
            run.prove(f'try_map_sequencer_height_to_rollup_height no panic [path {i}]', p.pc, z3.BoolVal(False), detail=p.info); continue
        run.sample({'fn': 'try_map_sequencer_height_to_rollup_height', 'path': i, 'result': p.result.discr})
        if p.result.discr == 'Ok':
            num = p.result.fields[('Ok', 0)]
            run.prove(f'Ok => number = (height - start) + rollup_start, exact, height >= start [path {i}]', p.pc, z3.And(z3.UGE(h, s0), wide(num) == wide(h) - wide(s0) + wide(r0)))
        else:
            run.prove(f'Err => the exact result would be negative or exceed u64 [path {i}]', p.pc, z3.Or(z3.ULT(h, s0), z3.UGT(wide(h) - wide(s0) + wide(r0), z3.BitVecVal(2**64 - 1, 66))))
    run.require_reached(*run.cur.reach)


@obligation('C10', 'C10-5 should_execute_firm_block truth table')
def c10_5(run):
    ex = engine()
    f = ex.find(r'^(executor::)?should_execute_firm_block$')
    run.bound(inputs='all u64 x u64 x 3 commit levels')
    fh, sh = z3.BitVec('next_firm', 64), z3.BitVec('next_soft', 64)
    for level in ('SoftOnly', 'FirmOnly', 'SoftAndFirm'):
        mode = B.variant(ex, 'CommitLevel', level)
        for i, p in enumerate(run.explore(ex, ex.start(f, [fh, sh, mode]))):
            if p.kind != 'return':
                run.prove(f'no panic [{level}, path {i}]', p.pc, z3.BoolVal(False)); continue
            want = {'SoftOnly': z3.BoolVal(False), 'FirmOnly': z3.BoolVal(True), 'SoftAndFirm': fh == sh}[level]
            run.prove(f'{level}: execute firm <=> FirmOnly, or SoftAndFirm with equal next heights [path {i}]', p.pc, p.result == want)
    run.require_reached(*run.cur.reach)


# ---------------------------------------------------------------------------------------------------------------------
# executor steps
EBM = 'astria_core::execution::v2::ExecutedBlockMetadata'


def md_fields(ex, p, md):
    return dict(number=B.fld(ex, p, md, 'number', 'u64'), hash=M.ident(B.fld(ex, p, md, 'hash', 'String')), parent=M.ident(B.fld(ex, p, md, 'parent_hash', 'String')))


def executor_state(ex, p, executor):
    st_sender = B.fld(ex, p, executor, 'state', 'state::StateSender')
    inner = B.fld(ex, p, st_sender, 'inner', 'tokio::sync::watch::Sender<state::State>')
    state = ex.read(p, ('field', inner, ('watch', 0, 'astria_conductor::state::State')))
    cs = B.fld(ex, p, state, 'commitment_state', 'astria_core::execution::v2::CommitmentState')
    params = B.fld(ex, p, state, 'execution_session_parameters', 'astria_core::execution::v2::ExecutionSessionParameters')
    firm = md_fields(ex, p, B.fld(ex, p, cs, 'firm_executed_block_metadata', EBM)); soft = md_fields(ex, p, B.fld(ex, p, cs, 'soft_executed_block_metadata', EBM))
    return dict(firm=firm, soft=soft, seq_start=B.fld(ex, p, params, 'sequencer_start_block_height', 'u64'), rollup_start=B.fld(ex, p, params, 'rollup_start_block_number', 'u64'),
                cs=cs, state=state)


def fresh_executor(ex, pending_entries, level):
    execu = Obj('executor::Initialized')
    a = ex.adts.lookup('executor::Initialized') or ex.adts.lookup('Executor')
    if not a:
        raise Inconclusive('Executor not in ADT table')
    pend = M.new_map('HashMap<u64, ExecutedBlockMetadata>', pending_entries)
    execu.ty = a['path']
    execu.fields[(None, a['fields'].index('blocks_pending_finalization'))] = pend
    cfg = B.struct(ex, 'executor::Config' if ex.adts.lookup('executor::Config') else 'Config') if False else None
    return execu


def pre_state_constraints(s):
    """invariant of reachable executor states + magnitude bound (heights and numbers < 2^62)"""
    lim = z3.BitVecVal(1 << 62, 64)
    return [z3.ULE(s['firm']['number'], s['soft']['number']), z3.ULT(s['soft']['number'], lim), z3.ULT(s['seq_start'], lim), z3.ULT(s['rollup_start'], lim),
            z3.ULE(s['rollup_start'], s['firm']['number'] + 1), z3.UGE(s['seq_start'] + s['firm']['number'], s['rollup_start'])]      # what State::try_from_execution_session / try_update_commitment_state enforce


def next_expected(s, which):
    return s['seq_start'] + s[which]['number'] - s['rollup_start'] + 1


def run_step(run, ex, fname, level, pending_keys):
    execu = Obj('executor::Initialized')
    a = ex.adts.lookup('executor::Initialized')
    if not a:
        raise Inconclusive('executor::Initialized not in ADT table')
    execu.ty = a['path']
    pend_vals = [Obj(EBM) for _ in pending_keys]
    for i, v in enumerate(pend_vals):
        v.attrs['tag'] = f'pending{i}'
    pend = M.new_map('HashMap<u64, ExecutedBlockMetadata>', list(zip(pending_keys, pend_vals)))
    execu.fields[(None, a['fields'].index('blocks_pending_finalization'))] = pend
    cfg_t = [f for f in a['fields'] if f == 'config']
    block = Obj('block') if 'soft' in fname else Obj('Box<ReconstructedBlock>', kind='box')
    if block.kind == 'box':
        block.fields[('in', 0)] = Obj('celestia::ReconstructedBlock')
    st = ex.start(fname, [B.cell(execu), block])
    return st, execu


@obligation('C10', 'C10-1 execute_soft: one ExecuteBlock iff the block is the next expected soft height, on top of the soft head')
def c10_1(run):
    ex = engine()
    f = ex.find(r'^executor::<impl at [^>]*>::execute_soft$|(^|::)execute_soft$')
    run.bound(state='arbitrary executor state satisfying firm <= soft, numbers/heights < 2^62', block='arbitrary incoming block height', pending='0 or 1 pending blocks',
              rollup='execute_block / update_commitment_state are oracles (arbitrary metadata / echo, or failure)')
    run.assume('the rollup echoes the commitment state it is sent; tokio watch channel = a cell holding the State; awaited futures complete')
    for npend in (0, 1):
        st, execu = run_step(run, ex, f, None, [z3.BitVec('pending_key', 64)][:npend])
        s0 = executor_state(ex, st, execu)
        st.pc += pre_state_constraints(s0)
        exp = next_expected(s0, 'soft')
        n_exec = 0
        for i, p in enumerate(run.explore(ex, st, poll=True, allow_havoc=(r'^Arguments::|fmt::', r'telemetry::display'))):
            lab = f'[pending={npend}, path {i}]'
            if p.kind != 'return':
                run.prove(f'no panic {lab}', p.pc, z3.BoolVal(False), detail=p.info); continue
            r = p.result.fields[('Ready', 0)]
            rpcs = [e for e in p.log if e[0] == 'rpc_execute']; ups = [e for e in p.log if e[0] == 'rpc_update']
            blk = [v for v in [o for o in _objs(p) if isinstance(o, Obj) and o.attrs.get('tag') == 'incoming']]
            h = block_height(ex, p)
            run.sample({'path': i, 'result': r.discr, 'execute_rpcs': len(rpcs), 'update_rpcs': len(ups)})
            run.prove(f'an ExecuteBlock RPC is issued only for the next expected soft height, at most once {lab}', p.pc,
                      z3.And(z3.BoolVal(len(rpcs) <= 1), z3.Implies(z3.BoolVal(len(rpcs) == 1), h == exp)))
            run.prove(f'stale (lower) heights are dropped without an RPC and without an error; higher heights are an error {lab}', p.pc,
                      z3.And(z3.Implies(z3.ULT(h, exp), z3.BoolVal(r.discr == 'Ok' and not rpcs and not ups)), z3.Implies(z3.UGT(h, exp), z3.BoolVal(r.discr == 'Err' and not rpcs))))
            if rpcs:
                n_exec += 1
                run.prove(f'the block is executed on top of the current soft head {lab}', p.pc, M.ident(rpcs[0][1]) == s0['soft']['hash'])
            if r.discr == 'Ok' and rpcs:
                s1 = executor_state(ex, p, ex.read(p, p.roots['args'][0].loc))
                run.prove(f'Ok => soft advances by exactly one to the executed block, firm unchanged, firm <= soft {lab}', p.pc,
                          z3.And(s1['soft']['number'] == s0['soft']['number'] + 1, s1['firm']['number'] == s0['firm']['number'], s1['firm']['hash'] == s0['firm']['hash'],
                                 z3.ULE(s1['firm']['number'], s1['soft']['number']), rpcs[0][3], z3.BoolVal(len(ups) == 1)))
        if not n_exec:
            raise Inconclusive('vacuity: no path executes a block')
    run.require_reached(*run.cur.reach)


def _objs(p):
    return []


def block_height(ex, p):
    """height field of the ExecutableBlock the path created (lazily materialised by the code under test)"""
    for fr_objs in (p.lazy,):
        pass
    # the hook created exactly one 'incoming' object per path; find it through the lazy memo of its height field
    for (lz, key), v in p.lazy.items():
        pass
    hs = [v for (lz, key), v in p.lazy.items() if isinstance(key, tuple) and lz in p.world.get('_incoming', [])]
    if 'incoming_height' in p.world:
        return p.world['incoming_height']
    raise Inconclusive('incoming block height not recorded')


def level_conds(ex, p, executor):
    cfg = B.fld(ex, p, executor, 'config', 'executor::Config')
    a = ex.adts.lookup(cfg.ty)
    level = ex.read(p, ('field', cfg, (None, a['fields'].index('execution_commit_level'), 'config::CommitLevel'))) if a else None
    if level is None:
        raise Inconclusive('Config.execution_commit_level not found')
    if not level.ty or not ex.adts.lookup(level.ty):
        level.ty = 'astria_conductor::config::CommitLevel'
    d = ex.discr_value(p, level)
    idx = lambda n: z3.BitVecVal(ex.adts.variant_index(level.ty, n), 64)
    return d == idx('FirmOnly'), d == idx('SoftAndFirm'), d == idx('SoftOnly')


@obligation('C10', 'C10-2 execute_firm: only the next expected firm height; executed iff the mode requires it; otherwise the firm update names the block executed at that height')
def c10_2(run):
    ex = engine()
    f = ex.find(r'^executor::<impl at [^>]*>::execute_firm$')
    run.bound(state='arbitrary executor state satisfying firm <= soft, numbers/heights < 2^62, pending[n].number = n', block='arbitrary incoming firm block height',
              pending='0 or 1 pending blocks', modes='all three commit levels')
    run.assume('the rollup echoes the commitment state it is sent; tokio watch channel = a cell holding the State; awaited futures complete')
    outcomes = set()
    for npend in (0, 1):
        pk = z3.BitVec('pending_key', 64)
        st, execu = run_step(run, ex, f, None, [pk][:npend])
        s0 = executor_state(ex, st, execu)
        st.pc += pre_state_constraints(s0)
        a = ex.adts.lookup('executor::Initialized')
        pend = execu.fields[(None, a['fields'].index('blocks_pending_finalization'))]
        pend_md = [md_fields(ex, st, v) for _, v in pend.attrs['items']]
        for (k, _), md in zip(pend.attrs['items'], pend_md):
            st.pc += [md['number'] == k, z3.UGT(k, s0['firm']['number']), z3.ULE(k, s0['soft']['number'])]
        exp_f, exp_s = next_expected(s0, 'firm'), next_expected(s0, 'soft')
        fo, _, _ = level_conds(ex, st, execu)
        st.pc.append(z3.Implies(fo, s0['soft']['number'] == s0['firm']['number']))      # firm-only mode never has a soft lead
        for i, p in enumerate(run.explore(ex, st, poll=True, allow_havoc=(r'^Arguments::|fmt::', r'telemetry::display'))):
            lab = f'[pending={npend}, path {i}]'
            if p.kind != 'return':
                run.prove(f'no panic {lab}', p.pc, z3.BoolVal(False), detail=p.info); continue
            r = p.result.fields[('Ready', 0)]
            rpcs = [e for e in p.log if e[0] == 'rpc_execute']; ups = [e for e in p.log if e[0] == 'rpc_update']; gets = [e for e in p.log if e[0] == 'rpc_get_block']
            h = block_height(ex, p)
            e1 = ex.read(p, p.roots['args'][0].loc)
            is_firm_only, is_both, is_soft_only = level_conds(ex, p, e1)
            lv = 'symbolic'
            run.sample({'path': i, 'result': r.discr, 'mode': lv, 'execute_rpcs': len(rpcs), 'get_block_rpcs': len(gets), 'update_rpcs': len(ups)})
            outcomes.add((r.discr, len(rpcs), len(gets)))
            run.prove(f'a block that is not at the next expected firm height is rejected before any RPC {lab}', p.pc,
                      z3.Implies(h != exp_f, z3.BoolVal(r.discr == 'Err' and not rpcs and not ups and not gets)))
            if rpcs:
                should = z3.Or(is_firm_only, z3.And(is_both, exp_f == exp_s))
                run.prove(f'executed only when the mode requires it (FirmOnly, or SoftAndFirm with no soft lead), once, on top of the firm head {lab}', p.pc,
                          z3.And(z3.BoolVal(len(rpcs) == 1), should, M.ident(rpcs[0][1]) == s0['firm']['hash']))
            elif r.discr == 'Ok' or ups or gets:
                run.prove(f'not executed => the mode does not require execution {lab}', p.pc, z3.Or(is_soft_only, z3.And(is_both, exp_f != exp_s)))
            if gets:
                num = s0['rollup_start'] + (h - s0['seq_start'])
                run.prove(f'a block fetched from the rollup is requested for exactly this height\'s rollup number {lab}', p.pc, gets[0][1] == num)
            if r.discr == 'Ok':
                s1 = executor_state(ex, p, e1)
                run.prove(f'Ok => firm never decreases, firm <= soft, soft never decreases {lab}', p.pc,
                          z3.And(z3.ULE(s1['firm']['number'], s1['soft']['number']), z3.UGE(s1['soft']['number'], s0['soft']['number']),
                                 z3.Implies(z3.BoolVal(not gets), s1['firm']['number'] == s0['firm']['number'] + 1)))
                if not rpcs and not gets:
                    run.prove(f'Ok without execution => the new firm block is the pending block executed at this very height, removed from the cache {lab}', p.pc,
                              z3.And(z3.BoolVal(npend == 1), s1['firm']['hash'] == pend_md[0]['hash'] if npend else z3.BoolVal(False),
                                     z3.BoolVal(len(B.fld(ex, p, e1, 'blocks_pending_finalization', 'HashMap').attrs['items']) == 0)))
    if not any(o[1] for o in outcomes) or not any(o[0] == 'Ok' and not o[1] and not o[2] for o in outcomes):
        raise Inconclusive(f'vacuity: outcomes {outcomes}')
    run.require_reached(*run.cur.reach)


# ----------------------------------------------------------------------------------------------------------------- C10-4 BlockCache
def _cache(ex, k):
    keys = [z3.BitVec(f'cached_height{i}', 64) for i in range(k)]
    blocks = []
    for i in range(k):
        b = Obj('astria_core::sequencerblock::v1::block::FilteredSequencerBlock', kind='opaque'); b.attrs['tag'] = f'b{i}'; b.attrs['height'] = keys[i]
        blocks.append(b)
    nxt = z3.BitVec('next_height', 64)
    c = B.struct(ex, 'BlockCache', inner=M.new_map('BTreeMap<u64, FilteredSequencerBlock>', list(zip(keys, blocks))), next_height=nxt)
    inv = [z3.ULT(keys[i], keys[i + 1]) for i in range(k - 1)] + [z3.UGE(x, nxt) for x in keys] + [nxt != 0]
    return c, keys, blocks, nxt, inv


def _cache_view(ex, p, c):
    m = B.fld(ex, p, c, 'inner', 'BTreeMap')
    return [(ex.deref_val(p, kk), ex.deref_val(p, v).attrs.get('tag')) for kk, v in m.attrs['items']], B.fld(ex, p, c, 'next_height', 'u64')


@obligation('C10', 'C10-4 BlockCache: insert / pop / drop_obsolete keep every cached height >= the next height to pop, pop yields exactly the next height once, old or duplicate heights are refused')
def c10_4(run):
    hk = [(re.compile(r'GetSequencerHeight>::get_height$|FilteredSequencerBlock::height$'), lambda ctx: [(None, ctx.ex.deref_val(ctx.st, ctx.args[0]).attrs['height'])]),
          (re.compile(r'(^|::)Height::value$'), lambda ctx: [(None, ctx.ex.deref_val(ctx.st, ctx.args[0]))])]
    ex = loader.load(['astria-conductor'], scalar_types=SCALARS, hooks=hk)
    def fn(name):
        c = [n for n in ex.fns if n.endswith('::' + name) and 'closure' not in n and (ex.impl_self(n) or (None, ''))[1].split('<')[0] == 'BlockCache']
        if len(c) != 1:
            raise Inconclusive(f'BlockCache::{name} not found: {c}')
        return c[0]
    run.bound(cache='0..2 cached blocks at arbitrary heights satisfying the invariant (sorted keys = BTreeMap order, all >= next_height, next_height != 0)', heights='all u64', instantiation='T = FilteredSequencerBlock (height read through GetSequencerHeight)')
    run.assume('the invariant "every cached height >= next_height" is established by with_next_height (empty cache) and shown inductive here')
    reached = set()
    for k in (0, 1, 2):
        # insert
        c, keys, blocks, nxt, inv = _cache(ex, k)
        nb = Obj('astria_core::sequencerblock::v1::block::FilteredSequencerBlock', kind='opaque'); nb.attrs['tag'] = 'new'; h = z3.BitVec('new_height', 64); nb.attrs['height'] = h
        st = ex.start(fn('insert'), [B.cell(c), nb]); st.pc += inv
        for i, p in enumerate(run.explore(ex, st, allow_havoc=(r'^Arguments::|fmt::',))):
            lab = f'[insert, {k} cached, path {i}]'
            if p.kind != 'return':
                run.prove(f'no panic {lab}', p.pc, z3.BoolVal(False), detail=p.info); continue
            view, n1 = _cache_view(ex, p, ex.read(p, p.roots['args'][0].loc))
            tags = [t for _, t in view]
            res = p.result.discr; reached.add(('insert', res))
            run.sample({'op': 'insert', 'cached': k, 'path': i, 'result': res, 'after': tags})
            if res == 'Ok':
                run.prove(f'accepted => height >= next_height, not cached before; cache = old + this block under its own height; next_height unchanged; invariant holds {lab}', p.pc,
                          z3.And(z3.UGE(h, nxt), *[h != x for x in keys], z3.BoolVal(sorted(tags) == sorted([f'b{j}' for j in range(k)] + ['new'])), n1 == nxt,
                                 *[kk == (h if t == 'new' else keys[int(t[1:])]) for kk, t in view], *[z3.UGE(kk, n1) for kk, _ in view]))
            else:
                run.prove(f'refused => old (height < next_height) or duplicate height; cache unchanged {lab}', p.pc,
                          z3.And(z3.Or(z3.ULT(h, nxt), *[h == x for x in keys]), z3.BoolVal(tags == [f'b{j}' for j in range(k)]), n1 == nxt, *[kk == keys[int(t[1:])] for kk, t in view]))
        # pop
        c, keys, blocks, nxt, inv = _cache(ex, k)
        st = ex.start(fn('pop'), [B.cell(c)]); st.pc += inv
        for i, p in enumerate(run.explore(ex, st, allow_havoc=(r'^Arguments::|fmt::',))):
            lab = f'[pop, {k} cached, path {i}]'
            if p.kind != 'return':
                # next_height == u64::MAX with a block cached at u64::MAX: documented expect
                run.prove(f'pop panics only when next_height is u64::MAX {lab}', p.pc, nxt == z3.BitVecVal((1 << 64) - 1, 64), detail=p.info); continue
            view, n1 = _cache_view(ex, p, ex.read(p, p.roots['args'][0].loc))
            tags = [t for _, t in view]
            res = p.result.discr; reached.add(('pop', res))
            run.sample({'op': 'pop', 'cached': k, 'path': i, 'result': res, 'after': tags})
            if res == 'Some':
                b = ex.deref_val(p, p.result.fields[('Some', 0)])
                j = int(b.attrs['tag'][1:])
                run.prove(f'pop yields the block cached at exactly next_height, removes it, advances next_height by one; invariant holds {lab}', p.pc,
                          z3.And(keys[j] == nxt, n1 == nxt + 1, z3.BoolVal(tags == [f'b{x}' for x in range(k) if x != j]), *[z3.UGE(kk, n1) for kk, _ in view]))
            else:
                run.prove(f'pop yields nothing only if no block is cached at next_height; cache unchanged {lab}', p.pc,
                          z3.And(*[x != nxt for x in keys], n1 == nxt, z3.BoolVal(tags == [f'b{x}' for x in range(k)])))
        # drop_obsolete
        c, keys, blocks, nxt, inv = _cache(ex, k)
        latest = z3.BitVec('latest_height', 64)
        st = ex.start(fn('drop_obsolete'), [B.cell(c), latest]); st.pc += inv
        for i, p in enumerate(run.explore(ex, st, allow_havoc=(r'^Arguments::|fmt::',))):
            lab = f'[drop_obsolete, {k} cached, path {i}]'
            if p.kind != 'return':
                run.prove(f'no panic {lab}', p.pc, z3.BoolVal(False), detail=p.info); continue
            view, n1 = _cache_view(ex, p, ex.read(p, p.roots['args'][0].loc))
            tags = [t for _, t in view]; reached.add(('drop_obsolete', 'ok'))
            run.sample({'op': 'drop_obsolete', 'cached': k, 'path': i, 'after': tags})
            kept = [z3.BoolVal(f'b{j}' in tags) == z3.UGE(keys[j], latest) for j in range(k)]
            run.prove(f'next_height = max(next_height, latest); exactly the blocks below latest are dropped; invariant holds {lab}', p.pc,
                      z3.And(n1 == z3.If(z3.UGT(latest, nxt), latest, nxt), *kept, *[z3.UGE(kk, n1) for kk, _ in view]))
    for need in (('insert', 'Ok'), ('insert', 'Err'), ('pop', 'Some'), ('pop', 'None'), ('drop_obsolete', 'ok')):
        if need not in reached:
            raise Inconclusive(f'vacuity: {need} not reached')
    run.require_reached(*run.cur.reach)


# ---------------------------------------------------------------------------------------------------------------------
# the soft reader's height bookkeeping (sequencer/block_stream.rs)
def _heights(ex, tag, req, obs, stop):
    f = {}
    f['rollup_expects'] = z3.BitVec(f'rollup_expects{tag}', 64)
    f['greatest_requested_height'] = some(z3.BitVec(f'greatest_requested{tag}', 64)) if req else none()
    f['latest_observed_sequencer_height'] = some(z3.BitVec(f'latest_observed{tag}', 64)) if obs else none()
    f['stop_height'] = some(z3.BitVec(f'stop_height{tag}', 64)) if stop else none()
    f['max_ahead'] = z3.BitVec(f'max_ahead{tag}', 64)
    raw = {k: (v.fields.get(('Some', 0)) if isinstance(v, Obj) else v) for k, v in f.items()}       # the Option objects are mutated in place by Option::replace
    return B.struct(ex, 'Heights', **f), raw


def _optv(ex, p, o):
    o = ex.deref_val(p, o)
    return (o.discr, ex.deref_val(p, o.fields[('Some', 0)]) if o.discr == 'Some' else None)


@obligation('C10', 'C10-6 the soft reader\'s height bookkeeping (block_stream::Heights): the next height requested is the rollup\'s expected height when nothing was requested yet, else exactly one above the greatest height requested so far (never a height already requested, never a gap), only if it exists on the sequencer, is within the look-ahead window and not past the stop height; the three recorded heights only ever grow')
def c10_6(run):
    ex = engine()
    nf = ex.find(r'block_stream::<impl at [^>]*>::next_height_to_fetch$|^(sequencer::block_stream::)?Heights::next_height_to_fetch$')
    sg = ex.find(r'block_stream::<impl at [^>]*>::set_greatest_if_greater$|^(sequencer::block_stream::)?Heights::set_greatest_if_greater$')
    so = ex.find(r'block_stream::<impl at [^>]*>::set_latest_observed_sequencer_height_if_greater$|^(sequencer::block_stream::)?Heights::set_latest_observed_sequencer_height_if_greater$')
    sr = ex.find(r'block_stream::<impl at [^>]*>::set_rollup_expects_if_greater$|^(sequencer::block_stream::)?Heights::set_rollup_expects_if_greater$')
    run.bound(inputs='all u64 values of every field, every Some / None combination; stop height non-zero (NonZeroU64)', unroll='loop-free')
    sat = lambda a, b: z3.If(z3.ULT(a + b, a), z3.BitVecVal(2**64 - 1, 64), a + b)
    n = 0
    for req in (False, True):
        for obs in (False, True):
            for stop in (False, True):
                hs, f = _heights(ex, '', req, obs, stop)
                st = ex.start(nf, [B.cell(hs)])
                if stop:
                    st.pc.append(f['stop_height'] != 0)
                for i, p in enumerate(run.explore(ex, st)):
                    lab = f'[requested={req}, observed={obs}, stop={stop}, path {i}]'
                    if p.kind != 'return':
                        run.prove(f'next_height_to_fetch no panic {lab}', p.pc, z3.BoolVal(False), detail=p.info); continue
                    n += 1
                    d, h = _optv(ex, p, p.result)
                    re_ = f['rollup_expects']
                    cand = sat(f['greatest_requested_height'], z3.BitVecVal(1, 64)) if req else re_
                    conds = [z3.ULT(cand, sat(re_, f['max_ahead']))]
                    conds.append(z3.ULE(cand, f['latest_observed_sequencer_height']) if obs else z3.BoolVal(False))
                    if stop:
                        conds.append(z3.ULE(cand, f['stop_height']))
                    run.sample({'requested': req, 'observed': obs, 'stop': stop, 'path': i, 'result': d})
                    if d == 'Some':
                        run.prove(f'Some(h) => h is the expected height / greatest requested + 1, exists on the sequencer, within the window, not past the stop height {lab}', p.pc, z3.And(h == cand, *conds))
                    else:
                        run.prove(f'None => one of the conditions fails {lab}', p.pc, z3.Not(z3.And(*conds)))
    # the setters are monotone
    for name, fn, fld, is_opt in (('set_greatest_if_greater', sg, 'greatest_requested_height', True), ('set_latest_observed_sequencer_height_if_greater', so, 'latest_observed_sequencer_height', True),
                                  ('set_rollup_expects_if_greater', sr, 'rollup_expects', False)):
        for present in ((False, True) if is_opt else (True,)):
            hs, f = _heights(ex, '', present if fld == 'greatest_requested_height' else True, present if fld == 'latest_observed_sequencer_height' else True, True)
            new = z3.BitVec('new_height', 64)
            st = ex.start(fn, [B.cell(hs), new])
            for i, p in enumerate(run.explore(ex, st)):
                lab = f'[{name}, previously set={present}, path {i}]'
                if p.kind != 'return':
                    run.prove(f'no panic {lab}', p.pc, z3.BoolVal(False), detail=p.info); continue
                n += 1
                after = ex.read(p, p.roots['args'][0].loc)
                v = B.fld(ex, p, after, fld, None)
                if is_opt:
                    d, v = _optv(ex, p, v)
                    old = f[fld] if present else None
                    want = z3.If(z3.UGT(new, old), new, old) if present else new
                    grew = z3.UGT(new, old) if present else z3.BoolVal(True)
                    run.prove(f'recorded height = max(old, new); answer = whether it grew; other fields untouched {lab}', p.pc,
                              z3.And(z3.BoolVal(d == 'Some'), v == want, p.result == grew, ex.deref_val(p, B.fld(ex, p, after, 'max_ahead', None)) == f['max_ahead']) if d == 'Some' else z3.BoolVal(False))
                else:
                    v = ex.deref_val(p, v); old = f[fld]
                    run.prove(f'recorded height = max(old, new); answer = whether it grew {lab}', p.pc, z3.And(v == z3.If(z3.UGT(new, old), new, old), p.result == z3.UGT(new, old)))
    # two-step: after requesting h and recording it, the next request is h + 1 or nothing
    hs, f = _heights(ex, '', True, True, True)
    st = ex.start(nf, [B.cell(hs)])
    st.pc.append(f['stop_height'] != 0)
    for i, p in enumerate(run.explore(ex, st)):
        if p.kind != 'return':
            continue
        d, h = _optv(ex, p, p.result)
        if d != 'Some':
            continue
        hs2, f2 = _heights(ex, '', True, True, True)
        st2 = ex.start(sg, [B.cell(hs2), h]); st2.pc += list(p.pc)
        for j, q in enumerate(run.explore(ex, st2)):
            if q.kind != 'return':
                run.prove(f'no panic [two-step {i}.{j}]', q.pc, z3.BoolVal(False)); continue
            after = ex.read(q, q.roots['args'][0].loc)
            st3 = ex.start(nf, [B.cell(after)]); st3.pc += list(q.pc)
            for k_, r in enumerate(run.explore(ex, st3)):
                if r.kind != 'return':
                    run.prove(f'no panic [two-step {i}.{j}.{k_}]', r.pc, z3.BoolVal(False)); continue
                n += 1
                d3, h3 = _optv(ex, r, r.result)
                run.prove(f'request h, record it, ask again => h + 1 or nothing (no repeat, no gap) [two-step {i}.{j}.{k_}]', r.pc, z3.BoolVal(True) if d3 != 'Some' else z3.And(h3 == h + 1, z3.UGT(h3, h)))
    if n < 20:
        raise Inconclusive(f'vacuity: {n} paths')
    run.require_reached(*run.cur.reach)
