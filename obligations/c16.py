"""C16 — composer bundles each accepted transaction once, in order, within the size limit (BundleFactory one-step relation)."""
import re
import z3
from vlib.oblig import obligation, mval
from vlib import loader, build as B
from mirsym.engine import Obj, Ref, Inconclusive
from mirsym import models as M

RDS = 'astria_core::protocol::transaction::v1::action::RollupDataSubmission'


def h_encoded_len(ctx):
    a = ctx.ex.deref_val(ctx.st, ctx.args[0])
    if 'enc_len' not in a.attrs:
        a.attrs['enc_len'] = z3.BitVec(f'encoded_len_{a.lz}', 64)
    return [(None, a.attrs['enc_len'])]


def h_with_ibc_prefixed(ctx):
    """the action in the form that is stored and emitted: same identity (tag), fee asset ibc-prefixed, and an encoded length of its OWN (the denom string changes,
    so the protobuf size of the emitted form differs from the size of the form that was handed in)"""
    a = ctx.ex.deref_val(ctx.st, ctx.args[0])
    if a.attrs.get('prefixed'):
        return [(None, a)]
    b = Obj(RDS); b.attrs['tag'] = a.attrs.get('tag'); b.attrs['prefixed'] = True; b.attrs['enc_len'] = z3.BitVec(f'prefixed_size_{a.attrs.get("tag")}', 64)
    b.fields.update(a.fields)
    return [(None, b)]


def engine():
    hooks = [(re.compile(r'(^|::)encoded_len$'), h_encoded_len), (re.compile(r'(^|::)with_ibc_prefixed$'), h_with_ibc_prefixed)]
    return loader.load(['astria-composer'], hooks=hooks, scalar_types={'astria_core::primitive::v1::RollupId': 256, 'RollupId': 256})


def mk_action(tag, prefixed=True):
    a = Obj(RDS); a.attrs['enc_len'] = z3.BitVec(f'size_{tag}' if prefixed else f'raw_size_{tag}', 64); a.attrs['tag'] = tag; a.attrs['prefixed'] = prefixed
    return a


def wrap_action(ex, a):
    w = Obj('astria_core::protocol::transaction::v1::Action'); w.discr = 'RollupDataSubmission'; w.fields[('RollupDataSubmission', 0)] = a
    return w


def mk_bundle(ex, tag, n, max_size):
    acts = [mk_action(f'{tag}_{i}') for i in range(n)]
    cur = z3.BitVec(f'curr_size_{tag}', 64)
    b = B.struct(ex, 'SizedBundle', buffer=M.new_vec('Vec<Action>', [wrap_action(ex, a) for a in acts]), curr_size=cur, max_size=max_size,
                 rollup_counts=M.new_map('HashMap<RollupId, usize>', [(a_id(a), z3.BitVec(f'count_{tag}_{i}', 64)) for i, a in enumerate(acts)][:1]))
    return b, acts, cur


def a_id(a):
    return z3.BitVec(f'rollup_{a.attrs["tag"]}', 256)


def bundle_view(ex, p, b):
    """(list of action tags in order, curr_size, max_size)"""
    buf = B.fld(ex, p, b, 'buffer', 'Vec<Action>')
    tags = []
    for it in buf.attrs['items']:
        it = ex.deref_val(p, it)
        inner = it.fields.get(('RollupDataSubmission', 0)) if isinstance(it, Obj) else None
        tags.append(inner.attrs.get('tag') if isinstance(inner, Obj) else None)
    return tags, B.fld(ex, p, b, 'curr_size', 'usize'), B.fld(ex, p, b, 'max_size', 'usize')


def factory_view(ex, p, f):
    cur = bundle_view(ex, p, B.fld(ex, p, f, 'curr_bundle', 'SizedBundle'))
    fin = [bundle_view(ex, p, ex.deref_val(p, x)) for x in B.fld(ex, p, f, 'finished', 'VecDeque<SizedBundle>').attrs['items']]
    return cur, fin, B.fld(ex, p, f, 'finished_queue_capacity', 'usize')


def sum_sizes(acts):
    s = z3.BitVecVal(0, 66)
    for a in acts:
        s = s + z3.ZeroExt(2, a.attrs['enc_len'])
    return s


@obligation('C16', 'C16-1 BundleFactory::try_push one-step relation')
def c16_push(run):
    ex = engine()
    f = ex.find(r'bundle_factory::<impl at [^>]*>::try_push$|^executor::bundle_factory::<impl at [^>]*>::try_push$') if False else None
    cands = [n for n in ex.fns if n.endswith('::try_push') and 'closure' not in n]
    fac = [n for n in cands if ex.impl_self(n) == (None, 'BundleFactory')]
    if len(fac) != 1:
        raise Inconclusive(f'BundleFactory::try_push not found: {cands}')
    K = (0, 1, 2); Q = (0, 1, 2)
    run.bound(current_bundle='0..2 actions', finished_queue='0..2 bundles of 1 action', sizes='all usize (encoded_len is an oracle, stable per action)', capacity='all usize')
    run.bound(magnitudes='max bundle size and every encoded length < 2^63 (Rust allocations cannot exceed isize::MAX); at usize::MAX the saturating size arithmetic is outside the claim')
    run.assume('encoded_len (protobuf) is an arbitrary usize fixed per action AND per form: the handed-in form and the ibc-prefixed form that is emitted have unrelated sizes; with_ibc_prefixed keeps the identity of the action')
    n_paths = 0
    for k in K:
        for q in Q:
            mx = z3.BitVec('max_size', 64); cap = z3.BitVec('capacity', 64)
            cur, cur_acts, cur_size = mk_bundle(ex, 'cur', k, mx)
            fins = [mk_bundle(ex, f'fin{j}', 1, mx) for j in range(q)]
            factory = B.struct(ex, 'BundleFactory', curr_bundle=cur, finished=M.new_vec('VecDeque<SizedBundle>', [b for b, _, _ in fins]), finished_queue_capacity=cap)
            new = mk_action('new', prefixed=False); size = z3.BitVec('prefixed_size_new', 64)      # every check is about the size of the form that is emitted
            raw = new.attrs['enc_len']
            lim = z3.BitVecVal(1 << 63, 64)
            inv = [z3.ZeroExt(2, cur_size) == sum_sizes(cur_acts), z3.ULE(cur_size, mx), z3.ULT(mx, lim), z3.ULT(size, lim), z3.ULT(raw, lim)] + [z3.ULE(fs, mx) for _, _, fs in fins]
            st = ex.start(fac[0], [B.cell(factory), new])
            st.pc += inv
            fits = z3.ULE(z3.ZeroExt(2, cur_size) + z3.ZeroExt(2, size), z3.ZeroExt(2, mx))
            small = z3.ULE(size, mx)
            full = z3.UGE(z3.BitVecVal(q, 64), cap)
            pre_cur = [a.attrs['tag'] for a in cur_acts]; pre_fin = [[a.attrs['tag'] for a in acts] for _, acts, _ in fins]
            for i, p in enumerate(run.explore(ex, st)):
                lab = f'[cur={k}, finished={q}, path {i}]'
                if p.kind != 'return':
                    run.prove(f'no panic {lab}', p.pc, z3.BoolVal(False), detail=p.info); continue
                n_paths += 1
                fo = ex.read(p, p.roots['args'][0].loc)
                (ctags, csize, cmax), fin_v, cap_v = factory_view(ex, p, fo)
                ftags = [t for t, _, _ in fin_v]
                res = p.result.discr
                run.sample({'cur': k, 'finished': q, 'path': i, 'result': res, 'current_after': ctags, 'finished_after': ftags})
                if res == 'Ok':
                    stored = [ex.deref_val(p, x) for x in B.fld(ex, p, B.fld(ex, p, fo, 'curr_bundle', 'SizedBundle'), 'buffer', 'Vec<Action>').attrs['items']]
                    last = stored[-1].fields.get(('RollupDataSubmission', 0)) if stored and isinstance(stored[-1], Obj) else None
                    run.prove(f'the action is stored in its emitted (ibc-prefixed) form, and that is the form whose size was counted {lab}', p.pc,
                              z3.BoolVal(isinstance(last, Obj) and bool(last.attrs.get('prefixed')) and last.attrs.get('tag') == 'new'))
                    pushed_into_current = (ctags == pre_cur + ['new'] and ftags == pre_fin)
                    flushed = (ctags == ['new'] and ftags == pre_fin + [pre_cur])
                    if pushed_into_current:
                        run.prove(f'accepted into the current bundle <=> it fits; size updated exactly; bound kept {lab}', p.pc,
                                  z3.And(fits, small, csize == cur_size + size, z3.ULE(csize, cmax), cmax == mx))
                    elif flushed:
                        run.prove(f'old bundle appended at the BACK of the queue, new bundle = [action] <=> does not fit, fits alone, queue not full {lab}', p.pc,
                                  z3.And(z3.Not(fits), small, z3.Not(full), csize == size, z3.ULE(csize, cmax), cmax == mx, fin_v[-1][1] == cur_size, fin_v[-1][2] == mx))
                    else:
                        run.prove(f'Ok leaves the factory in one of the two documented shapes (order preserved, nothing lost or duplicated) {lab}', p.pc, z3.BoolVal(False),
                                  detail={'current': ctags, 'finished': ftags})
                else:
                    e = p.result.fields[('Err', 0)]
                    kind = e.discr if isinstance(e, Obj) else None
                    run.prove(f'refused => factory unchanged {lab}', p.pc, z3.And(z3.BoolVal(ctags == pre_cur and ftags == pre_fin), csize == cur_size))
                    if kind == 'SequenceActionTooLarge':
                        run.prove(f'SequenceActionTooLarge <=> the action alone exceeds the maximum {lab}', p.pc, z3.Not(small))
                    else:
                        run.prove(f'FinishedQueueFull <=> fits alone, not in the current bundle, and the queue is at capacity {lab}', p.pc, z3.And(small, z3.Not(fits), full))
    if n_paths < 9:
        raise Inconclusive('too few paths explored')
    run.require_reached(*run.cur.reach)


@obligation('C16', 'C16-2 pop_now / next_finished().pop(): FIFO order, finished bundles first')
def c16_pop(run):
    ex = engine()
    pop_now = [n for n in ex.fns if n.endswith('::pop_now') and ex.impl_self(n) == (None, 'BundleFactory')]
    nf = [n for n in ex.fns if n.endswith('::next_finished') and ex.impl_self(n) == (None, 'BundleFactory')]
    popf = [n for n in ex.fns if n.endswith('::pop') and ex.impl_self(n) == (None, 'NextFinishedBundle')]
    if len(pop_now) != 1 or len(nf) != 1 or len(popf) != 1:
        raise Inconclusive('pop functions not found')
    run.bound(current_bundle='0..2 actions', finished_queue='0..2 bundles')
    for k in (0, 1, 2):
        for q in (0, 1, 2):
            mx = z3.BitVec('max_size', 64); cap = z3.BitVec('capacity', 64)
            cur, cur_acts, cur_size = mk_bundle(ex, 'cur', k, mx)
            fins = [mk_bundle(ex, f'fin{j}', 1, mx) for j in range(q)]
            factory = B.struct(ex, 'BundleFactory', curr_bundle=cur, finished=M.new_vec('VecDeque<SizedBundle>', [b for b, _, _ in fins]), finished_queue_capacity=cap)
            pre_cur = [a.attrs['tag'] for a in cur_acts]; pre_fin = [[a.attrs['tag'] for a in acts] for _, acts, _ in fins]
            for i, p in enumerate(run.explore(ex, ex.start(pop_now[0], [B.cell(factory)]))):
                lab = f'[cur={k}, finished={q}, path {i}]'
                if p.kind != 'return':
                    run.prove(f'pop_now no panic {lab}', p.pc, z3.BoolVal(False), detail=p.info); continue
                got, _, _ = bundle_view(ex, p, p.result)
                (ctags, csize, _), fin_v, _ = factory_view(ex, p, ex.read(p, p.roots['args'][0].loc))
                ftags = [t for t, _, _ in fin_v]
                want = (pre_fin[0], pre_cur, pre_fin[1:]) if q else (pre_cur, [], [])
                run.sample({'fn': 'pop_now', 'cur': k, 'finished': q, 'popped': got, 'current_after': ctags, 'finished_after': ftags})
                run.prove(f'pop_now returns the FRONT finished bundle if any, else the current one; the rest keeps its order {lab}', p.pc,
                          z3.And(z3.BoolVal((got, ctags, ftags) == want), csize == (cur_size if q else z3.BitVecVal(0, 64))))
    run.require_reached(*run.cur.reach)
