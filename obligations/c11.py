"""C11 — relayer never skips a block across crash/restart.  The crash-point / fault-sequence quantifier itself is NOT explored (needs the running
process); what is decided here is the ordering discipline the crash argument rests on (necessary conditions), on the real MIR of write::try_submit."""
import re
import z3
from vlib.oblig import obligation, mval
from vlib import loader, build as B, actions as A
from mirsym.engine import Obj, Ref, Inconclusive, ok, err, some, none
from mirsym import models as M


def log_oracle(name, mk_ok, arg_idx=()):
    def h(ctx):
        st = ctx.st
        n = sum(1 for e in st.log if e[0] == name)
        okv = z3.Bool(f'{name}_ok_{n}')
        args = tuple(ctx.ex.deref_val(st, ctx.args[i]) for i in arg_idx)
        st.log.append((name, okv) + args)

        def alts(ex, s2, fut):
            return [(okv, (lambda s3: ok(mk_ok(ctx, s3)))), (z3.Not(okv), (lambda s3: err(Obj(f'{name}Error', kind='error'))))]
        return [(None, M.thunk_future(alts))]
    return h


def h_confirm(ctx):
    st = ctx.st
    okv = z3.Bool('confirmed_on_celestia')
    hgt = z3.BitVec('confirmed_celestia_height', 64)
    st.log.append(('confirm', okv, ctx.ex.deref_val(st, ctx.args[1])))

    def alts(ex, s2, fut):
        return [(okv, some(hgt)), (z3.Not(okv), none())]
    return [(None, M.thunk_future(alts))]


def h_try_submit(ctx):
    st = ctx.st
    okv, timeout = z3.Bool('broadcast_ok'), z3.Bool('broadcast_timed_out')
    hgt = z3.BitVec('submitted_celestia_height', 64)
    st.log.append(('broadcast', okv, ctx.ex.deref_val(st, ctx.args[1])))

    def alts(ex, s2, fut):
        def mk_err(s3):
            inner = Obj('tendermint_rpc or grpc error', kind='error'); inner.attrs['is_timeout'] = timeout
            e = Obj('relayer::celestia_client::TrySubmitError'); e.discr = z3.If(z3.Bool('error_is_broadcast_failure'), z3.BitVecVal(ex.adts.variant_index('TrySubmitError', 'FailedToBroadcastTx') or 0, 64), z3.BitVecVal(1 if (ex.adts.variant_index('TrySubmitError', 'FailedToBroadcastTx') or 0) != 1 else 2, 64))
            e.fields[('FailedToBroadcastTx', 0)] = inner
            b = Obj('Box', kind='box'); b.fields[('in', 0)] = e
            return err(b)
        return [(okv, ok(hgt)), (z3.Not(okv), mk_err)]
    return [(None, M.thunk_future(alts))]


def h_is_timeout(ctx):
    e = ctx.ex.deref_val(ctx.st, ctx.args[0])
    return [(None, e.attrs.get('is_timeout', z3.Bool('broadcast_timed_out')) if isinstance(e, Obj) else z3.Bool('broadcast_timed_out'))]


def engine():
    hooks = [
        (re.compile(r'watch::Receiver::<.*>::borrow$'), lambda ctx: [(None, Ref(('field', ctx.ex.deref_val(ctx.st, ctx.args[0]), ('watch', 0, 'std::option::Option<relayer::write::SubmissionError>'))))]),
        (re.compile(r'^<(tokio::sync::)?watch::Ref<.*> as Deref>::deref$'), lambda ctx: [(None, ctx.ex.read(ctx.st, ctx.args[0].loc) if isinstance(ctx.args[0], Ref) and isinstance(ctx.ex.read(ctx.st, ctx.args[0].loc), Ref) else ctx.args[0])]),
        (re.compile(r'CelestiaClient::try_prepare$'), log_oracle('try_prepare', lambda c, s: Obj('relayer::celestia_client::BlobTxAndFee'))),
        (re.compile(r'BlobTxHash::compute$'), lambda ctx: [(None, z3.BitVec('blob_tx_hash', 256))]),
        (re.compile(r'StartedSubmission::into_prepared$'), log_oracle('write_prepared', lambda c, s: Obj('relayer::submission::PreparedSubmission'), (1, 2))),
        (re.compile(r'PreparedSubmission::into_started$'), log_oracle('write_started', lambda c, s: Obj('relayer::submission::StartedSubmission'), (1,))),
        (re.compile(r'PreparedSubmission::(blob_tx_hash|confirmation_timeout)$'), lambda ctx: [(None, z3.BitVec('prepared_blob_tx_hash', 256) if ctx.name.endswith('blob_tx_hash') else Obj('Duration'))]),
        (re.compile(r'CelestiaClient::confirm_submission_with_timeout$'), h_confirm),
        (re.compile(r'CelestiaClient::try_submit$'), h_try_submit),
        (re.compile(r'::is_timeout$'), h_is_timeout),
        (re.compile(r'^<CelestiaClient as Clone>::clone$'), lambda ctx: [(None, Obj('CelestiaClient'))]),
    ]
    return loader.load(['astria-sequencer-relayer'], hooks=hooks, scalar_types={'tendermint::block::Height': 64, 'SequencerHeight': 64, 'BlobTxHash': 256, 'relayer::celestia_client::BlobTxHash': 256})


@obligation('C11', 'C11-1 try_submit: `prepared` is written before the broadcast; `started` only with a confirmed Celestia height')
def c11_1(run):
    ex = engine()
    f = ex.find(r'^(relayer::write::)?try_submit$')
    run.bound(last_error='None / BroadcastTxTimedOut / TrySubmit', rpc='every Celestia RPC and every state-file write is an oracle that succeeds or fails', unroll='loop-free')
    run.assume('state-file writes (into_prepared / into_started) and Celestia RPCs are oracles; crash points are NOT enumerated: these are necessary conditions for C11 only')
    outcomes = set()
    for last in ('None', 'BroadcastTxTimedOut', 'TrySubmit'):
        rx = Obj('watch::Receiver'); opt = Obj('std::option::Option<relayer::write::SubmissionError>')
        if last == 'None':
            opt.discr = 'None'
        else:
            opt.discr = 'Some'; e = Obj('relayer::write::SubmissionError'); e.discr = last
            e.fields[(last, 0)] = Obj('relayer::submission::PreparedSubmission') if last == 'BroadcastTxTimedOut' else Obj('relayer::celestia_client::TrySubmitError')
            opt.fields[('Some', 0)] = e
        rx.fields[('watch', 0)] = opt
        st = ex.start(f, [Obj('CelestiaClient'), Obj('Arc<Vec<Blob>>', kind='arc'), Obj('relayer::submission::StartedSubmission'), z3.BitVec('largest_sequencer_height', 64), rx])
        for i, p in enumerate(run.explore(ex, st, poll=True, allow_havoc=(r'^Arguments::|fmt::',))):
            lab = f'[last error {last}, path {i}]'
            if p.kind != 'return':
                run.prove(f'no panic {lab}', p.pc, z3.BoolVal(False), detail=p.info); continue
            r = p.result.fields[('Ready', 0)]
            names = [e[0] for e in p.log]
            idx = lambda n: names.index(n) if n in names else None
            ev = {n: [e for e in p.log if e[0] == n] for n in ('write_prepared', 'broadcast', 'write_started', 'confirm')}
            run.sample({'last_error': last, 'path': i, 'result': r.discr, 'effects': names})
            outcomes.add((r.discr, tuple(n for n in names if n in ('write_prepared', 'broadcast', 'write_started'))))
            if ev['broadcast']:
                run.prove(f'a broadcast is preceded by a successful write of `prepared` carrying the same blob-tx hash and the batch\'s greatest height {lab}', p.pc,
                          z3.And(z3.BoolVal(idx('write_prepared') is not None and idx('write_prepared') < idx('broadcast')), ev['write_prepared'][0][1] if ev['write_prepared'] else z3.BoolVal(False),
                                 (ev['write_prepared'][0][3] == ev['broadcast'][0][2]) if ev['write_prepared'] else z3.BoolVal(False),
                                 (ev['write_prepared'][0][2] == z3.BitVec('largest_sequencer_height', 64)) if ev['write_prepared'] else z3.BoolVal(False)))
            if ev['write_started']:
                h = ev['write_started'][0][2]
                via_broadcast = z3.And(ev['broadcast'][0][1], h == z3.BitVec('submitted_celestia_height', 64)) if ev['broadcast'] else z3.BoolVal(False)
                via_confirm = z3.And(ev['confirm'][0][1], h == z3.BitVec('confirmed_celestia_height', 64)) if ev['confirm'] else z3.BoolVal(False)
                run.prove(f'`started` is written only with the Celestia height of a successful broadcast or of a confirmed earlier attempt {lab}', p.pc, z3.Or(via_broadcast, via_confirm))
            if r.discr == 'Ok':
                run.prove(f'Ok => `started` was written successfully {lab}', p.pc, z3.And(z3.BoolVal(bool(ev['write_started'])), ev['write_started'][-1][1] if ev['write_started'] else z3.BoolVal(False)))
            if ev['broadcast'] and r.discr == 'Err':
                e = r.fields[('Err', 0)]
                if isinstance(e, Obj) and e.discr == 'BroadcastTxTimedOut':
                    run.prove(f'a broadcast timeout hands back the prepared submission without writing `started` {lab}', p.pc, z3.BoolVal(not ev['write_started']))
    if not any(o[0] == 'Ok' and 'broadcast' in o[1] for o in outcomes):
        raise Inconclusive(f'vacuity: {outcomes}')
    run.require_reached(*run.cur.reach)


# ----------------------------------------------------------------------------------------------------------------- C11-2
def state_engine():
    def h_write(ctx):
        st = ctx.st
        s = ctx.ex.deref_val(st, ctx.args[0])
        n = sum(1 for e in st.log if e[0] == 'state_write')
        okv = z3.Bool(f'state_write_ok_{n}')
        st.log.append(('state_write', okv, ctx.ex.copy_val(s)))
        return [(None, M.thunk_future(lambda ex, s2, fut: [(okv, ok(())), (z3.Not(okv), (lambda s3: err(Obj('eyre::Report', kind='error'))))]))]
    hooks = [(re.compile(r'(^|::)State::write$|submission::<impl at [^>]*>::write$'), h_write),
             (re.compile(r'^(std::time::)?SystemTime::now$'), lambda ctx: [(None, z3.BitVec('now', 128))])]
    return loader.load(['astria-sequencer-relayer'], hooks=hooks, scalar_types={'tendermint::block::Height': 64, 'SequencerHeight': 64, 'BlobTxHash': 256, 'relayer::celestia_client::BlobTxHash': 256,
                                                                            'std::time::SystemTime': 128, 'SystemTime': 128})


def _impl_fn(ex, name, self_ty):
    cands = [n for n in ex.fns if n.endswith('::' + name) and 'closure' not in n and (ex.impl_self(n) or (None, ''))[1].split('<')[0] == self_ty]
    if len(cands) != 1:
        raise Inconclusive(f'{self_ty}::{name} not found: {cands}')
    return cands[0]


def _completed(ex, tag):
    return B.struct(ex, 'CompletedSubmission', celestia_height=z3.BitVec(f'{tag}_celestia_height', 64), sequencer_height=z3.BitVec(f'{tag}_sequencer_height', 64))


def _paths(ex):
    return dict(state_file_path=Obj('StateFilePath', kind='opaque'), temp_file_path=Obj('TempFilePath', kind='opaque'))


def _state_fields(ex, p, s):
    """(variant, {field: value}) of a logged State"""
    a = ex.adts.lookup('relayer::submission::State')
    d = s.discr
    if not isinstance(d, str):
        dd = z3.simplify(d); d = a['variants'][dd.as_long()]['name'] if z3.is_bv_value(dd) else None
    out = {}
    for (vn, idx), v in s.fields.items():
        if vn == d:
            out[idx] = ex.deref_val(p, v)
    return d, out


@obligation('C11', 'C11-2 submission state transitions: what is written to the state file and handed on is exactly (confirmed height, in-flight height) as documented; a restart resumes from the last CONFIRMED height')
def c11_2(run):
    ex = state_engine()
    run.bound(heights='all u64', writes='State::write (temp file + rename) is an oracle that succeeds or fails; what is passed to it is checked')
    run.assume('the file system layer (write temp file, rename) is outside: atomicity of the write itself is not decided')
    adt = ex.adts.lookup('relayer::submission::State')
    vnames = [v['name'] for v in adt['variants']]
    vfields = {v['name']: [f['name'] if isinstance(f, dict) else f for f in v.get('fields', [])] for v in adt['variants']}

    def fld(p, sobj, variant, name):
        names = vfields[variant]
        i = names.index(name)
        return ex.deref_val(p, sobj.fields[(variant, i)])

    def cs(p, o):
        return B.fld(ex, p, o, 'celestia_height', 'u64'), B.fld(ex, p, o, 'sequencer_height', 'SequencerHeight')
    # (a) into_prepared
    f = _impl_fn(ex, 'into_prepared', 'StartedSubmission')
    last = _completed(ex, 'last'); lc, ls = z3.BitVec('last_celestia_height', 64), z3.BitVec('last_sequencer_height', 64)
    me = B.struct(ex, 'StartedSubmission', last_submission=last, **_paths(ex))
    newh, txh = z3.BitVec('new_sequencer_height', 64), z3.BitVec('blob_tx_hash', 256)
    seen = set()
    for i, p in enumerate(run.explore(ex, ex.start(f, [me, newh, txh]), poll=True, allow_havoc=(r'^Arguments::|fmt::',))):
        if p.kind != 'return':
            run.prove(f'into_prepared: no panic [path {i}]', p.pc, z3.BoolVal(False), detail=p.info); continue
        kind, r = A.poll_result(p); seen.add(kind)
        r = ex.deref_val(p, r.fields[('Ok', 0)]) if kind == 'Ok' else r
        ws = [e for e in p.log if e[0] == 'state_write']
        run.sample({'fn': 'into_prepared', 'path': i, 'result': kind, 'writes': len(ws)})
        if kind == 'Ok':
            s = ws[0][2] if ws else None
            claim = [z3.BoolVal(len(ws) == 1), z3.UGT(newh, ls)]
            if ws:
                d, _ = _state_fields(ex, p, s)
                claim += [ws[0][1], z3.BoolVal(d == 'Prepared')]
                if d == 'Prepared':
                    wl = fld(p, s, 'Prepared', 'last_submission')
                    claim += [fld(p, s, 'Prepared', 'sequencer_height') == newh, fld(p, s, 'Prepared', 'blob_tx_hash') == txh, cs(p, wl)[0] == lc, cs(p, wl)[1] == ls]
            claim += [B.fld(ex, p, r, 'sequencer_height', 'SequencerHeight') == newh, B.fld(ex, p, r, 'blob_tx_hash', 'BlobTxHash') == txh,
                      cs(p, B.fld(ex, p, r, 'last_submission', 'CompletedSubmission'))[0] == lc, cs(p, B.fld(ex, p, r, 'last_submission', 'CompletedSubmission'))[1] == ls]
            run.prove(f'into_prepared Ok => new height above the confirmed one; `prepared` written once with (new height, unchanged last submission, tx hash); same values handed on [path {i}]', p.pc, z3.And(*claim))
        else:
            run.prove(f'into_prepared Err => no successful write [path {i}]', p.pc, z3.And(*[z3.Not(e[1]) for e in ws]) if ws else z3.BoolVal(True))
    # (b) into_started, (c) revert
    for name in ('into_started', 'revert'):
        f = _impl_fn(ex, name, 'PreparedSubmission')
        me = B.struct(ex, 'PreparedSubmission', sequencer_height=z3.BitVec('prepared_sequencer_height', 64), last_submission=_completed(ex, 'last'), blob_tx_hash=txh, created_at=z3.BitVec('created_at', 128), **_paths(ex))
        ch = z3.BitVec('confirmed_celestia_height', 64)
        args = [me, ch] if name == 'into_started' else [me]
        for i, p in enumerate(run.explore(ex, ex.start(f, args), poll=True, allow_havoc=(r'^Arguments::|fmt::',))):
            if p.kind != 'return':
                run.prove(f'{name}: no panic [path {i}]', p.pc, z3.BoolVal(False), detail=p.info); continue
            kind, r = A.poll_result(p); seen.add(kind)
            r = ex.deref_val(p, r.fields[('Ok', 0)]) if kind == 'Ok' else r
            ws = [e for e in p.log if e[0] == 'state_write']
            run.sample({'fn': name, 'path': i, 'result': kind, 'writes': len(ws)})
            want = (ch, z3.BitVec('prepared_sequencer_height', 64)) if name == 'into_started' else (lc, ls)
            if kind == 'Ok':
                claim = [z3.BoolVal(len(ws) == 1)]
                if ws:
                    d, _ = _state_fields(ex, p, ws[0][2])
                    claim += [ws[0][1], z3.BoolVal(d == 'Started')]
                    if d == 'Started':
                        wl = fld(p, ws[0][2], 'Started', 'last_submission')
                        claim += [cs(p, wl)[0] == want[0], cs(p, wl)[1] == want[1]]
                rl = B.fld(ex, p, r, 'last_submission', 'CompletedSubmission')
                claim += [cs(p, rl)[0] == want[0], cs(p, rl)[1] == want[1]]
                what = 'the confirmed Celestia height with the in-flight sequencer height' if name == 'into_started' else 'the unchanged last confirmed submission'
                run.prove(f'{name} Ok => `started` written once recording {what}; same values handed on [path {i}]', p.pc, z3.And(*claim))
            else:
                run.prove(f'{name} Err => no successful write [path {i}]', p.pc, z3.And(*[z3.Not(e[1]) for e in ws]) if ws else z3.BoolVal(True))
    # (d) resume height after a restart
    f = _impl_fn(ex, 'last_completed_sequencer_height', 'SubmissionStateAtStartup')
    for variant in ('Fresh', 'Started', 'Prepared'):
        su = Obj('relayer::submission::SubmissionStateAtStartup'); su.discr = variant
        if variant == 'Fresh':
            su.fields[('Fresh', 0)] = B.struct(ex, 'FreshSubmission', **_paths(ex))
        elif variant == 'Started':
            su.fields[('Started', 0)] = B.struct(ex, 'StartedSubmission', last_submission=_completed(ex, 'last'), **_paths(ex))
        else:
            su.fields[('Prepared', 0)] = B.struct(ex, 'PreparedSubmission', sequencer_height=z3.BitVec('prepared_sequencer_height', 64), last_submission=_completed(ex, 'last'), blob_tx_hash=txh,
                                                  created_at=z3.BitVec('created_at', 128), **_paths(ex))
        for i, p in enumerate(run.explore(ex, ex.start(f, [B.cell(su)]), allow_havoc=(r'^Arguments::|fmt::',))):
            if p.kind != 'return':
                run.prove(f'last_completed_sequencer_height({variant}): no panic', p.pc, z3.BoolVal(False), detail=p.info); continue
            r = p.result
            run.sample({'fn': 'last_completed_sequencer_height', 'variant': variant, 'result': r.discr if isinstance(r.discr, str) else str(r.discr)})
            if variant == 'Fresh':
                run.prove('restart from `fresh` resumes from no height', p.pc, z3.BoolVal(r.discr == 'None'))
            else:
                v = ex.deref_val(p, r.fields.get(('Some', 0))) if r.discr == 'Some' else None
                run.prove(f'restart from `{variant.lower()}` resumes from the last CONFIRMED sequencer height (never the in-flight one)', p.pc,
                          z3.And(z3.BoolVal(r.discr == 'Some'), v == ls) if v is not None else z3.BoolVal(False))
    if 'Ok' not in seen:
        raise Inconclusive('vacuity')
    run.require_reached(*run.cur.reach)


# ----------------------------------------------------------------------------------------------------------------- C11-3
@obligation('C11', 'C11-3 SubmissionStateAtStartup::new_from_path: the state read from the file is re-written unchanged (writability check) and mapped field by field to the startup state')
def c11_3(run):
    holder = {}

    def h_read(ctx):
        st = ctx.st
        okv = z3.Bool('state_read_ok')
        st.log.append(('state_read', okv))
        return [(None, M.thunk_future(lambda ex, s2, fut: [(okv, (lambda s3: ok(s3.tr(holder['state'])))), (z3.Not(okv), (lambda s3: err(Obj('eyre::Report', kind='error'))))]))]

    def h_write(ctx):
        st = ctx.st
        s = ctx.ex.deref_val(st, ctx.args[0])
        okv = z3.Bool('state_write_ok')
        st.log.append(('state_write', okv, ctx.ex.copy_val(s)))
        return [(None, M.thunk_future(lambda ex, s2, fut: [(okv, ok(())), (z3.Not(okv), (lambda s3: err(Obj('eyre::Report', kind='error'))))]))]
    opq = lambda ty: (lambda ctx: [(None, Obj(ty, kind='opaque'))])
    hooks = [(re.compile(r'(^|::)State::read$'), h_read), (re.compile(r'(^|::)State::write$'), h_write),
             (re.compile(r'AsRef<(std::path::)?Path>>::as_ref$|Path::to_path_buf$|Path::with_extension|Path::extension$|OsStr::to_str$|as Deref>::deref$'), None)]
    ex = loader.load(['astria-sequencer-relayer'], hooks=[h for h in hooks if h[1] is not None],
                     scalar_types={'tendermint::block::Height': 64, 'SequencerHeight': 64, 'BlobTxHash': 256, 'relayer::celestia_client::BlobTxHash': 256, 'std::time::SystemTime': 128, 'SystemTime': 128})
    cands = [n for n in ex.fns if n.endswith('::new_from_path') and 'closure' not in n]
    if len(cands) != 1:
        raise Inconclusive(f'new_from_path not found: {cands}')
    run.bound(file='State::read is an oracle yielding any of the three states with arbitrary field values (or failing); State::write is an oracle that may fail', paths='std::path manipulation is havocked')
    adt = ex.adts.lookup('relayer::submission::State')
    vfields = {v['name']: list(v.get('fields', [])) for v in adt['variants']}
    seen = set()
    for variant in ('Fresh', 'Started', 'Prepared'):
        s = Obj('relayer::submission::State'); s.discr = variant
        vals = {}
        if variant in ('Started', 'Prepared'):
            ls = _completed(ex, 'last'); s.fields[(variant, vfields[variant].index('last_submission'))] = ls
        if variant == 'Prepared':
            vals = dict(sequencer_height=z3.BitVec('prepared_sequencer_height', 64), blob_tx_hash=z3.BitVec('blob_tx_hash', 256), at=z3.BitVec('created_at', 128))
            for k_, v_ in vals.items():
                s.fields[(variant, vfields[variant].index(k_))] = v_
        holder['state'] = s
        st = ex.start(cands[0], [Obj('std::path::PathBuf', kind='opaque')])
        for i, p in enumerate(run.explore(ex, st, poll=True, allow_havoc=(r'^Arguments::|fmt::', r'Path', r'OsStr', r'format', r'PathBuf', r'as_ref'))):
            lab = f'[file holds {variant}, path {i}]'
            if p.kind != 'return':
                run.prove(f'no panic {lab}', p.pc, z3.BoolVal(False), detail=p.info); continue
            kind, r = A.poll_result(p); seen.add(kind)
            ws = [e for e in p.log if e[0] == 'state_write']
            run.sample({'file': variant, 'path': i, 'result': kind, 'writes': len(ws)})
            if kind != 'Ok':
                continue
            su = ex.deref_val(p, r.fields[('Ok', 0)])
            claim = [z3.Bool('state_read_ok'), z3.BoolVal(len(ws) == 1)]
            if ws:
                d, _ = _state_fields(ex, p, ws[0][2])
                claim += [ws[0][1], z3.BoolVal(d == variant)]
            claim.append(z3.BoolVal(su.discr == variant))
            if su.discr == variant and variant != 'Fresh':
                inner = ex.deref_val(p, su.fields[(variant, 0)])
                lc, lsq = B.fld(ex, p, B.fld(ex, p, inner, 'last_submission', 'CompletedSubmission'), 'celestia_height', 'u64'), B.fld(ex, p, B.fld(ex, p, inner, 'last_submission', 'CompletedSubmission'), 'sequencer_height', 'SequencerHeight')
                claim += [lc == z3.BitVec('last_celestia_height', 64), lsq == z3.BitVec('last_sequencer_height', 64)]
                if variant == 'Prepared':
                    claim += [B.fld(ex, p, inner, 'sequencer_height', 'SequencerHeight') == vals['sequencer_height'], B.fld(ex, p, inner, 'blob_tx_hash', 'BlobTxHash') == vals['blob_tx_hash'],
                              B.fld(ex, p, inner, 'created_at', 'SystemTime') == vals['at']]
            run.prove(f'Ok => the file was read, re-written once with the same state, and the startup state carries exactly the stored fields {lab}', p.pc, z3.And(*claim))
    if 'Ok' not in seen:
        raise Inconclusive('vacuity')
    run.require_reached(*run.cur.reach)


# ----------------------------------------------------------------------------------------------------------------- C11-4
@obligation('C11', 'C11-4 restart from `prepared`: `started` with the in-flight height is written only if Celestia confirmed the stored blob-tx hash; otherwise the state reverts to the last confirmed submission')
def c11_4(run):
    ex = engine()
    f = ex.find(r'^(relayer::write::)?try_confirm_submission_from_last_session$')
    run.bound(rpc='confirm_submission_with_timeout is an oracle (confirmed at some height, or not); state-file writes are oracles that may fail')
    # engine() hooks into_started as a logged oracle; add revert the same way
    ex.hooks.insert(0, (re.compile(r'PreparedSubmission::revert$'), log_oracle('write_reverted', lambda c, s: Obj('relayer::submission::StartedSubmission'))))
    ex.hooks.insert(0, (re.compile(r'StartedSubmission::last_submission_(sequencer|celestia)_height$'), lambda ctx: [(None, z3.BitVec('h', 64))]))
    ex.hooks.insert(0, (re.compile(r'(^|::)Metrics::\w+$|State::set_latest_confirmed_celestia_height$'), lambda ctx: [(None, ())]))
    ex.hooks.insert(0, (re.compile(r'(^|::)Height::value$'), lambda ctx: [(None, ctx.ex.deref_val(ctx.st, ctx.args[0]))]))
    arc_state = Obj('Arc<State>', kind='arc'); arc_state.fields[('in', 0)] = Obj('relayer::state::State', kind='opaque')
    st = ex.start(f, [Obj('CelestiaClient'), Obj('relayer::submission::PreparedSubmission'), arc_state, B.cell(Obj('Metrics', kind='opaque'))])
    seen = set()
    for i, p in enumerate(run.explore(ex, st, poll=True, allow_havoc=(r'^Arguments::|fmt::',))):
        if p.kind != 'return':
            run.prove(f'no panic [path {i}]', p.pc, z3.BoolVal(False), detail=p.info); continue
        r = p.result.fields[('Ready', 0)]
        names = [e[0] for e in p.log]
        conf = [e for e in p.log if e[0] == 'confirm']; ws = [e for e in p.log if e[0] == 'write_started']; rv = [e for e in p.log if e[0] == 'write_reverted']
        run.sample({'path': i, 'result': r.discr, 'effects': names}); seen.add((r.discr, bool(ws), bool(rv)))
        claim = [z3.BoolVal(len(conf) == 1 and len(ws) + len(rv) <= 1)]
        if conf:
            claim.append(conf[0][2] == z3.BitVec('prepared_blob_tx_hash', 256) if z3.is_expr(conf[0][2]) else z3.BoolVal(True))
            if ws:
                claim += [conf[0][1], ws[0][2] == z3.BitVec('confirmed_celestia_height', 64)]
            if rv:
                claim.append(z3.Not(conf[0][1]))
        if r.discr == 'Ok':
            claim.append(z3.BoolVal(bool(ws) or bool(rv)))
            claim.append((ws or rv)[0][1] if (ws or rv) else z3.BoolVal(False))
        run.prove(f'the stored blob-tx hash is queried once; `started` is written only with the confirmed height, the revert only without confirmation; Ok only after a successful write [path {i}]', p.pc, z3.And(*claim))
    if not any(s[1] for s in seen) or not any(s[2] for s in seen):
        raise Inconclusive(f'vacuity: {seen}')
    run.require_reached(*run.cur.reach)


# ----------------------------------------------------------------------------------------------------------------- C11-5
@obligation('C11', 'C11-5 State::write replaces the state file atomically: the encoded state is written to the temp path, and the live state file is touched only as the destination of a rename of that temp file (never opened, truncated or copied over)')
def c11_5(run):
    def fs(op):
        def h(ctx):
            st = ctx.st
            args = [ctx.ex.deref_val(st, a) for a in ctx.args]
            tags = [a.attrs.get('tag') if isinstance(a, Obj) else None for a in args]
            n = sum(1 for e in st.log if e[0] == 'fs')
            okv = z3.Bool(f'fs_{op}_ok_{n}')
            st.log.append(('fs', op, tags, okv))
            rty = ctx.ret_ty
            return [(None, M.thunk_future(lambda ex, s2, fut: [(okv, (lambda s3: ok(z3.BitVec('bytes_copied', 64) if op == 'copy' else ()))), (z3.Not(okv), (lambda s3: err(Obj('std::io::Error', kind='error'))))]))]
        return h

    def h_unknown_fs(ctx):
        raise Inconclusive(f'file-system call that is not modelled: {ctx.callee[:120]}')

    def h_encode(ctx):
        okv = z3.Bool('json_encode_ok')
        o = Obj('String', kind='opaque'); o.attrs['tag'] = 'encoded-state'
        return [(okv, (lambda s2: ok(o))), (z3.Not(okv), (lambda s2: err(Obj('serde_json::Error', kind='error'))))]
    same = lambda ctx: [(None, ctx.ex.deref_val(ctx.st, ctx.args[0]))]
    hooks = [(re.compile(r'^tokio::fs::write::<'), fs('write')), (re.compile(r'^tokio::fs::rename::<'), fs('rename')), (re.compile(r'^tokio::fs::copy::<'), fs('copy')),
             (re.compile(r'^tokio::fs::remove_file::<'), fs('remove_file')), (re.compile(r'^(tokio|std)::fs::'), h_unknown_fs), (re.compile(r'(tokio::fs::|std::fs::)?(File|OpenOptions)::'), h_unknown_fs),
             (re.compile(r'^(serde_json::)?to_string_pretty::<'), h_encode), (re.compile(r'as AsRef<(std::path::)?Path>>::as_ref$|as Deref>::deref$|as AsRef<\[u8\]>>::as_ref$'), same)]
    ex = loader.load(['astria-sequencer-relayer'], hooks=hooks, scalar_types={'tendermint::block::Height': 64, 'SequencerHeight': 64})
    f = _impl_fn(ex, 'write', 'State')
    run.bound(state='any State value (its JSON encoding is an oracle)', fs='tokio::fs::{write, rename, copy, remove_file} are oracles that may fail; any other file-system call makes the obligation inconclusive')
    dest = B.struct(ex, 'StateFilePath', **{'0': _path('state-file')}); tmp = B.struct(ex, 'TempFilePath', **{'0': _path('temp-file')})
    st = ex.start(f, [B.cell(Obj('relayer::submission::State')), B.cell(dest), B.cell(tmp)])
    n_ok = 0
    for i, p in enumerate(run.explore(ex, st, poll=True, allow_havoc=(r'^Arguments::|fmt::', r'Path::display', r'format'))):
        if p.kind != 'return':
            run.prove(f'no panic [path {i}]', p.pc, z3.BoolVal(False), detail=p.info); continue
        kind, r = A.poll_result(p)
        ops = [e for e in p.log if e[0] == 'fs']
        run.sample({'path': i, 'result': kind, 'fs': [(e[1], e[2]) for e in ops]})
        touching = [e for e in ops if 'state-file' in e[2]]
        claim = [z3.BoolVal(all(e[1] == 'rename' and e[2][:2] == ['temp-file', 'state-file'] for e in touching))]
        for e in touching:
            j = ops.index(e)
            prior = [x for x in ops[:j] if x[1] == 'write' and x[2][0] == 'temp-file' and 'encoded-state' in x[2]]
            claim.append(z3.BoolVal(len(prior) == 1))
            if prior:
                claim.append(prior[0][3])
        if kind == 'Ok':
            n_ok += 1
            claim += [z3.BoolVal(len(touching) == 1), touching[0][3] if touching else z3.BoolVal(False)]
        run.prove(f'the live state file is only ever the destination of a rename of the fully written temp file; Ok only after that rename succeeded [path {i}]', p.pc, z3.And(*claim))
    if not n_ok:
        raise Inconclusive('vacuity')
    run.require_reached(*run.cur.reach)


def _path(tag):
    o = Obj('std::path::PathBuf', kind='opaque'); o.attrs['tag'] = tag
    return o


# ----------------------------------------------------------------------------------------------------------------- C11-6
@obligation('C11', 'C11-6 Celestia responses: a submission counts as confirmed at height h only if GetTx answered code 0 and height h > 0; any non-zero code (GetTx or BroadcastTx) is an error; no answer / height 0 means still pending')
def c11_6(run):
    import re as _re
    from mirsym import models as M
    from mirsym.engine import ok as _ok, err as _err, some as _some, none as _none
    def h_into_inner(ctx):
        r = ctx.ex.deref_val(ctx.st, ctx.args[0])
        return [(None, r.attrs['inner'])]

    def h_status_code(ctx):
        c = Obj('tonic::Code'); c.discr = z3.BitVec('status_code', 64)
        ctx.st.pc.append(z3.ULE(c.discr, 16))
        return [(None, c)]
    CODES = {'Ok': 0, 'Cancelled': 1, 'Unknown': 2, 'InvalidArgument': 3, 'DeadlineExceeded': 4, 'NotFound': 5, 'AlreadyExists': 6, 'PermissionDenied': 7}

    def code_val(ctx, v):
        v = ctx.ex.deref_val(ctx.st, v)
        if isinstance(v, Obj) and v.kind == 'const':
            m_ = _re.search(r'Code::(\w+)', v.attrs.get('const', ''))
            if m_ and m_.group(1) in CODES:
                return z3.BitVecVal(CODES[m_.group(1)], 64)
        if isinstance(v, Obj) and v.discr is not None:
            d = v.discr
            return z3.BitVecVal(CODES[d], 64) if isinstance(d, str) and d in CODES else (z3.BitVecVal(d, 64) if isinstance(d, int) else d)
        raise Inconclusive(f'tonic::Code value not understood: {v!r} {getattr(v, "attrs", None)}')

    def h_code_eq(ctx):
        return [(None, code_val(ctx, ctx.args[0]) == code_val(ctx, ctx.args[1]))]
    hooks = [(_re.compile(r'^<tonic::Code as PartialEq>::eq$'), h_code_eq), (_re.compile(r'^(tonic::)?Response::<.*>::into_inner$'), h_into_inner), (_re.compile(r'^(tonic::)?Status::code$'), h_status_code),
             (_re.compile(r'GrpcResponseError as From<.*Status>>::from$'), lambda ctx: [(None, Obj('GrpcResponseError', kind='opaque'))]),
             (_re.compile(r'make_ascii_lowercase$'), lambda ctx: [(None, ())])]
    ex = loader.load(['astria-sequencer-relayer', 'astria-core'], hooks=hooks, scalar_types={'tendermint::block::Height': 64, 'SequencerHeight': 64})
    run.bound(responses='arbitrary gRPC outcome: transport error with any status code, empty response, or a TxResponse with arbitrary code (u32) and height (i64)')
    NOT_FOUND = 5       # tonic::Code::NotFound
    n = 0
    for fname, raw_ty, is_get in (('block_height_from_response', 'GetTxResponse', True), ('lowercase_hex_encoded_tx_hash_from_response', 'BroadcastTxResponse', False)):
        f = ex.find(rf'(^|::){fname}$')
        code, height = z3.BitVec('tx_code', 32), z3.BitVec('tx_height', 64)
        for shape in ('transport-error', 'empty', 'tx-response'):
            if shape == 'transport-error':
                arg = _err(Obj('tonic::Status', kind='opaque'))
            else:
                txr = B.struct(ex, 'cosmos::base::abci::v1beta1::TxResponse', code=code, height=height) if shape == 'tx-response' else None
                inner = B.struct(ex, raw_ty, tx_response=_some(txr) if txr is not None else _none())
                resp = Obj('tonic::Response', kind='opaque'); resp.attrs['inner'] = inner
                arg = _ok(resp)
            for i, p in enumerate(run.explore(ex, ex.start(f, [arg]), allow_havoc=(r'^Arguments::|fmt::', r'Status::message'))):
                lab = f'[{fname}, {shape}, path {i}]'
                if p.kind != 'return':
                    run.prove(f'no panic {lab}', p.pc, z3.BoolVal(False), detail=p.info); continue
                n += 1
                r = p.result
                run.sample({'fn': fname, 'shape': shape, 'path': i, 'result': r.discr})
                if is_get:
                    if r.discr == 'Ok':
                        o = ex.deref_val(p, r.fields[('Ok', 0)])
                        if o.discr == 'Some':
                            h = ex.deref_val(p, o.fields[('Some', 0)])
                            run.prove(f'confirmed at h => a TxResponse with code 0 and height h > 0 {lab}', p.pc, z3.And(z3.BoolVal(shape == 'tx-response'), code == 0, height > 0, h == height))
                        else:
                            run.prove(f'pending => transport says not-found, or code 0 and height 0 {lab}', p.pc,
                                      z3.BitVec('status_code', 64) == NOT_FOUND if shape == 'transport-error' else z3.And(z3.BoolVal(shape == 'tx-response'), code == 0, height == 0))
                    else:
                        run.prove(f'error => not a clean confirmation (transport error other than not-found, empty response, non-zero code, or negative height) {lab}', p.pc,
                                  z3.BitVec('status_code', 64) != NOT_FOUND if shape == 'transport-error' else (z3.BoolVal(True) if shape == 'empty' else z3.Or(code != 0, height < 0)))
                    if shape == 'tx-response':
                        run.prove(f'a non-zero code is never reported as confirmed or pending {lab}', p.pc, z3.Implies(code != 0, z3.BoolVal(r.discr == 'Err')))
                else:
                    run.prove(f'a broadcast is accepted iff a TxResponse with code 0 came back {lab}', p.pc,
                              z3.BoolVal(r.discr == 'Ok') == (z3.And(z3.BoolVal(shape == 'tx-response'), code == 0)))
    if n < 8:
        raise Inconclusive(f'vacuity: only {n} paths')
    run.require_reached(*run.cur.reach)


# ----------------------------------------------------------------------------------------------------------------- C11-7
@obligation('C11', 'C11-7 the sequencer reader (BlockStream): heights are requested one by one in increasing order without a gap, starting right after the last height recorded as submitted; a block is handed on under the height it was requested for')
def c11_7(run):
    import re as _re
    from mirsym import models as M
    from mirsym.engine import ok as _ok, err as _err, some as _some, none as _none, enum as _enum
    R = _re.compile
    H = {'tendermint::block::Height': 64, 'SequencerHeight': 64, 'Height': 64}

    def h_fetch(ctx):
        hgt = ctx.ex.deref_val(ctx.st, ctx.args[1])
        ctx.st.log.append(('fetch', hgt))
        k = sum(1 for e in ctx.st.log if e[0] == 'fetch')
        done = z3.Bool(f'fetch_{k}_done')
        blk = Obj('SequencerBlock', kind='opaque'); blk.attrs['ident'] = ('block_fetched_for', hgt)
        failed = z3.Bool(f'fetch_{k}_failed')
        if k >= 2:
            # a second fetch inside one poll (only possible when a completed fetch was not handed on): it stays pending, which ends the poll loop; the claims below flag it
            return [(None, M.thunk_future(lambda ex, s2, fut: [(None, _enum('Poll', 'Pending', []))]))]
        return [(None, M.thunk_future(lambda ex, s2, fut: [(z3.And(done, z3.Not(failed)), (lambda s3: _ok(s3.tr(fut.attrs['blk'])))), (z3.And(done, failed), (lambda s3: _err(Obj('eyre::Report', kind='error')))),
                                                            (z3.Not(done), _enum('Poll', 'Pending', []))], blk=blk))]
    hooks = [(R(r'(^|::)fetch_block$'), h_fetch), (R(r'(^|::)Height::increment$'), lambda ctx: [(None, ctx.ex.deref_val(ctx.st, ctx.args[0]) + 1)]),
             (R(r'(^|::)Height::value$'), lambda ctx: [(None, ctx.ex.deref_val(ctx.st, ctx.args[0]))]),
             (R(r'^<(tendermint::block::)?Height as From<u32>>::from$'), lambda ctx: [(None, z3.ZeroExt(32, ctx.args[0]))]),
             (R(r'FutureExt>::boxed$'), lambda ctx: [(None, M.make_box(ctx.args[0]))]),
             (R(r'State::set_latest_requested_sequencer_height$'), lambda ctx: (ctx.st.log.append(('requested', ctx.ex.deref_val(ctx.st, ctx.args[1]))), [(None, ())])[1]),
             (R(r'^<.* as (std::clone::)?Clone>::clone$'), lambda ctx: [(None, ctx.ex.deref_val(ctx.st, ctx.args[0]))])]
    def h_project(ctx):
        # pin-project-lite generates `project` inside an anonymous const with the impl header in the macro crate: resolve it by signature
        from mirsym.engine import PUSHED
        names = [n_ for n_ in ctx.ex.fns if n_.endswith('::project') and n_.startswith('relayer::read::_::') and 'BlockStream' in ctx.ex.fns[n_].sig]
        if len(names) != 1:
            raise Inconclusive(f'pin-project `project` for BlockStream not found: {names}')
        ctx.ex.push(ctx.st, names[0], list(ctx.args), ctx.dest, ctx.nxt)
        return PUSHED
    hooks.append((R(r'<impl BlockStream>::project$'), h_project))
    ex = loader.load(['astria-sequencer-relayer'], hooks=hooks, scalar_types=H, dep_adts=['tendermint'])
    # (a) the builder: next = last fetched + 1, or 1
    bf = [n for n in ex.fns if n.endswith('::build') and 'closure' not in n and 'read' in n]
    if len(bf) != 1:
        raise Inconclusive(f'BlockStreamBuilder::build not found: {bf}')
    last = z3.BitVec('last_fetched_height', 64)
    n = 0
    for has in (True, False):
        b = B.struct(ex, 'BlockStreamBuilder', last_fetched_height=_some(last) if has else _none())
        for i, p in enumerate(run.explore(ex, ex.start(bf[0], [b]), allow_havoc=(r'^Arguments::|fmt::',))):
            if p.kind != 'return':
                run.prove(f'build: no panic [{has}, path {i}]', p.pc, z3.BoolVal(False), detail=p.info); continue
            n += 1
            hs = ex.deref_val(p, B.fld(ex, p, ex.deref_val(p, p.result), 'heights'))
            run.prove(f'the stream starts right after the last fetched height (or at 1) [{has}, path {i}]', p.pc,
                      z3.And(B.fld(ex, p, hs, 'next', 'Height') == (last + 1 if has else z3.BitVecVal(1, 64)), z3.BoolVal(ex.deref_val(p, B.fld(ex, p, hs, 'last_observed')).discr == 'None')))
    # (b) one poll_next from an arbitrary idle state (no fetch in flight): schedules exactly `next` iff allowed, then yields it under that height or stays pending
    pn = [n_ for n_ in ex.fns if n_.endswith('::poll_next') and 'closure' not in n_ and 'read' in n_]
    if len(pn) != 1:
        raise Inconclusive(f'BlockStream::poll_next not found: {pn}')
    nxt, lo = z3.BitVec('next', 64), z3.BitVec('last_observed', 64)

    def _arc_state():
        a_ = Obj('Arc<State>', kind='arc'); a_.fields[('in', 0)] = Obj('relayer::state::State', kind='opaque')
        return a_
    for has_lo in (True, False):
        for paused in (True, False):
            heights = B.struct(ex, 'Heights', last_observed=_some(lo) if has_lo else _none(), next=nxt)
            bs = B.struct(ex, 'BlockStream', heights=heights, future=_none(), height_in_flight=_none(), paused=z3.BoolVal(paused), state=_arc_state())
            pin = Obj('Pin', kind='pin'); pin.fields[('in', 0)] = B.cell(bs); pin.fields[(None, 0)] = pin.fields[('in', 0)]
            st = ex.start(pn[0], [pin, B.cell(Obj('Context'))])
            st.pc.append(z3.ULT(nxt, z3.BitVecVal(1 << 62, 64)))
            for i, p in enumerate(run.explore(ex, st, allow_havoc=(r'^Arguments::|fmt::',))):
                lab = f'[last_observed set: {has_lo}, paused: {paused}, path {i}]'
                if p.kind != 'return':
                    run.prove(f'poll_next: no panic {lab}', p.pc, z3.BoolVal(False), detail=p.info); continue
                n += 1
                fetches = [e[1] for e in p.log if e[0] == 'fetch']
                post = ex.deref_val(p, bs) if False else ex.read(p, p.roots['args'][0].fields[('in', 0)].loc) if False else None
                allowed = z3.And(z3.BoolVal(has_lo and not paused), z3.ULE(nxt, lo))
                run.sample({'has_last_observed': has_lo, 'paused': paused, 'path': i, 'fetches': len(fetches), 'result': str(p.result.discr)})
                if fetches:
                    run.prove(f'a fetch that completed (block or error) is always handed on by this poll: nothing completed is dropped {lab}', p.pc,
                              z3.Implies(z3.Bool('fetch_1_done'), z3.BoolVal(p.result.discr == 'Ready' and ex.deref_val(p, p.result.fields[('Ready', 0)]).discr == 'Some')))
                run.prove(f'a fetch is scheduled iff not paused and next <= last observed; at most one; for exactly `next` {lab}', p.pc,
                          z3.And(z3.BoolVal(len(fetches) <= 1), z3.BoolVal(len(fetches) == 1) == allowed, *[f_ == nxt for f_ in fetches]))
                pin1 = p.roots['args'][0]; bs1 = ex.deref_val(p, pin1.fields[('in', 0)])
                next1 = B.fld(ex, p, ex.deref_val(p, B.fld(ex, p, bs1, 'heights')), 'next', 'Height')
                hif = ex.deref_val(p, B.fld(ex, p, bs1, 'height_in_flight'))
                run.prove(f'the next height to request advances by exactly one per scheduled fetch; the height in flight is remembered while the fetch is pending {lab}', p.pc,
                          z3.And(next1 == nxt + len(fetches), z3.BoolVal((hif.discr == 'Some') == (p.result.discr == 'Pending')),
                                 (ex.deref_val(p, hif.fields[('Some', 0)]) == nxt) if hif.discr == 'Some' else z3.BoolVal(True)))
                r = p.result
                if r.discr == 'Ready':
                    item = ex.deref_val(p, r.fields[('Ready', 0)])
                    if item.discr == 'Some':
                        hgt, res = item.fields[('Some', 0)]
                        res = ex.deref_val(p, res)
                        if res.discr == 'Ok':
                            blk = ex.deref_val(p, res.fields[('Ok', 0)])
                            run.prove(f'a yielded block carries the height it was requested for {lab}', p.pc, z3.And(ex.deref_val(p, hgt) == nxt, z3.Not(z3.Bool('fetch_1_failed')), z3.BoolVal(len(fetches) == 1 and blk.attrs.get('ident', (None, None))[0] == 'block_fetched_for'), blk.attrs['ident'][1] == nxt))
                        else:
                            run.prove(f'a failed fetch is reported under its own height (the relayer stops and resumes from it); it is never skipped {lab}', p.pc, z3.And(ex.deref_val(p, hgt) == nxt, z3.Bool('fetch_1_failed'), z3.BoolVal(len(fetches) == 1)))
                    else:
                        run.prove(f'the stream reports nothing to do only when no fetch was scheduled {lab}', p.pc, z3.BoolVal(len(fetches) == 0))
    if n < 8:
        raise Inconclusive(f'vacuity: {n} paths')
    run.require_reached(*run.cur.reach)
