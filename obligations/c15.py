"""C15 — oracle prices need >2/3 validly signed extensions and stay within the reported range (Kani on median; mirsym on the vote-extension checks)."""
import re
import z3
from vlib.oblig import obligation, mval
from vlib import loader, build as B
from mirsym.engine import Obj, Ref, Inconclusive
from obligations.c08 import kani_obligation

MEDIAN_OVERLAYS = [('crates/astria-core/src/oracles/price_feed/utils.rs', 'verif_kani_median', '/verif/kani/core/median_harness.rs')]


@obligation('C15', 'C15-1 median lies between the smallest and the largest reported price (Kani, all i128 vectors of length 1..3 quick / ..4 thorough)')
def c15_median(run):
    hs = ['median_in_range_len2', 'median_in_range_len1', 'median_in_range_len3', 'median_of_empty_is_none'] + (['median_in_range_len4'] if run.tier == 'thorough' else [])
    kani_obligation(run, 'astria-core', MEDIAN_OVERLAYS, hs, 'crates/astria-core/src/oracles/price_feed/utils.rs', 'verif_kani_median', '/verif/kani/core/median_harness.rs',
                    timeout_s=1200 if run.tier == 'quick' else 3000)
    run.cur.bounds.update({'unwind': '4..10 (sort of <= 4 elements)', 'domain': 'every i128 price; list lengths 0..3 (quick), ..4 (thorough); longer lists are outside the claim'})


# ----------------------------------------------------------------------------------------------------------------- C15-2/3
from vlib import actions as A
from vlib.seqworld import initial_world
from mirsym import models as M
from mirsym.engine import ok, err, some, none
from vlib.actions import poll_result

SIG_OK = z3.Function('extension_signature_valid', z3.BitVecSort(256), z3.BitVecSort(256), z3.BitVecSort(256), z3.BoolSort())
MSG = z3.Function('canonical_vote_extension', z3.BitVecSort(256), z3.BitVecSort(64), z3.BitVecSort(64), z3.BitVecSort(256), z3.BitVecSort(256))
EVI = 'tendermint::abci::types::ExtendedVoteInfo'


def ve_hooks():
    def h_siginfo_eq(ctx):
        a, b = (ctx.ex.deref_val(ctx.st, x) for x in ctx.args[:2])
        if isinstance(a, Obj) and isinstance(b, Obj) and 'code' in a.attrs and 'code' in b.attrs:
            return [(None, a.attrs['code'] == b.attrs['code'])]
        lazy, const = (a, b) if 'commit' in a.attrs else (b, a)
        flag = const.fields.get(('Flag', 0)) if isinstance(const, Obj) else None
        name = (flag.discr if isinstance(flag, Obj) else None) or (flag.attrs.get('const', '') if isinstance(flag, Obj) else '')
        if 'Commit' in str(name):
            return [(None, lazy.attrs['commit'])]
        if 'Absent' in str(name):
            return [(None, lazy.attrs['absent'])]
        return None

    def h_bytes_is_empty(ctx):
        v = ctx.ex.deref_val(ctx.st, ctx.args[0])
        return [(None, v.attrs['empty'])] if isinstance(v, Obj) and 'empty' in v.attrs else None

    def h_sig_try_from(ctx):
        src = ctx.ex.deref_val(ctx.st, ctx.args[0])
        okv = z3.Bool(f'signature_wellformed_{getattr(src, "lz", 0)}')
        return [(okv, (lambda s2: ok(s2.tr(src)))), (z3.Not(okv), err())]

    def h_encode(ctx):
        ex, st = ctx.ex, ctx.st
        cve = ex.deref_val(st, ctx.args[0])
        names = cve.attrs.get('field_names')
        if not names:
            raise Inconclusive('CanonicalVoteExtension built without named fields')
        f = {n: cve.fields[(None, i)] for i, n in enumerate(names)}
        ext = ex.deref_val(st, f['extension'])
        m = Obj('Vec<u8>'); m.attrs['ident'] = MSG(M.ident(ext), f['height'], f['round'], M.ident(ex.deref_val(st, f['chain_id'])))
        return [(None, m)]

    def h_verify(ctx):
        ex, st = ctx.ex, ctx.st
        key, sig, msg = (ex.deref_val(st, x) for x in ctx.args[:3])
        v = SIG_OK(key, M.ident(sig), M.ident(msg))
        st.log.append(('verify', key, M.ident(sig), M.ident(msg)))
        return [(v, ok(())), (z3.Not(v), (lambda s2: err()))]
    ident_copy = lambda ctx: [(None, ctx.ex.copy_val(ctx.ex.deref_val(ctx.st, ctx.args[0])))]
    return [(re.compile(r'^<(tendermint::abci::types::)?BlockSignatureInfo as PartialEq>::eq$'), h_siginfo_eq), (re.compile(r'^(bytes::)?Bytes::is_empty$'), h_bytes_is_empty),
            (re.compile(r'^<([\w:]+::)?Signature as TryFrom<&\[u8\]>>::try_from$'), h_sig_try_from), (re.compile(r'Message>::encode_length_delimited_to_vec$'), h_encode),
            (re.compile(r'VerificationKey::verify$'), h_verify), (re.compile(r'(^|::)Power::value$|(^|::)Round::value$'), lambda ctx: [(None, ctx.ex.deref_val(ctx.st, ctx.args[0]))]),
            (re.compile(r'(^|::)Signature::as_bytes$|Bytes::to_vec$|^<\[u8\] as ToOwned>|chain::Id as ToString>::to_string$|^(core|std)::slice::<impl \[u8\]>::to_vec$|<(bytes::)?Bytes as Deref>::deref$|<Vec<u8> as Deref>::deref$|as_slice$'), ident_copy),
            (re.compile(r'^(telemetry::display::)?base64'), lambda ctx: [(None, Obj('b64'))])]


def mk_vote(ex, i):
    a = ex.adts.lookup(EVI)
    if not a:
        raise Inconclusive('ExtendedVoteInfo not in the tendermint ADT table')
    addr, power = z3.BitVec(f'vote{i}_address', 160), z3.BitVec(f'vote{i}_power', 64)
    val = B.struct(ex, 'tendermint::abci::types::Validator', address=addr, power=power)
    si = Obj('tendermint::abci::types::BlockSignatureInfo'); si.attrs['commit'] = z3.Bool(f'vote{i}_is_commit'); si.attrs['absent'] = z3.Bool(f'vote{i}_is_absent')
    ext = Obj('bytes::Bytes'); ext.attrs['ident'] = z3.BitVec(f'vote{i}_extension', 256); ext.attrs['empty'] = z3.Bool(f'vote{i}_extension_empty')
    sig = Obj('tendermint::Signature'); sig.attrs['ident'] = z3.BitVec(f'vote{i}_signature', 256)
    so = Obj('std::option::Option<tendermint::Signature>'); so.fields[('Some', 0)] = sig; so.discr = z3.If(z3.Bool(f'vote{i}_has_signature'), z3.BitVecVal(1, 64), z3.BitVecVal(0, 64))
    v = B.struct(ex, EVI, validator=val, sig_info=si, vote_extension=ext, extension_signature=so)
    return v, dict(addr=addr, power=power, commit=si.attrs['commit'], absent=si.attrs['absent'], ext=ext.attrs['ident'], empty=ext.attrs['empty'], sig=sig.attrs['ident'], has_sig=z3.Bool(f'vote{i}_has_signature'))


@obligation('C15', 'C15-2 validate_vote_extensions: accepted only with > 2/3 of the listed power behind validly signed extensions from distinct validators')
def c15_2(run):
    ex, W = A.engine(extra_hooks=ve_hooks())
    f = ex.find(r'^(app::vote_extension::)?validate_vote_extensions$')
    shapes = (0, 1, 2) if run.tier == 'quick' else (0, 1, 2, 3)
    run.bound(votes=f'extended commits with {shapes} votes, arbitrary addresses / powers / flags / extensions / signatures', height='all u64 >= 2', signature='oracle: uninterpreted predicate of (key, signature, message)')
    run.assume('ed25519 verification, protobuf encoding of the canonical vote extension and address prefixing are oracles; the validator key is read from the chain-state model')
    n_ok = 0
    for n in shapes:
        w0 = initial_world()
        votes = [mk_vote(ex, i) for i in range(n)]
        eci = B.struct(ex, 'tendermint::abci::types::ExtendedCommitInfo', round=z3.BitVec('round', 32), votes=M.new_vec('Vec<ExtendedVoteInfo>', [v for v, _ in votes]))
        height = z3.BitVec('height', 64)
        st = ex.start(f, [B.cell(Obj('S', kind='cell')), height, B.cell(eci)], world=dict(w0))
        st.pc += [z3.UGE(height, 2), z3.ULT(height, z3.BitVecVal(1 << 62, 64))] + [z3.Not(z3.And(m['commit'], m['absent'])) for _, m in votes]
        for i, p in enumerate(run.explore(ex, st, poll=True, allow_havoc=(r'^Arguments::|fmt::',))):
            lab = f'[{n} votes, path {i}]'
            if p.kind != 'return':
                run.prove(f'no panic {lab}', p.pc, z3.BoolVal(False), detail=p.info); continue
            kind, r = poll_result(p)
            if kind != 'Ok':
                continue
            n_ok += 1
            run.sample({'votes': n, 'path': i})
            ms = [m for _, m in votes]
            total = sum((z3.ZeroExt(8, m['power']) for m in ms), z3.BitVecVal(0, 72))
            submitted = sum((z3.If(m['commit'], z3.ZeroExt(8, m['power']), z3.BitVecVal(0, 72)) for m in ms), z3.BitVecVal(0, 72))
            distinct = z3.And(*[ms[a_]['addr'] != ms[b_]['addr'] for a_ in range(n) for b_ in range(a_ + 1, n)]) if n > 1 else z3.BoolVal(True)
            chain = z3.BitVec('chain_id', 256); rnd = z3.ZeroExt(32, z3.BitVec('round', 32))
            per = []
            for m in ms:
                key = z3.Select(w0['validator_key'], m['addr'])
                msg = MSG(m['ext'], height - 1, rnd, chain)
                per.append(z3.If(m['commit'], z3.And(m['has_sig'], z3.Select(w0['validator_power?'], m['addr']), SIG_OK(key, m['sig'], msg)), z3.And(m['empty'], z3.Not(m['has_sig']))))
            run.prove(f'accepted => distinct voters, non-zero total, strictly more than 2/3 of the listed power submitted extensions {lab}', p.pc,
                      z3.And(distinct, total != 0, z3.UGT(submitted * 3, total * 2)))
            run.prove(f'accepted => every commit vote carries a signature that verifies under the stored key of that validator over the canonical extension of (height-1, round, chain id); other votes carry nothing {lab}',
                      p.pc, z3.And(*per) if per else z3.BoolVal(True))
    if not n_ok:
        raise Inconclusive('vacuity: no accepting path')
    run.require_reached(*run.cur.reach)


# ----------------------------------------------------------------------------------------------------------------- C15-3
SIG_CODES = {'LegacySigned': 0, 'Flag(Absent)': 1, 'Flag(Commit)': 2, 'Flag(Nil)': 3}


def mk_siginfo(tag):
    code = z3.BitVec(f'{tag}_sig_info', 8)
    si = Obj('tendermint::abci::types::BlockSignatureInfo'); si.attrs['code'] = code
    si.attrs['commit'] = code == SIG_CODES['Flag(Commit)']; si.attrs['absent'] = code == SIG_CODES['Flag(Absent)']
    return si, code


@obligation('C15', 'C15-3 validate_extended_commit_against_last_commit: accepted iff round, length and every vote (address, power, block-id flag unless wholly absent) match the last commit')
def c15_3(run):
    ex, W = A.engine(extra_hooks=ve_hooks())
    f = ex.find(r'^(app::vote_extension::)?validate_extended_commit_against_last_commit$')
    pairs = [(0, 0), (1, 1), (2, 2), (1, 2), (2, 1), (0, 1), (3, 3)] if run.tier == 'thorough' else [(0, 0), (1, 1), (2, 2), (1, 2), (2, 1), (0, 1)]
    run.bound(votes=f'(last commit votes, extended commit votes) in {pairs}; arbitrary rounds, addresses, powers, block-id flags, extensions, signatures', sig_info='a scalar code per BlockSignatureInfo value (LegacySigned, Flag(Absent|Commit|Nil)); equality of two values = equality of codes')
    n_ok = n_err = 0
    for nl, ne in pairs:
        lvotes = []
        for i in range(nl):
            si, code = mk_siginfo(f'last{i}')
            addr, power = z3.BitVec(f'last{i}_address', 160), z3.BitVec(f'last{i}_power', 64)
            lvotes.append((B.struct(ex, 'tendermint::abci::types::VoteInfo', validator=B.struct(ex, 'tendermint::abci::types::Validator', address=addr, power=power), sig_info=si), dict(addr=addr, power=power, code=code)))
        evotes = []
        for i in range(ne):
            v, m = mk_vote(ex, i)
            si, code = mk_siginfo(f'ext{i}')
            a = ex.adts.lookup(EVI); v.fields[(None, a['fields'].index('sig_info'))] = si
            m = dict(m, code=code); evotes.append((v, m))
        lr, er = z3.BitVec('last_round', 32), z3.BitVec('ext_round', 32)
        last = B.struct(ex, 'tendermint::abci::types::CommitInfo', round=lr, votes=M.new_vec('Vec<VoteInfo>', [v for v, _ in lvotes]))
        eci = B.struct(ex, 'tendermint::abci::types::ExtendedCommitInfo', round=er, votes=M.new_vec('Vec<ExtendedVoteInfo>', [v for v, _ in evotes]))
        st = ex.start(f, [B.cell(last), B.cell(eci)])
        codes = [m['code'] for _, m in lvotes + evotes]
        st.pc += [z3.ULE(c, 3) for c in codes]
        match = [lr == er, z3.BoolVal(nl == ne)]
        for (_, l), (_, e) in zip(lvotes, evotes):
            wholly_absent = z3.And(e['code'] == SIG_CODES['Flag(Absent)'], e['empty'], z3.Not(e['has_sig']))
            match += [l['addr'] == e['addr'], l['power'] == e['power'], z3.Or(wholly_absent, l['code'] == e['code'])]
        for i, p in enumerate(run.explore(ex, st, allow_havoc=(r'^Arguments::|fmt::',))):
            lab = f'[{nl} last / {ne} extended votes, path {i}]'
            if p.kind != 'return':
                run.prove(f'no panic {lab}', p.pc, z3.BoolVal(False), detail=p.info); continue
            res = p.result.discr
            run.sample({'last': nl, 'ext': ne, 'path': i, 'result': res})
            if res == 'Ok':
                n_ok += 1
                run.prove(f'accepted => same round, same number of votes, every vote pair agrees on address and power, and on the block-id flag unless the extended vote is wholly absent {lab}', p.pc, z3.And(*match))
            else:
                n_err += 1
                run.prove(f'rejected => some listed mismatch exists (a matching extended commit is never rejected) {lab}', p.pc, z3.Not(z3.And(*match)))
    if not n_ok or not n_err:
        raise Inconclusive(f'vacuity: ok paths {n_ok}, err paths {n_err}')
    run.require_reached(*run.cur.reach)


# ----------------------------------------------------------------------------------------------------------------- C15-4
def oracle_hook(name, is_async, okval=lambda s: ()):
    def h(ctx):
        st = ctx.st
        n = sum(1 for e in st.log if e[0] == 'oracle' and e[1] == name)
        okv = z3.Bool(f'{name}_ok_{n}')
        st.log.append(('oracle', name, okv))
        alts = [(okv, (lambda s2: ok(okval(s2)))), (z3.Not(okv), (lambda s2: err(Obj('eyre::Report', kind='error'))))]
        if is_async:
            return [(None, M.thunk_future(lambda ex, s2, fut: alts))]
        return alts
    return h


@obligation('C15', 'C15-4 ProposalHandler::validate_proposal: accepted only at height 1, for an empty extended commit of the same round, or when every check passed')
def c15_4(run):
    hooks = [(re.compile(r'^(app::vote_extension::)?validate_extended_commit_against_last_commit$'), oracle_hook('against_last_commit', False)),
             (re.compile(r'^(app::vote_extension::)?validate_vote_extensions(::<.*>)?$'), oracle_hook('vote_extensions', True)),
             (re.compile(r'^(app::vote_extension::)?verify_vote_extension$'), oracle_hook('verify_vote_extension', False, lambda s: M.new_map('HashSet<u64>', []))),
             (re.compile(r'^(app::vote_extension::)?validate_id_to_currency_pair_mapping(::<.*>)?$'), oracle_hook('id_mapping', True)),
             (re.compile(r'get_max_num_currency_pairs(::<.*>)?$'), oracle_hook('max_pairs', True, lambda s: z3.BitVec('max_pairs', 64))),
             (re.compile(r'^<(bytes::)?Bytes as Clone>::clone$'), lambda ctx: [(None, ctx.ex.deref_val(ctx.st, ctx.args[0]))])]
    ex, W = A.engine(extra_hooks=ve_hooks() + hooks)
    f = ex.find(r'vote_extension::<impl at [^>]*>::validate_proposal$')
    shapes = (0, 1, 2)
    run.bound(votes=f'extended commits with {shapes} votes', height='all u64', callees='the four validation steps are oracles that may each fail (they are decided in C15-2, C15-3)')
    n_ok = 0
    for n in shapes:
        votes = [mk_vote(ex, i) for i in range(n)]
        lr, er = z3.BitVec('last_round', 32), z3.BitVec('ext_round', 32)
        eci = B.struct(ex, 'tendermint::abci::types::ExtendedCommitInfo', round=er, votes=M.new_vec('Vec<ExtendedVoteInfo>', [v for v, _ in votes]))
        last = B.struct(ex, 'tendermint::abci::types::CommitInfo', round=lr, votes=M.new_vec('Vec<VoteInfo>', []))
        wrapper = B.struct(ex, 'ExtendedCommitInfoWithCurrencyPairMapping', extended_commit_info=eci, id_to_currency_pair=M.new_map('IndexMap<CurrencyPairId, CurrencyPairInfo>', []))
        height = z3.BitVec('height', 64)
        st = ex.start(f, [B.cell(Obj('S', kind='cell')), height, B.cell(last), B.cell(wrapper)], world=dict(initial_world()))
        for i, p in enumerate(run.explore(ex, st, poll=True, allow_havoc=(r'^Arguments::|fmt::',))):
            lab = f'[{n} votes, path {i}]'
            if p.kind != 'return':
                run.prove(f'no panic {lab}', p.pc, z3.BoolVal(False), detail=p.info); continue
            kind, r = poll_result(p)
            orc = {}
            for e in p.log:
                if e[0] == 'oracle':
                    orc.setdefault(e[1], []).append(e[2])
            run.sample({'votes': n, 'path': i, 'result': kind, 'oracles': {k: len(v) for k, v in orc.items()}})
            full = z3.And(z3.BoolVal(len(orc.get('against_last_commit', [])) == 1 and len(orc.get('vote_extensions', [])) == 1 and len(orc.get('verify_vote_extension', [])) == n and len(orc.get('id_mapping', [])) == 1),
                          *[b for k in ('against_last_commit', 'vote_extensions', 'verify_vote_extension', 'id_mapping') for b in orc.get(k, [])])
            if kind == 'Ok':
                n_ok += 1
                run.prove(f'accepted => height 1, or an empty extended commit of the last commit\'s round, or all four validations ran and passed {lab}', p.pc,
                          z3.Or(height == 1, z3.And(z3.BoolVal(n == 0), lr == er), z3.And(z3.BoolVal(n > 0), full)))
            else:
                run.prove(f'rejected => not height 1 and not an empty extended commit of the same round (block production can always continue with an empty commit) {lab}', p.pc,
                          z3.And(height != 1, z3.Not(z3.And(z3.BoolVal(n == 0), lr == er))))
    if not n_ok:
        raise Inconclusive('vacuity: no accepting path')
    run.require_reached(*run.cur.reach)


# ----------------------------------------------------------------------------------------------------------------- C15-5
@obligation('C15', 'C15-5 aggregate_oracle_votes: one published price per mapped currency pair = median of exactly the prices reported for that pair (as a multiset), unmapped ids ignored')
def c15_5(run):
    calls = []

    def h_median(ctx):
        v = M.shaped(ctx.ex, ctx.st, ctx.args[0], 'price list')
        xs = [ctx.ex.deref_val(ctx.st, x) for x in v.attrs['items']]
        n = sum(1 for e in ctx.st.log if e[0] == 'median')
        r = z3.BitVec(f'median_{n}', 128)
        ctx.st.log.append(('median', tuple(xs), r))
        if not xs:
            return [(None, none())]
        lo, hi = xs[0], xs[0]
        for x in xs[1:]:
            lo = z3.If(x < lo, x, lo); hi = z3.If(x > hi, x, hi)
        ctx.st.pc += [lo <= r, r <= hi]                      # the contract decided by the Kani harnesses (C15-1) for lists of <= 3/4 prices
        return [(None, some(r))]

    def h_price_new(ctx):
        ctx.st.log.append(('published', ctx.ex.deref_val(ctx.st, ctx.args[0]), ctx.ex.deref_val(ctx.st, ctx.args[1]), ctx.ex.deref_val(ctx.st, ctx.args[2])))
        return [(None, Obj('astria_core::sequencerblock::v1::block::Price', kind='opaque'))]
    def h_decode(ctx):
        src = ctx.ex.deref_val(ctx.st, ctx.args[0])
        okv = z3.Bool(f'decode_ok_{getattr(src, "lz", 0)}')
        return [(okv, (lambda s2: ok(s2.tr(src)))), (z3.Not(okv), (lambda s2: err(Obj('prost::DecodeError', kind='error'))))]

    def h_try_from_raw(ctx):
        src = ctx.ex.deref_val(ctx.st, ctx.args[0])
        okv = z3.Bool(f'convert_ok_{getattr(src, "lz", 0)}')
        return [(okv, (lambda s2: ok(s2.tr(src).attrs['ove']))), (z3.Not(okv), (lambda s2: err(Obj('OracleVoteExtensionError', kind='error'))))]
    hooks = [(re.compile(r'^(oracles::price_feed::utils::)?median$'), h_median), (re.compile(r'(^|::)block::Price::new$|sequencerblock::v1::block::Price::new$'), h_price_new),
             (re.compile(r'^(std::option::)?Option::<&.*CurrencyPairInfo>::cloned$'), lambda ctx: [(None, ctx.ex.deref_val(ctx.st, ctx.args[0]))] if False else None),
             (re.compile(r'OracleVoteExtension as (prost::)?Message>::decode(::<.*>)?$'), h_decode), (re.compile(r'OracleVoteExtension::try_from_raw$'), h_try_from_raw),
             (re.compile(r'^<(bytes::)?Bytes as AsRef<\[u8\]>>::as_ref$'), lambda ctx: [(None, ctx.ex.deref_val(ctx.st, ctx.args[0]))]),
             (re.compile(r'^<.*CurrencyPairInfo as Clone>::clone$|^<.*CurrencyPair as Clone>::clone$'), lambda ctx: [(None, ctx.ex.deref_val(ctx.st, ctx.args[0]))])]
    sc = {'astria_core::oracles::price_feed::types::v2::CurrencyPairId': 64, 'CurrencyPairId': 64, 'astria_core::oracles::price_feed::types::v2::Price': 128, 'oracles::price_feed::types::v2::Price': 128,
          'types::v2::Price': 128, 'types::v2::CurrencyPairId': 64, 'oracles::price_feed::types::v2::CurrencyPairId': 64}
    ex = loader.load(['astria-core'], scalar_types=sc, hooks=hooks, dep_adts=['tendermint'])
    f = ex.find(r'^(oracles::price_feed::utils::)?calculate_prices_from_vote_extensions$')
    shapes = [(), (1,), (2,), (1, 1), (2, 1), (2, 2)] if run.tier == 'quick' else [(), (1,), (2,), (1, 1), (2, 1), (2, 2), (1, 1, 1), (2, 2, 1)]
    run.bound(votes=f'vote shapes (prices per vote) {shapes}; price ids symbolic (equal or different), the id -> pair mapping has 0..2 entries', median='entered through its contract min <= median <= max (C15-1, Kani)',
              decoding='protobuf decoding / try_from_raw of each vote extension are oracles that may fail (then the whole call fails)')
    n_pub = 0
    for shape in shapes:
        for nmap in (0, 1, 2):
            mids = [z3.BitVec(f'mapped_id{j}', 64) for j in range(nmap)]
            infos = []
            for j in range(nmap):
                pair = Obj('astria_core::oracles::price_feed::types::v2::CurrencyPair', kind='opaque'); pair.attrs['ident'] = z3.BitVec(f'pair{j}', 256)
                info = B.struct(ex, 'CurrencyPairInfo', currency_pair=pair, decimals=z3.BitVec(f'decimals{j}', 8)); info.attrs['ident'] = z3.BitVec(f'info{j}', 256); info.attrs['j'] = j
                infos.append(info)
            mapping = M.new_map('IndexMap<CurrencyPairId, CurrencyPairInfo>', list(zip(mids, infos)))
            votes = []; allp = []
            for vi, cnt in enumerate(shape):
                ps = [(z3.BitVec(f'v{vi}_id{k}', 64), z3.BitVec(f'v{vi}_price{k}', 128)) for k in range(cnt)]
                allp += ps
                ove = B.struct(ex, 'OracleVoteExtension', prices=M.new_map('IndexMap<CurrencyPairId, Price>', ps))
                ext = Obj('bytes::Bytes', kind='opaque'); ext.attrs['ove'] = ove
                votes.append(B.struct(ex, 'tendermint::abci::types::ExtendedVoteInfo', vote_extension=ext))
            eci = B.struct(ex, 'tendermint::abci::types::ExtendedCommitInfo', round=z3.BitVec('round', 32), votes=M.new_vec('Vec<ExtendedVoteInfo>', votes))
            st = ex.start(f, [B.cell(eci), B.cell(mapping)])
            st.pc += [mids[a] != mids[b] for a in range(nmap) for b in range(a + 1, nmap)]
            st.pc += [infos[a].attrs['ident'] != infos[b].attrs['ident'] for a in range(nmap) for b in range(a + 1, nmap)]
            for vi, cnt in enumerate(shape):     # ids inside one vote are distinct (IndexMap keys)
                st.pc += [z3.BitVec(f'v{vi}_id{a}', 64) != z3.BitVec(f'v{vi}_id{b}', 64) for a in range(cnt) for b in range(a + 1, cnt)]
            for i, p in enumerate(run.explore(ex, st, allow_havoc=(r'^Arguments::|fmt::',))):
                lab = f'[votes {shape}, {nmap} mapped ids, path {i}]'
                if p.kind != 'return':
                    run.prove(f'no panic {lab}', p.pc, z3.BoolVal(False), detail=p.info); continue
                if p.result.discr != 'Ok':
                    continue
                meds = [e for e in p.log if e[0] == 'median']; pubs = [e for e in p.log if e[0] == 'published']
                run.sample({'shape': list(shape), 'mapped': nmap, 'path': i, 'medians': [len(e[1]) for e in meds], 'published': len(pubs)})
                claim = [z3.BoolVal(len(pubs) == len([e for e in meds if e[1]]))]
                for j in range(nmap):
                    want = [pr for (idv, pr) in allp]           # candidates in vote order; membership decided by the solver
                    member = [idv == mids[j] for (idv, pr) in allp]
                    # the median call for pair j (if any) received exactly the member prices in order
                    mine = [e for e, pb in zip([e for e in meds if e[1]], pubs) if isinstance(pb[1], Obj) and pb[1].attrs.get('ident') is not None and str(pb[1].attrs['ident']) == f'pair{j}']
                    anym = z3.Or(*member) if member else z3.BoolVal(False)
                    if not mine:
                        claim.append(z3.Not(anym))
                        continue
                    claim.append(z3.BoolVal(len(mine) == 1))
                    got = list(mine[0][1])
                    # got must equal the subsequence of `want` selected by `member`
                    def subseq_eq(got, want, member):
                        if not want:
                            return z3.BoolVal(len(got) == 0)
                        rest_skip = z3.And(z3.Not(member[0]), subseq_eq(got, want[1:], member[1:]))
                        if not got:
                            return rest_skip
                        return z3.Or(z3.And(member[0], got[0] == want[0], subseq_eq(got[1:], want[1:], member[1:])), rest_skip)
                    import itertools
                    claim.append(z3.Or(*[subseq_eq(list(pm), want, member) for pm in itertools.permutations(got)]))      # as a multiset: the order inside the list does not matter to the median
                    pb = [pb for e, pb in zip([e for e in meds if e[1]], pubs) if e is mine[0]][0]
                    claim += [pb[2] == mine[0][2]]
                    n_pub += 1
                run.prove(f'every mapped pair with reports is published once with the median of exactly its reported prices (as a multiset); pairs without reports and unmapped ids publish nothing {lab}', p.pc, z3.And(*claim),
                          detail={'medians': [[str(x) for x in e[1]] for e in meds], 'published': [(str(pb[1].attrs.get('ident')) if isinstance(pb[1], Obj) else str(pb[1]), str(pb[2]), str(pb[3])) for pb in pubs]})
    if not n_pub:
        raise Inconclusive('vacuity: nothing published')
    run.require_reached(*run.cur.reach)


# ----------------------------------------------------------------------------------------------------------------- C15-6
@obligation('C15', 'C15-6 ProposalHandler::prepare_proposal: a vote whose extension fails verification is pruned to a wholly absent vote, all others are kept untouched, and the pruned commit must pass validate_vote_extensions')
def c15_6(run):
    def h_clear(ctx):
        b = ctx.ex.deref_val(ctx.st, ctx.args[0]); b.attrs['cleared'] = True
        return [(None, ())]
    hooks = [(re.compile(r'^(app::vote_extension::)?validate_vote_extensions(::<.*>)?$'), oracle_hook('vote_extensions', True)),
             (re.compile(r'^(app::vote_extension::)?verify_vote_extension$'), oracle_hook('verify_vote_extension', False, lambda s: M.new_map('HashSet<u64>', []))),
             (re.compile(r'^(app::vote_extension::)?get_id_to_currency_pair(::<.*>)?$'), oracle_hook('id_mapping', True, lambda s: M.new_map('IndexMap<CurrencyPairId, CurrencyPairInfo>', []))),
             (re.compile(r'get_max_num_currency_pairs(::<.*>)?$'), oracle_hook('max_pairs', True, lambda s: z3.BitVec('max_pairs', 64))),
             (re.compile(r'^<(bytes::)?Bytes as Clone>::clone$'), lambda ctx: [(None, ctx.ex.deref_val(ctx.st, ctx.args[0]))]),
             (re.compile(r'^(bytes::)?Bytes::clear$'), h_clear),
             (re.compile(r'ExtendedCommitInfoWithCurrencyPairMapping::new$'), lambda ctx: [(None, B.struct(ctx.ex, 'ExtendedCommitInfoWithCurrencyPairMapping', extended_commit_info=ctx.args[0], id_to_currency_pair=ctx.args[1]))]),
             (re.compile(r'try_base_prefixed'), oracle_hook('base_prefixed', True, lambda s: Obj('Address', kind='opaque')))]
    ex, W = A.engine(extra_hooks=ve_hooks() + hooks)
    f = ex.find(r'vote_extension::<impl at [^>]*>::prepare_proposal$')
    run.bound(votes='extended commits with 0..2 votes', height='all u64', callees='verify_vote_extension, validate_vote_extensions, the id mapping lookup are oracles that may fail')
    n_ok = 0
    for n in (0, 1, 2):
        votes = [mk_vote(ex, i) for i in range(n)]
        for i_, (v, m_) in enumerate(votes):
            si, code = mk_siginfo(f'v{i_}')
            a = ex.adts.lookup(EVI); v.fields[(None, a['fields'].index('sig_info'))] = si
            v.attrs['tag'] = f'vote{i_}'
        eci = B.struct(ex, 'tendermint::abci::types::ExtendedCommitInfo', round=z3.BitVec('round', 32), votes=M.new_vec('Vec<ExtendedVoteInfo>', [v for v, _ in votes]))
        height = z3.BitVec('height', 64)
        st = ex.start(f, [B.cell(Obj('S', kind='cell')), height, eci], world=dict(initial_world()))
        for i, p in enumerate(run.explore(ex, st, poll=True, allow_havoc=(r'^Arguments::|fmt::', r'IndexMap'))):
            lab = f'[{n} votes, path {i}]'
            if p.kind != 'return':
                run.prove(f'no panic {lab}', p.pc, z3.BoolVal(False), detail=p.info); continue
            kind, r = poll_result(p)
            orc = {}
            for e in p.log:
                if e[0] == 'oracle':
                    orc.setdefault(e[1], []).append(e[2])
            run.sample({'votes': n, 'path': i, 'result': kind, 'oracles': {k: len(v) for k, v in orc.items()}})
            if kind != 'Ok':
                continue
            n_ok += 1
            res = ex.deref_val(p, r.fields[('Ok', 0)])
            out_eci = ex.deref_val(p, B.fld(ex, p, res, 'extended_commit_info', 'ExtendedCommitInfo'))
            out_votes = [ex.deref_val(p, x) for x in B.fld(ex, p, out_eci, 'votes', 'Vec<ExtendedVoteInfo>').attrs['items']]
            a = ex.adts.lookup(EVI)
            claim = [z3.Or(height == 1, z3.BoolVal(len(orc.get('verify_vote_extension', [])) == n and len(orc.get('vote_extensions', [])) == 1)), z3.BoolVal(len(out_votes) == n)]
            if len(out_votes) == n:
                for j, ov in enumerate(out_votes):
                    okj = orc['verify_vote_extension'][j] if len(orc.get('verify_vote_extension', [])) == n else z3.BoolVal(True)
                    si = ex.deref_val(p, ov.fields[(None, a['fields'].index('sig_info'))])
                    sig = ex.deref_val(p, ov.fields[(None, a['fields'].index('extension_signature'))])
                    ext = ex.deref_val(p, ov.fields[(None, a['fields'].index('vote_extension'))])
                    untouched = z3.BoolVal('code' in si.attrs and str(si.attrs['code']) == f'v{j}_sig_info' and not ext.attrs.get('cleared') and not (isinstance(sig.discr, str) and sig.discr == 'None'))
                    flag = si.fields.get(('Flag', 0)) if isinstance(si, Obj) else None
                    fname = (flag.discr if isinstance(flag, Obj) else None) or (flag.attrs.get('const', '') if isinstance(flag, Obj) else '')
                    pruned = z3.BoolVal('Absent' in str(fname) and bool(ext.attrs.get('cleared')) and isinstance(sig.discr, str) and sig.discr == 'None')
                    claim.append(z3.Or(height == 1, z3.If(okj, untouched, pruned)))
                claim.append(z3.Or(height == 1, z3.And(*orc.get('vote_extensions', [z3.BoolVal(False)]))))
            run.prove(f'Ok => (height 1, or) every vote is kept untouched iff its extension verified and otherwise pruned to a wholly absent vote; the pruned commit passed validate_vote_extensions {lab}', p.pc, z3.And(*claim))
    if not n_ok:
        raise Inconclusive('vacuity: no accepting path')
    run.require_reached(*run.cur.reach)


# ----------------------------------------------------------------------------------------------------------------- C15-7
@obligation('C15', 'C15-7 Handler::verify_vote_extension (the ABCI answer): a peer\'s vote extension is accepted iff it is empty or passes verify_vote_extension; a failing one is answered Reject, never Accept')
def c15_7(run):
    import re
    hooks = [(re.compile(r'^(bytes::)?Bytes::is_empty$'), lambda ctx: [(None, z3.Bool('extension_is_empty'))]),
             (re.compile(r'get_max_num_currency_pairs(::<.*>)?$'), lambda ctx: [(None, M.thunk_future(lambda ex, s2, fut: [(z3.Bool('max_pairs_ok'), ok(z3.BitVec('max_pairs', 64))), (z3.Not(z3.Bool('max_pairs_ok')), (lambda s3: err()))]))]),
             (re.compile(r'^(app::vote_extension::)?verify_vote_extension$'), lambda ctx: (ctx.st.log.append(('verify',)), [(z3.Bool('extension_valid'), (lambda s: ok(M.new_map('HashSet<u64>', [])))), (z3.Not(z3.Bool('extension_valid')), (lambda s: err()))])[1])]
    ex, W = A.engine(extra_hooks=hooks)
    cands = [n for n in ex.fns if n.endswith('::verify_vote_extension') and 'closure' not in n and (ex.impl_self(n) or (None, ''))[1] == 'Handler']
    if len(cands) != 1:
        raise Inconclusive(f'Handler::verify_vote_extension not found: {cands}')
    run.bound(request='arbitrary VerifyVoteExtension; the content check (verify_vote_extension: price count and length limits) and the stored pair limit are oracles')
    req = Obj('tendermint::abci::request::VerifyVoteExtension')
    n = 0
    for i, p in enumerate(run.explore(ex, ex.start(cands[0], [B.cell(Obj('Handler')), B.cell(Obj('S', kind='cell')), req]), poll=True, allow_havoc=(r'^Arguments::|fmt::',))):
        if p.kind != 'return':
            run.prove(f'no panic [path {i}]', p.pc, z3.BoolVal(False), detail=p.info); continue
        n += 1
        kind, r = poll_result(p)
        empty, valid, mp = z3.Bool('extension_is_empty'), z3.Bool('extension_valid'), z3.Bool('max_pairs_ok')
        ans = None
        if kind == 'Ok':
            v = ex.deref_val(p, r.fields[('Ok', 0)]); ans = v.discr if isinstance(v.discr, str) else ex.adts.variant_name(v.ty, v.discr) if isinstance(v.discr, int) else None
        run.sample({'path': i, 'result': kind, 'answer': ans})
        if kind == 'Ok':
            run.prove(f'Accept iff empty or valid; Reject iff non-empty and invalid [path {i}]', p.pc,
                      z3.And(z3.BoolVal(ans in ('Accept', 'Reject')), z3.BoolVal(ans == 'Accept') == z3.Or(empty, z3.And(mp, valid)), z3.BoolVal(ans == 'Reject') == z3.And(z3.Not(empty), mp, z3.Not(valid))))
        else:
            run.prove(f'an error only when the pair limit cannot be read for a non-empty extension [path {i}]', p.pc, z3.And(z3.Not(empty), z3.Not(mp)))
    if n < 3:
        raise Inconclusive('vacuity')
    run.require_reached(*run.cur.reach)
