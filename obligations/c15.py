"""C15 — oracle prices need >2/3 validly signed extensions and stay within the reported range (Kani on median; mirsym on the vote-extension checks)."""
import re
import z3
from vlib.oblig import obligation, mval
from vlib import loader, build as B
from mirsym.engine import Obj, Ref, Inconclusive
from obligations.c08 import kani_obligation

MEDIAN_OVERLAYS = [('crates/astria-core/src/oracles/price_feed/utils.rs', 'verif_kani_median', '/verif/kani/core/median_harness.rs')]


@obligation('C15', 'C15-1 median lies between the smallest and the largest reported price (Kani, all i128 vectors of length 1..3 quick / ..4 thorough)')
def c15_median(run):
    hs = ['median_in_range_len2', 'median_in_range_len1', 'median_in_range_len3', 'median_of_empty_is_none'] + (['median_in_range_len4'] if run.tier == 'thorough' else [])
    kani_obligation(run, 'astria-core', MEDIAN_OVERLAYS, hs, 'crates/astria-core/src/oracles/price_feed/utils.rs', 'verif_kani_median', '/verif/kani/core/median_harness.rs',
                    timeout_s=1200 if run.tier == 'quick' else 3000)
    run.cur.bounds.update({'unwind': '4..10 (sort of <= 4 elements)', 'domain': 'every i128 price; list lengths 0..3 (quick), ..4 (thorough); longer lists are outside the claim'})
