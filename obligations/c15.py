"""C15 — oracle prices need >2/3 validly signed extensions and stay within the reported range (Kani on median; mirsym on the vote-extension checks)."""
import re
import z3
from vlib.oblig import obligation, mval
from vlib import loader, build as B
from mirsym.engine import Obj, Ref, Inconclusive
from obligations.c08 import kani_obligation

MEDIAN_OVERLAYS = [('crates/astria-core/src/oracles/price_feed/utils.rs', 'verif_kani_median', '/verif/kani/core/median_harness.rs')]


@obligation('C15', 'C15-1 median lies between the smallest and the largest reported price (Kani, all i128 vectors of length 1..3 quick / ..4 thorough)')
def c15_median(run):
    hs = ['median_in_range_len2', 'median_in_range_len1', 'median_in_range_len3', 'median_of_empty_is_none'] + (['median_in_range_len4'] if run.tier == 'thorough' else [])
    kani_obligation(run, 'astria-core', MEDIAN_OVERLAYS, hs, 'crates/astria-core/src/oracles/price_feed/utils.rs', 'verif_kani_median', '/verif/kani/core/median_harness.rs',
                    timeout_s=1200 if run.tier == 'quick' else 3000)
    run.cur.bounds.update({'unwind': '4..10 (sort of <= 4 elements)', 'domain': 'every i128 price; list lengths 0..3 (quick), ..4 (thorough); longer lists are outside the claim'})


# ----------------------------------------------------------------------------------------------------------------- C15-2/3
from vlib import actions as A
from vlib.seqworld import initial_world
from mirsym import models as M
from mirsym.engine import ok, err, some, none
from vlib.actions import poll_result

SIG_OK = z3.Function('extension_signature_valid', z3.BitVecSort(256), z3.BitVecSort(256), z3.BitVecSort(256), z3.BoolSort())
MSG = z3.Function('canonical_vote_extension', z3.BitVecSort(256), z3.BitVecSort(64), z3.BitVecSort(64), z3.BitVecSort(256), z3.BitVecSort(256))
EVI = 'tendermint::abci::types::ExtendedVoteInfo'


def ve_hooks():
    def h_siginfo_eq(ctx):
        a, b = (ctx.ex.deref_val(ctx.st, x) for x in ctx.args[:2])
        lazy, const = (a, b) if 'commit' in a.attrs else (b, a)
        flag = const.fields.get(('Flag', 0)) if isinstance(const, Obj) else None
        name = (flag.discr if isinstance(flag, Obj) else None) or (flag.attrs.get('const', '') if isinstance(flag, Obj) else '')
        if 'Commit' in str(name):
            return [(None, lazy.attrs['commit'])]
        if 'Absent' in str(name):
            return [(None, lazy.attrs['absent'])]
        return None

    def h_bytes_is_empty(ctx):
        v = ctx.ex.deref_val(ctx.st, ctx.args[0])
        return [(None, v.attrs['empty'])] if isinstance(v, Obj) and 'empty' in v.attrs else None

    def h_sig_try_from(ctx):
        src = ctx.ex.deref_val(ctx.st, ctx.args[0])
        okv = z3.Bool(f'signature_wellformed_{getattr(src, "lz", 0)}')
        return [(okv, (lambda s2: ok(s2.tr(src)))), (z3.Not(okv), err())]

    def h_encode(ctx):
        ex, st = ctx.ex, ctx.st
        cve = ex.deref_val(st, ctx.args[0])
        names = cve.attrs.get('field_names')
        if not names:
            raise Inconclusive('CanonicalVoteExtension built without named fields')
        f = {n: cve.fields[(None, i)] for i, n in enumerate(names)}
        ext = ex.deref_val(st, f['extension'])
        m = Obj('Vec<u8>'); m.attrs['ident'] = MSG(M.ident(ext), f['height'], f['round'], M.ident(ex.deref_val(st, f['chain_id'])))
        return [(None, m)]

    def h_verify(ctx):
        ex, st = ctx.ex, ctx.st
        key, sig, msg = (ex.deref_val(st, x) for x in ctx.args[:3])
        v = SIG_OK(key, M.ident(sig), M.ident(msg))
        st.log.append(('verify', key, M.ident(sig), M.ident(msg)))
        return [(v, ok(())), (z3.Not(v), (lambda s2: err()))]
    ident_copy = lambda ctx: [(None, ctx.ex.copy_val(ctx.ex.deref_val(ctx.st, ctx.args[0])))]
    return [(re.compile(r'^<(tendermint::abci::types::)?BlockSignatureInfo as PartialEq>::eq$'), h_siginfo_eq), (re.compile(r'^(bytes::)?Bytes::is_empty$'), h_bytes_is_empty),
            (re.compile(r'^<([\w:]+::)?Signature as TryFrom<&\[u8\]>>::try_from$'), h_sig_try_from), (re.compile(r'Message>::encode_length_delimited_to_vec$'), h_encode),
            (re.compile(r'VerificationKey::verify$'), h_verify), (re.compile(r'(^|::)Power::value$|(^|::)Round::value$'), lambda ctx: [(None, ctx.ex.deref_val(ctx.st, ctx.args[0]))]),
            (re.compile(r'(^|::)Signature::as_bytes$|Bytes::to_vec$|^<\[u8\] as ToOwned>|chain::Id as ToString>::to_string$|^(core|std)::slice::<impl \[u8\]>::to_vec$|<(bytes::)?Bytes as Deref>::deref$|<Vec<u8> as Deref>::deref$|as_slice$'), ident_copy),
            (re.compile(r'^(telemetry::display::)?base64'), lambda ctx: [(None, Obj('b64'))])]


def mk_vote(ex, i):
    a = ex.adts.lookup(EVI)
    if not a:
        raise Inconclusive('ExtendedVoteInfo not in the tendermint ADT table')
    addr, power = z3.BitVec(f'vote{i}_address', 160), z3.BitVec(f'vote{i}_power', 64)
    val = B.struct(ex, 'tendermint::abci::types::Validator', address=addr, power=power)
    si = Obj('tendermint::abci::types::BlockSignatureInfo'); si.attrs['commit'] = z3.Bool(f'vote{i}_is_commit'); si.attrs['absent'] = z3.Bool(f'vote{i}_is_absent')
    ext = Obj('bytes::Bytes'); ext.attrs['ident'] = z3.BitVec(f'vote{i}_extension', 256); ext.attrs['empty'] = z3.Bool(f'vote{i}_extension_empty')
    sig = Obj('tendermint::Signature'); sig.attrs['ident'] = z3.BitVec(f'vote{i}_signature', 256)
    so = Obj('std::option::Option<tendermint::Signature>'); so.fields[('Some', 0)] = sig; so.discr = z3.If(z3.Bool(f'vote{i}_has_signature'), z3.BitVecVal(1, 64), z3.BitVecVal(0, 64))
    v = B.struct(ex, EVI, validator=val, sig_info=si, vote_extension=ext, extension_signature=so)
    return v, dict(addr=addr, power=power, commit=si.attrs['commit'], absent=si.attrs['absent'], ext=ext.attrs['ident'], empty=ext.attrs['empty'], sig=sig.attrs['ident'], has_sig=z3.Bool(f'vote{i}_has_signature'))


@obligation('C15', 'C15-2 validate_vote_extensions: accepted only with > 2/3 of the listed power behind validly signed extensions from distinct validators')
def c15_2(run):
    ex, W = A.engine(extra_hooks=ve_hooks())
    f = ex.find(r'^(app::vote_extension::)?validate_vote_extensions$')
    shapes = (0, 1, 2) if run.tier == 'quick' else (0, 1, 2, 3)
    run.bound(votes=f'extended commits with {shapes} votes, arbitrary addresses / powers / flags / extensions / signatures', height='all u64 >= 2', signature='oracle: uninterpreted predicate of (key, signature, message)')
    run.assume('ed25519 verification, protobuf encoding of the canonical vote extension and address prefixing are oracles; the validator key is read from the chain-state model')
    n_ok = 0
    for n in shapes:
        w0 = initial_world()
        votes = [mk_vote(ex, i) for i in range(n)]
        eci = B.struct(ex, 'tendermint::abci::types::ExtendedCommitInfo', round=z3.BitVec('round', 32), votes=M.new_vec('Vec<ExtendedVoteInfo>', [v for v, _ in votes]))
        height = z3.BitVec('height', 64)
        st = ex.start(f, [B.cell(Obj('S', kind='cell')), height, B.cell(eci)], world=dict(w0))
        st.pc += [z3.UGE(height, 2), z3.ULT(height, z3.BitVecVal(1 << 62, 64))] + [z3.Not(z3.And(m['commit'], m['absent'])) for _, m in votes]
        for i, p in enumerate(run.explore(ex, st, poll=True, allow_havoc=(r'^Arguments::|fmt::',))):
            lab = f'[{n} votes, path {i}]'
            if p.kind != 'return':
                run.prove(f'no panic {lab}', p.pc, z3.BoolVal(False), detail=p.info); continue
            kind, r = poll_result(p)
            if kind != 'Ok':
                continue
            n_ok += 1
            run.sample({'votes': n, 'path': i})
            ms = [m for _, m in votes]
            total = sum((z3.ZeroExt(8, m['power']) for m in ms), z3.BitVecVal(0, 72))
            submitted = sum((z3.If(m['commit'], z3.ZeroExt(8, m['power']), z3.BitVecVal(0, 72)) for m in ms), z3.BitVecVal(0, 72))
            distinct = z3.And(*[ms[a_]['addr'] != ms[b_]['addr'] for a_ in range(n) for b_ in range(a_ + 1, n)]) if n > 1 else z3.BoolVal(True)
            chain = z3.BitVec('chain_id', 256); rnd = z3.ZeroExt(32, z3.BitVec('round', 32))
            per = []
            for m in ms:
                key = z3.Select(w0['validator_key'], m['addr'])
                msg = MSG(m['ext'], height - 1, rnd, chain)
                per.append(z3.If(m['commit'], z3.And(m['has_sig'], z3.Select(w0['validator_power?'], m['addr']), SIG_OK(key, m['sig'], msg)), z3.And(m['empty'], z3.Not(m['has_sig']))))
            run.prove(f'accepted => distinct voters, non-zero total, strictly more than 2/3 of the listed power submitted extensions {lab}', p.pc,
                      z3.And(distinct, total != 0, z3.UGT(submitted * 3, total * 2)))
            run.prove(f'accepted => every commit vote carries a signature that verifies under the stored key of that validator over the canonical extension of (height-1, round, chain id); other votes carry nothing {lab}',
                      p.pc, z3.And(*per) if per else z3.BoolVal(True))
    if not n_ok:
        raise Inconclusive('vacuity: no accepting path')
    run.require_reached(*run.cur.reach)
