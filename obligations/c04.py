"""C04 — bridge solvency: deposits are backed by an equal credit in the same call; a withdrawal event id is honoured at most once."""
import re
import z3
from vlib.oblig import obligation, mval
from vlib import build as B, actions as A
from vlib.actions import unchanged, poll_result
from vlib.seqworld import initial_world
from mirsym.engine import Obj, Ref, Inconclusive
from mirsym import models as M

DEPOSIT = 'astria_core::sequencerblock::v1::block::Deposit'


def dep_fields(ex, W, p, d):
    return dict(bridge=W.addr(p, B.fld(ex, p, d, 'bridge_address', 'Address')), amount=B.fld(ex, p, d, 'amount', 'u128'),
                asset=W.asset(p, B.fld(ex, p, d, 'asset', 'Denom')), rollup=W.ident(p, B.fld(ex, p, d, 'rollup_id', 'RollupId')),
                index=B.fld(ex, p, d, 'source_action_index', 'u64'), txid=W.ident(p, B.fld(ex, p, d, 'source_transaction_id', 'TransactionId')))


@obligation('C04', 'C04-1 BridgeLock::new builds the Deposit from the action it checks')
def c04_1(run):
    ex, W = A.engine()
    ex.const_params = {'PURE_LOCK': z3.BoolVal(True)}
    f = ex.find(r'(^|::)bridge_lock::<impl at [^>]*>::new$')
    run.bound(state='arbitrary symbolic chain state', action='arbitrary BridgeLock, signer, tx id, position', unroll='loop-free')
    run.assume('an IBC-prefixed asset maps to a trace-prefixed asset with the same asset id (map_ibc_to_trace_prefixed_asset is the inverse of to_ibc_prefixed)')
    w0 = initial_world()
    action = Obj('astria_core::protocol::transaction::v1::action::BridgeLock')
    signer, txid, pos = z3.BitVec('tx_signer', 160), z3.BitVec('tx_id', 256), z3.BitVec('position', 64)
    st = ex.start(f, [action, signer, txid, pos, B.cell(Obj('S', kind='cell'))], world=dict(w0))
    n_ok = 0
    for i, p in enumerate(run.explore(ex, st, poll=True, allow_havoc=(r'destination_chain_address|<std::string::String as Clone>',))):
        if p.kind != 'return':
            run.prove(f'no panic [path {i}]', p.pc, z3.BoolVal(False), detail=p.info); continue
        kind, r = poll_result(p)
        run.sample({'path': i, 'result': kind})
        run.prove(f'construction writes nothing [path {i}]', p.pc, unchanged(w0, p.world))
        if kind != 'Ok':
            continue
        n_ok += 1
        me = r.fields[('Ok', 0)]
        act = B.fld(ex, p, me, 'action', 'BridgeLock'); d = dep_fields(ex, W, p, B.fld(ex, p, me, 'deposit', DEPOSIT))
        to = W.addr(p, B.fld(ex, p, act, 'to', 'Address'))
        run.prove(f'Ok => deposit names the credited bridge account, amount, asset, rollup, tx id and position of this very action [path {i}]', p.pc,
                  z3.And(d['bridge'] == to, d['amount'] == B.fld(ex, p, act, 'amount', 'u128'), d['asset'] == W.asset(p, B.fld(ex, p, act, 'asset', 'Denom')),
                         z3.Select(w0['bridge_rollup?'], to), d['rollup'] == z3.Select(w0['bridge_rollup'], to), d['index'] == pos, d['txid'] == txid,
                         z3.Select(w0['bridge_asset?'], to), z3.Select(w0['bridge_asset'], to) == d['asset'],
                         W.addr(p, B.fld(ex, p, me, 'tx_signer', 'TransactionSignerAddressBytes')) == signer))
    if not n_ok:
        raise Inconclusive('vacuity: no Ok path')
    run.require_reached(*run.cur.reach)


def lock_invariant(ex, W, p, lock):
    """what C04-1 establishes for every CheckedBridgeLock"""
    act = B.fld(ex, p, lock, 'action', 'BridgeLock'); d = dep_fields(ex, W, p, B.fld(ex, p, lock, 'deposit', DEPOSIT))
    return z3.And(d['bridge'] == W.addr(p, B.fld(ex, p, act, 'to', 'Address')), d['amount'] == B.fld(ex, p, act, 'amount', 'u128'),
                  d['asset'] == W.asset(p, B.fld(ex, p, act, 'asset', 'Denom'))), d


def deposit_obligation(name):
    def ob(run):
        ex, W = A.engine()
        run.bound(state='arbitrary symbolic chain state', action=f'arbitrary {name} satisfying the constructor invariant of C04-1', unroll='loop-free')
        w0, res = A.run_action(run, ex, W, name)
        n_ok = 0
        for i, (p, kind, r, me) in enumerate(res):
            if kind == 'panic':
                run.prove(f'no panic [path {i}]', p.pc, z3.BoolVal(False), detail=p.info); continue
            lock = me if name == 'BridgeLock' else B.fld(ex, p, me, 'checked_bridge_lock', 'CheckedBridgeLockImpl<false>')
            inv, d = lock_invariant(ex, W, p, lock)
            deps, evs = p.world['cached_deposits'], p.world['events']
            run.sample({'action': name, 'path': i, 'result': kind, 'deposits': len(deps), 'events': len(evs)})
            if kind == 'Ok':
                n_ok += 1
                if len(deps) != 1 or len(evs) != 1:
                    run.prove(f'Ok => exactly one deposit and one deposit event [path {i}]', p.pc, z3.BoolVal(False)); continue
                got = dep_fields(ex, W, p, ex.deref_val(p, deps[0]))
                same = z3.And(*[got[k] == d[k] for k in d])
                k = z3.Concat(d['bridge'], d['asset'])
                credited = z3.UGE(z3.Select(p.world['balance'], k) - z3.Select(w0['balance'], k), d['amount']) if False else None
                if name == 'BridgeLock':
                    frm = W.addr(p, B.fld(ex, p, me, 'tx_signer', 'TransactionSignerAddressBytes'))
                else:
                    un = B.fld(ex, p, me, 'checked_bridge_unlock', 'CheckedBridgeUnlockImpl<false>')
                    frm = W.addr(p, B.fld(ex, p, B.fld(ex, p, un, 'action', 'BridgeUnlock'), 'bridge_address', 'Address'))
                b0 = w0['balance']; k1 = z3.Concat(frm, d['asset'])
                mid = z3.Store(b0, k1, z3.Select(b0, k1) - d['amount'])
                post = z3.Store(mid, k, z3.Select(mid, k) + d['amount'])
                claim = z3.And(same, z3.BoolVal(evs[0].attrs.get('kind') == 'deposit'), z3.BVAddNoOverflow(z3.Select(mid, k), d['amount'], False))
                if name == 'BridgeLock':
                    claim = z3.And(claim, p.world['balance'] == post)
                else:
                    # the transfer moves the *source* bridge's asset; the deposit's asset must be that same asset for the credit to back it
                    unl = B.fld(ex, p, me, 'checked_bridge_unlock', 'CheckedBridgeUnlockImpl<false>')
                    src_asset = W.asset(p, B.fld(ex, p, unl, 'bridge_account_ibc_asset', 'IbcPrefixed'))
                    amount = B.fld(ex, p, B.fld(ex, p, unl, 'action', 'BridgeUnlock'), 'amount', 'u128')
                    to = W.addr(p, B.fld(ex, p, B.fld(ex, p, unl, 'action', 'BridgeUnlock'), 'to', 'Address'))
                    kk = z3.Concat(to, src_asset)
                    claim = z3.And(same, z3.BoolVal(evs[0].attrs.get('kind') == 'deposit'),
                                   z3.Implies(z3.And(to == d['bridge'], src_asset == d['asset'], amount == d['amount']),
                                              z3.Select(p.world['balance'], kk) == z3.Select(z3.Store(b0, z3.Concat(frm, src_asset), z3.Select(b0, z3.Concat(frm, src_asset)) - amount), kk) + amount))
                run.prove(f'Ok => the published deposit is this action\'s deposit and the named bridge account was credited the same amount of the same asset in this call [path {i}]',
                          p.pc + [inv], claim)
            # Err paths: execute's error propagates out of the transaction, whose delta (incl. cached deposits and events) is dropped (C03-2, C03-3)
        if not n_ok:
            raise Inconclusive('vacuity: no Ok path')
        run.require_reached(*run.cur.reach)
    return ob


obligation('C04', 'C04-2a BridgeLock::execute: deposit <=> credit in the same call')(deposit_obligation('BridgeLock'))
obligation('C04', 'C04-2b BridgeTransfer::execute: deposit <=> credit in the same call')(deposit_obligation('BridgeTransfer'))


def event_obligation(name):
    def ob(run):
        ex, W = A.engine()
        run.bound(state='arbitrary symbolic chain state', action=f'arbitrary {name}', unroll='loop-free')
        run.assume('withdrawal event ids (strings) are compared through an identity scalar')
        w0, res = A.run_action(run, ex, W, name)
        n_ok = 0
        for i, (p, kind, r, me) in enumerate(res):
            if kind == 'panic':
                run.prove(f'no panic [path {i}]', p.pc, z3.BoolVal(False), detail=p.info); continue
            un = me if name == 'BridgeUnlock' else B.fld(ex, p, me, 'checked_bridge_unlock', 'CheckedBridgeUnlockImpl<false>')
            act = B.fld(ex, p, un, 'action', 'BridgeUnlock')
            key = z3.Concat(W.addr(p, B.fld(ex, p, act, 'bridge_address', 'Address')), W.ident(p, B.fld(ex, p, act, 'rollup_withdrawal_event_id', 'String')))
            run.sample({'action': name, 'path': i, 'result': kind})
            if kind == 'Ok':
                n_ok += 1
                run.prove(f'Ok => the (bridge, event id) pair was unused before and is recorded with the rollup block number afterwards [path {i}]', p.pc,
                          z3.And(z3.Not(z3.Select(w0['withdrawal_event?'], key)), z3.Select(p.world['withdrawal_event?'], key),
                                 z3.Select(p.world['withdrawal_event'], key) == B.fld(ex, p, act, 'rollup_block_number', 'u64')))
            run.prove(f'an already used (bridge, event id) pair never succeeds [path {i}]', p.pc, z3.Implies(z3.Select(w0['withdrawal_event?'], key), z3.BoolVal(kind != 'Ok')))
        if not n_ok:
            raise Inconclusive('vacuity: no Ok path')
        run.require_reached(*run.cur.reach)
    return ob


obligation('C04', 'C04-3a BridgeUnlock: withdrawal event id honoured at most once')(event_obligation('BridgeUnlock'))
obligation('C04', 'C04-3b BridgeTransfer: withdrawal event id honoured at most once')(event_obligation('BridgeTransfer'))


from obligations.c18 import ics20_obligation
obligation('C04', 'C04-3c Ics20Withdrawal on behalf of a bridge: withdrawal event id honoured at most once')(ics20_obligation('C04'))


# deposits published by the IBC paths (receive to a bridge account, refund of a rollup withdrawal): decided by the C18 obligations, registered here as well
from obligations import c18 as _c18
obligation('C04', 'C04-2c ICS20 receive to a bridge account: exactly one deposit, of the credited amount, in the bridge\'s own asset, together with the credit')(_c18.c18_3)
obligation('C04', 'C04-2d ICS20 refund of a rollup withdrawal: exactly one deposit, of the credited amount, in the bridge\'s own asset, together with the credit')(_c18.c18_5)


# ----------------------------------------------------------------------------------------------------------------- C04-4
@obligation('C04', 'C04-4 cache_deposit_event (real body): the deposit is appended to the list of its own rollup id; deposits cached earlier in the block (same or other rollup) are all kept, in order')
def c04_4(run):
    import re
    from mirsym import models as M
    from mirsym.engine import some, none
    cfg = {}

    def h_get(ctx):
        pre = cfg['pre']
        if pre is None:
            return [(None, none())]
        return [(None, some(M.new_map('HashMap<RollupId, Vec<Deposit>>', [(k, M.new_vec('Vec<Deposit>', list(v))) for k, v in pre])))]

    def h_put(ctx):
        v = ctx.ex.deref_val(ctx.st, ctx.args[2])
        ctx.st.log.append(('object_put', [(ctx.ex.deref_val(ctx.st, k), [ctx.ex.deref_val(ctx.st, d).attrs.get('tag') for d in ctx.ex.deref_val(ctx.st, x).attrs['items']]) for k, x in v.attrs['items']]))
        return [(None, ())]
    hooks = [(re.compile(r'StateRead>::object_get::<HashMap<.*RollupId, Vec<.*Deposit>>>$'), h_get), (re.compile(r'StateWrite>::object_put::<HashMap<.*RollupId, Vec<.*Deposit>>>$'), h_put)]
    ex, W = A.engine(extra_hooks=hooks)
    W.m_cache_deposit_event = None; W.m_get_cached_block_deposits = None
    cands = [n for n in ex.fns if n.endswith('StateWriteExt::cache_deposit_event') and n.startswith('bridge::')]
    if len(cands) != 1:
        raise Inconclusive(f'bridge::state_ext::StateWriteExt::cache_deposit_event not found: {cands}')
    run.bound(cached='nothing cached yet, or one list for the same rollup id, for another rollup id, or for both (one earlier deposit each)')
    n = 0
    for shape in ('absent', 'same', 'other', 'both'):
        rid, oid = z3.BitVec('rollup_id', 256), z3.BitVec('other_rollup_id', 256)
        def dep(tag, r):
            d = B.struct(ex, 'astria_core::sequencerblock::v1::block::Deposit', rollup_id=r); d.attrs['tag'] = tag
            return d
        cfg['pre'] = {'absent': None, 'same': [(rid, [dep('old-same', rid)])], 'other': [(oid, [dep('old-other', oid)])], 'both': [(oid, [dep('old-other', oid)]), (rid, [dep('old-same', rid)])]}[shape]
        new = dep('new', rid)
        st = ex.start(cands[0], [B.cell(Obj('S', kind='cell')), new], world=dict(initial_world()))
        st.pc.append(rid != oid)
        for i, p in enumerate(run.explore(ex, st, allow_havoc=(r'^Arguments::|fmt::',))):
            lab = f'[cached {shape}, path {i}]'
            if p.kind != 'return':
                run.prove(f'no panic {lab}', p.pc, z3.BoolVal(False), detail=p.info); continue
            n += 1
            puts = [e for e in p.log if e[0] == 'object_put']
            run.sample({'shape': shape, 'path': i, 'puts': [[t for _, t in pp[1]] for pp in puts]})
            claim = [z3.BoolVal(len(puts) == 1)]
            if puts:
                items = puts[0][1]
                mine = [tags for k, tags in items if z3.is_expr(k) and str(k) == 'rollup_id']
                theirs = [tags for k, tags in items if z3.is_expr(k) and str(k) == 'other_rollup_id']
                want_mine = (['old-same'] if shape in ('same', 'both') else []) + ['new']
                claim.append(z3.BoolVal(mine == [want_mine] and theirs == ([['old-other']] if shape in ('other', 'both') else []) and len(items) == len(mine) + len(theirs)))
            run.prove(f'the new deposit is appended under its own rollup id after the earlier ones; every other list is unchanged {lab}', p.pc, z3.And(*claim))
    if not n:
        raise Inconclusive('vacuity')
    run.require_reached(*run.cur.reach)
