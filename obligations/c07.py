"""C07 — rollup data is complete, ordered and provable from block to rollup.
Decided here: the commitment generation the whole chain rests on (sequencer proposal/commitment.rs + astria-core grouping / leaf format), with the Merkle tree
API entered through its C08-S contract (root == RFC 6962 MTH of the leaves pushed, in order).  The storage / gRPC filtering / relayer split legs are not decided."""
import re
import z3
from vlib.oblig import obligation
from vlib import loader, build as B, actions as A
from mirsym.engine import Obj, Ref, Inconclusive, some, none
from mirsym import models as M
from obligations.c08 import Hash, mth

I = z3.IntSort()
ID_BYTES = z3.Function('bytes_of_rollup_id', z3.BitVecSort(256), I)
HASH_BYTES = z3.Function('bytes_of_hash', Hash, I)
CONCAT = z3.Function('concat_bytes', I, I, I)
ENC_SEQ = z3.Function('encoded_sequenced_data', z3.BitVecSort(256), I)     # protobuf encoding of RollupData::SequencedData(bytes)
ENC_DEP = z3.Function('encoded_deposit', z3.BitVecSort(256), I)            # protobuf encoding of RollupData::Deposit(deposit)


def as_bytes(v):
    if z3.is_expr(v):
        if v.sort() == Hash: return HASH_BYTES(v)
        if z3.is_bv(v): return ID_BYTES(v)
        if z3.is_int(v): return v
    if isinstance(v, Obj) and 'bytes' in v.attrs:
        return v.attrs['bytes']
    raise Inconclusive(f'leaf data of unknown form {v!r}')


def leaf_of(parts):
    b = as_bytes(parts[0])
    for x in parts[1:]:
        b = CONCAT(b, as_bytes(x))
    return b


def tree_hooks():
    def close(t):
        if t.attrs.get('open') is not None:
            t.attrs['leaves'] = t.attrs['leaves'] + [leaf_of(t.attrs['open'])]
            t.attrs['open'] = None

    def h_new(ctx):
        t = Obj('merkle::Tree', kind='opaque'); t.attrs['leaves'] = []; t.attrs['open'] = None
        return [(None, t)]

    def h_from_leaves(ctx):
        ex, st = ctx.ex, ctx.st
        src = ex.deref_val(st, ctx.args[0])
        if isinstance(src, Obj) and src.kind == 'iter':
            xs = M.drain_iter(ex, st, src)
        elif isinstance(src, Obj) and 'items' in src.attrs:
            xs = list(src.attrs['items'])
        else:
            raise Inconclusive(f'Tree::from_leaves over {src!r}')
        t = Obj('merkle::Tree', kind='opaque'); t.attrs['leaves'] = [leaf_of([ex.deref_val(st, x)]) for x in xs]; t.attrs['open'] = None
        return [(None, t)]

    def h_build_leaf(ctx):
        t = ctx.ex.deref_val(ctx.st, ctx.args[0]); close(t); t.attrs['open'] = []
        lb = Obj('merkle::LeafBuilder', kind='opaque'); lb.attrs['tree'] = t
        return [(None, lb)]

    def h_write(ctx):
        lb = ctx.ex.deref_val(ctx.st, ctx.args[0]); t = lb.attrs['tree']
        if t.attrs.get('open') is None:
            raise Inconclusive('LeafBuilder::write after the leaf was closed')
        t.attrs['open'] = t.attrs['open'] + [ctx.ex.deref_val(ctx.st, ctx.args[1])]
        return [(None, ctx.args[0])]

    def h_root(ctx):
        t = ctx.ex.deref_val(ctx.st, ctx.args[0]); close(t)
        ls = t.attrs['leaves']
        ctx.st.log.append(('root', tuple(ls)))
        return [(None, mth(ls) if ls else Hash.atom(z3.IntVal(-1)))]      # atom(-1): the empty-tree root constant
    R = re.compile
    return [(R(r'(^|::)Tree::new$'), h_new), (R(r'(^|::)Tree::from_leaves(::<.*>)?$'), h_from_leaves), (R(r'(^|::)Tree::build_leaf$'), h_build_leaf),
            (R(r'(^|::)LeafBuilder::<.*>::write$|(^|::)LeafBuilder::write$'), h_write), (R(r'(^|::)Tree::root$'), h_root)]


def commitment_hooks(cfg):
    def h_flat_map(ctx):
        pairs = []
        for tx in cfg['txs']:
            for rid, data in tx:
                pairs.append((B.cell(rid), B.cell(data)))
        it = Obj('Iter', kind='iter'); it.attrs['src'] = M.new_vec('Vec', pairs); it.attrs['pos'] = 0; it.attrs['mode'] = 'val'
        return [(None, it)]

    def h_into_raw(ctx):
        v = ctx.ex.deref_val(ctx.st, ctx.args[0])
        return [(None, v)]

    def h_encode(ctx):
        ex, st = ctx.ex, ctx.st
        v = ex.deref_val(st, ctx.args[0])
        if not isinstance(v, Obj):
            raise Inconclusive(f'encode_to_vec of {v!r}')
        d = v.discr
        if isinstance(d, str):
            name = d
        else:
            a = ex.adts.lookup(v.ty); dd = z3.simplify(d)
            name = a['variants'][dd.as_long()]['name'] if z3.is_bv_value(dd) else None
        if name == 'SequencedData':
            payload = ex.deref_val(st, v.fields[('SequencedData', 0)])
            b = ENC_SEQ(M.ident(payload))
        elif name == 'Deposit':
            payload = ex.deref_val(st, v.fields[('Deposit', 0)])
            if isinstance(payload, Obj) and payload.kind == 'box':
                payload = ex.deref_val(st, payload.fields[('in', 0)])
            b = ENC_DEP(M.ident(payload))
        else:
            raise Inconclusive(f'encode_to_vec of RollupData variant {name}')
        o = Obj('Vec<u8>', kind='opaque'); o.attrs['bytes'] = b
        return [(None, o)]
    same = lambda ctx: [(None, ctx.ex.deref_val(ctx.st, ctx.args[0]))]
    R = re.compile
    return [(R(r'^<std::slice::Iter<\'_, Arc<CheckedTransaction>> as Iterator>::flat_map::<'), h_flat_map), (R(r'RollupData::into_raw$'), h_into_raw),
            (R(r'Message>::encode_to_vec$'), h_encode), (R(r'^<Vec<u8> as Into<(bytes::)?Bytes>>::into$|^<(bytes::)?Bytes as From<Vec<u8>>>::from$|^<(bytes::)?Bytes as Clone>::clone$'), same),
            (R(r'^<(astria_core::primitive::v1::)?RollupId as AsRef<\[u8\]>>::as_ref$|^<\[u8; 32\] as AsRef<\[u8\]>>::as_ref$|<Vec<(bytes::)?Bytes> as AsRef<\[(bytes::)?Bytes\]>>::as_ref$|as Deref>::deref$'), same),
            (R(r'^Box::<.*>::new$'), None)]


SHAPES = [
    # (transactions: list of lists of rollup-id indices, deposits: {rollup-id index: count})
    ([], {}), ([[0]], {}), ([[0, 0]], {}), ([[0], [0]], {}), ([[0, 1]], {}), ([[1], [0]], {}), ([[0, 1, 0]], {}),
    ([], {0: 1}), ([[0]], {0: 1}), ([[0]], {1: 1}), ([[0]], {0: 2}), ([[0, 1]], {1: 1}), ([[1], [0]], {0: 1, 1: 1}),
]


@obligation('C07', 'C07-1 generate_rollup_datas_commitment: per rollup id exactly its submissions in block order followed by its deposits; leaf = id || root(data); ids and leaves in ascending id order; ids root = exactly the ids with data')
def c07_1(run):
    run.bound(blocks=f'{len(SHAPES)} block shapes: 0..2 transactions with 0..3 rollup data submissions over <= 2 rollup ids (ids symbolic: equal or different, either order) and 0..2 deposits for <= 2 rollup ids',
              merkle='astria-merkle Tree API entered through its contract root == RFC 6962 MTH of the leaves in push order (decided under C08-S for <= 16 leaves)',
              bytes='byte strings are terms: bytes_of_rollup_id, bytes_of_hash, concat_bytes, encoded_sequenced_data(data id), encoded_deposit(deposit id) — uninterpreted, so equal results need equal construction')
    run.assume('CheckedTransaction::rollup_data_bytes yields the (rollup id, data) pairs of the transaction\'s RollupDataSubmission actions in action order (oracle: the flat_map over transactions is replaced by that list)')
    n_done = 0
    for si, (txs_shape, dep_shape) in enumerate(SHAPES):
        nids = 1 + max([i for t in txs_shape for i in t] + list(dep_shape.keys()) + [-1])
        ids = [z3.BitVec(f'rollup_id{i}', 256) for i in range(max(nids, 1))]
        cfg = {'txs': []}
        subs = []      # (id index, data ident) in block order
        for ti, t in enumerate(txs_shape):
            row = []
            for ai, ridx in enumerate(t):
                d = Obj('bytes::Bytes', kind='opaque'); d.attrs['ident'] = z3.BitVec(f'data_t{ti}a{ai}', 256)
                row.append((ids[ridx], d)); subs.append((ridx, d.attrs['ident']))
            cfg['txs'].append(row)
        hooks = [h for h in commitment_hooks(cfg) + tree_hooks() if h[1] is not None]
        ex, W = A.engine(extra_hooks=hooks)
        ex.const_params = {'USES_DATA_ITEM_ENUM': z3.BoolVal(True)}
        f = ex.find(r'^(proposal::commitment::)?generate_rollup_datas_commitment(::<.*>)?$')
        deps = []; dep_entries = []
        for ridx, cnt in dep_shape.items():
            ds = []
            for j in range(cnt):
                d = Obj('astria_core::sequencerblock::v1::block::Deposit', kind='opaque'); d.attrs['ident'] = z3.BitVec(f'deposit_r{ridx}_{j}', 256)
                ds.append(d); deps.append((ridx, d.attrs['ident']))
            dep_entries.append((ids[ridx], M.new_vec('Vec<Deposit>', ds)))
        txvec = M.new_vec('Vec<Arc<CheckedTransaction>>', [Obj('Arc<CheckedTransaction>', kind='arc') for _ in txs_shape])
        st = ex.start(f, [B.cell(txvec), M.new_map('HashMap<RollupId, Vec<Deposit>>', dep_entries)])
        if len(dep_entries) > 1:
            st.pc.append(ids[0] != ids[1])      # HashMap keys are distinct
        for pi, p in enumerate(run.explore(ex, st, allow_havoc=(r'^Arguments::|fmt::',))):
            lab = f'[shape {si}: txs {txs_shape} deposits {dep_shape}, path {pi}]'
            if p.kind != 'return':
                run.prove(f'no panic {lab}', p.pc, z3.BoolVal(False), detail=p.info); continue
            n_done += 1
            res = p.result
            got_data = B.fld(ex, p, res, 'rollup_datas_root', '[u8; 32]'); got_ids = B.fld(ex, p, res, 'rollup_ids_root', '[u8; 32]')
            # specification, by cases over which ids are equal / how they are ordered (decided by the solver under the path condition)
            used = sorted({i for i, _ in subs} | {i for i, _ in deps})
            def spec(groups):
                """groups: list of lists of id indices denoting equal ids, in ascending order"""
                leaves = []; idl = []
                for g in groups:
                    data = [ENC_SEQ(d) for i, d in subs if i in g] + [ENC_DEP(d) for i, d in deps if i in g]
                    inner = mth(data) if data else Hash.atom(z3.IntVal(-1))
                    leaves.append(CONCAT(ID_BYTES(ids[g[0]]), HASH_BYTES(inner))); idl.append(ID_BYTES(ids[g[0]]))
                e = Hash.atom(z3.IntVal(-1))
                return (mth(leaves) if leaves else e), (mth(idl) if idl else e)
            cases = []
            if len(used) <= 1:
                cases.append((z3.BoolVal(True), spec([used] if used else [])))
            else:
                a, b = used
                cases.append((ids[a] == ids[b], spec([[a, b]])))
                cases.append((z3.ULT(ids[a], ids[b]), spec([[a], [b]])))
                cases.append((z3.ULT(ids[b], ids[a]), spec([[b], [a]])))
            claim = z3.And(*[z3.Implies(c, z3.And(got_data == sd, got_ids == si_)) for c, (sd, si_) in cases])
            run.sample({'shape': si, 'path': pi, 'roots_logged': len([e for e in p.log if e[0] == 'root'])})
            run.prove(f'both commitments equal the specification {lab}', p.pc, claim)
    if not n_done:
        raise Inconclusive('vacuity')
    run.require_reached(*run.cur.reach)


# ----------------------------------------------------------------------------------------------------------------- C07-2
def filtered_obligation(fname):
    def ob(run):
        same = lambda ctx: [(None, ctx.ex.deref_val(ctx.st, ctx.args[0]))]
        hooks = [(re.compile(r'^<R as Into<.*RollupId>>::into$|^<.*RollupId as From<R>>::from$'), same),
                 (re.compile(r'^<.* as Clone>::clone$'), lambda ctx: [(None, ctx.ex.deref_val(ctx.st, ctx.args[0]))])]
        ex = loader.load(['astria-core'], scalar_types={'astria_core::primitive::v1::RollupId': 256, 'primitive::v1::RollupId': 256, 'RollupId': 256, 'sequencerblock::v1::block::Hash': 256, 'block::Hash': 256}, hooks=hooks, dep_adts=['tendermint'])
        cands = [n for n in ex.fns if n.endswith('::' + fname) and 'closure' not in n and (ex.impl_self(n) or (None, ''))[1] == 'SequencerBlock']
        if len(cands) != 1:
            raise Inconclusive(f'SequencerBlock::{fname} not found: {cands}')
        run.bound(block='0..2 rollups in the block (distinct ids)', request='0..2 requested rollup ids, arbitrary (equal to block ids, to each other, or unknown)')
        n = 0
        for k in (0, 1, 2):
            for q in (0, 1, 2):
                bids = [z3.BitVec(f'block_rollup{j}', 256) for j in range(k)]
                rts = []
                for j in range(k):
                    rt = Obj('astria_core::sequencerblock::v1::block::RollupTransactions', kind='opaque'); rt.attrs['tag'] = f'rt{j}'
                    rts.append(rt)
                fields = {}
                for nm in ('header', 'rollup_transactions_proof', 'rollup_ids_proof', 'upgrade_change_hashes', 'extended_commit_info_with_proof'):
                    o = Obj(nm, kind='opaque'); o.attrs['tag'] = nm; fields[nm] = o
                blk = B.struct(ex, 'SequencerBlock', block_hash=z3.BitVec('block_hash', 256), rollup_transactions=M.new_map('IndexMap<RollupId, RollupTransactions>', list(zip(bids, rts))), **fields)
                qids = [z3.BitVec(f'requested{j}', 256) for j in range(q)]
                arg0 = blk if fname == 'into_filtered_block' else B.cell(blk)
                st = ex.start(cands[0], [arg0, M.new_vec('Vec<RollupId>', qids)])
                st.pc += [bids[a] != bids[b] for a in range(k) for b in range(a + 1, k)]
                for i, p in enumerate(run.explore(ex, st, allow_havoc=(r'^Arguments::|fmt::',))):
                    lab = f'[{fname}: {k} rollups in block, {q} requested, path {i}]'
                    if p.kind != 'return':
                        run.prove(f'no panic {lab}', p.pc, z3.BoolVal(False), detail=p.info); continue
                    n += 1
                    res = ex.deref_val(p, p.result)
                    got = [(ex.deref_val(p, kk), ex.deref_val(p, v).attrs.get('tag')) for kk, v in B.fld(ex, p, res, 'rollup_transactions', 'IndexMap').attrs['items']]
                    allids = [ex.deref_val(p, x) for x in B.fld(ex, p, res, 'all_rollup_ids', 'Vec<RollupId>').attrs['items']]
                    run.sample({'fn': fname, 'block': k, 'requested': q, 'path': i, 'served': [t for _, t in got]})
                    claim = [z3.BoolVal(len(allids) == k), *[allids[j] == bids[j] for j in range(min(k, len(allids)))], B.fld(ex, p, res, 'block_hash', 'block::Hash') == z3.BitVec('block_hash', 256)]
                    for nm in fields:
                        v = ex.deref_val(p, B.fld(ex, p, res, nm, '?'))
                        claim.append(z3.BoolVal(isinstance(v, Obj) and v.attrs.get('tag') == nm))
                    # served entries: keyed by their own id, each block rollup served iff requested, nothing else
                    for kk, t in got:
                        j = int(t[2:]) if t and t.startswith('rt') else None
                        claim.append(kk == bids[j] if j is not None else z3.BoolVal(False))
                    tags = [t for _, t in got]
                    claim.append(z3.BoolVal(len(tags) == len(set(tags))))
                    for j in range(k):
                        requested = z3.Or(*[x == bids[j] for x in qids]) if qids else z3.BoolVal(False)
                        claim.append(z3.BoolVal(f'rt{j}' in tags) == requested)
                    run.prove(f'the filtered block serves exactly the requested rollups that have data (each under its own id, once), lists ALL rollup ids of the block, and carries header, hash and proofs unchanged {lab}', p.pc, z3.And(*claim))
        if not n:
            raise Inconclusive('vacuity')
        run.require_reached(*run.cur.reach)
    return ob


obligation('C07', 'C07-2a SequencerBlock::into_filtered_block serves exactly the requested rollups, all rollup ids, unchanged header and proofs')(filtered_obligation('into_filtered_block'))
obligation('C07', 'C07-2b SequencerBlock::to_filtered_block serves exactly the requested rollups, all rollup ids, unchanged header and proofs')(filtered_obligation('to_filtered_block'))


# ----------------------------------------------------------------------------------------------------------------- C07-3
@obligation('C07', 'C07-3 split for Celestia: one metadata item listing exactly the block\'s rollup ids and carrying header / hash / proofs, plus one rollup-data item per rollup with that rollup\'s id, transactions, proof and THIS block\'s hash')
def c07_3(run):
    same = lambda ctx: [(None, ctx.ex.deref_val(ctx.st, ctx.args[0]))]
    hooks = [(re.compile(r'^<.* as Clone>::clone$'), same)]
    ex = loader.load(['astria-core'], scalar_types={'astria_core::primitive::v1::RollupId': 256, 'primitive::v1::RollupId': 256, 'RollupId': 256, 'sequencerblock::v1::block::Hash': 256, 'block::Hash': 256}, hooks=hooks, dep_adts=['tendermint'])
    cands = [n for n in ex.fns if n.endswith('::from_sequencer_block') and 'closure' not in n and (ex.impl_self(n) or (None, ''))[1] == 'PreparedBlock']
    if len(cands) != 1:
        raise Inconclusive(f'PreparedBlock::from_sequencer_block not found: {cands}')
    run.bound(block='0..3 rollups (distinct ids), each with an opaque transaction list and proof')
    n = 0
    for k in (0, 1, 2, 3):
        bids = [z3.BitVec(f'block_rollup{j}', 256) for j in range(k)]
        rts = []
        for j in range(k):
            b0 = Obj('bytes::Bytes', kind='opaque'); b0.attrs['tag'] = f'tx{j}a'
            b1 = Obj('bytes::Bytes', kind='opaque'); b1.attrs['tag'] = f'tx{j}b'
            txs = M.new_vec('Vec<Bytes>', [b0, b1]); txs.attrs['tag'] = f'txs{j}'
            proof = Obj('merkle::audit::Proof', kind='opaque'); proof.attrs['tag'] = f'proof{j}'
            rts.append(B.struct(ex, 'RollupTransactions', rollup_id=bids[j], transactions=txs, proof=proof))
        fields = {}
        for nm in ('header', 'rollup_transactions_proof', 'rollup_ids_proof', 'upgrade_change_hashes', 'extended_commit_info_with_proof'):
            o = Obj(nm, kind='opaque'); o.attrs['tag'] = nm; fields[nm] = o
        blk = B.struct(ex, 'SequencerBlock', block_hash=z3.BitVec('block_hash', 256), rollup_transactions=M.new_map('IndexMap<RollupId, RollupTransactions>', list(zip(bids, rts))), **fields)
        st = ex.start(cands[0], [blk])
        st.pc += [bids[a] != bids[b] for a in range(k) for b in range(a + 1, k)]
        for i, p in enumerate(run.explore(ex, st, allow_havoc=(r'^Arguments::|fmt::',))):
            lab = f'[{k} rollups, path {i}]'
            if p.kind != 'return':
                run.prove(f'no panic {lab}', p.pc, z3.BoolVal(False), detail=p.info); continue
            n += 1
            res = ex.deref_val(p, p.result)
            head = ex.deref_val(p, B.fld(ex, p, res, 'head', 'SubmittedMetadata')); tail = [ex.deref_val(p, x) for x in B.fld(ex, p, res, 'tail', 'Vec<SubmittedRollupData>').attrs['items']]
            hids = [ex.deref_val(p, x) for x in B.fld(ex, p, head, 'rollup_ids', 'Vec<RollupId>').attrs['items']]
            claim = [z3.BoolVal(len(hids) == k and len(tail) == k), B.fld(ex, p, head, 'block_hash', 'block::Hash') == z3.BitVec('block_hash', 256)]
            for nm in fields:
                v = ex.deref_val(p, B.fld(ex, p, head, nm, '?'))
                claim.append(z3.BoolVal(isinstance(v, Obj) and v.attrs.get('tag') == nm))
            if len(hids) == k and len(tail) == k:
                for j in range(k):
                    t = tail[j]
                    txs = ex.deref_val(p, B.fld(ex, p, t, 'transactions', 'Vec<Bytes>')); pr = ex.deref_val(p, B.fld(ex, p, t, 'proof', 'Proof'))
                    claim += [hids[j] == bids[j], B.fld(ex, p, t, 'rollup_id', 'RollupId') == bids[j], B.fld(ex, p, t, 'sequencer_block_hash', 'block::Hash') == z3.BitVec('block_hash', 256),
                              z3.BoolVal(isinstance(pr, Obj) and pr.attrs.get('tag') == f'proof{j}'), z3.BoolVal(isinstance(txs, Obj) and [ex.deref_val(p, x).attrs.get('tag') for x in txs.attrs.get('items', [])] == [f'tx{j}a', f'tx{j}b'])]
            run.sample({'rollups': k, 'path': i, 'tail': len(tail)})
            run.prove(f'metadata lists exactly the block\'s rollup ids in block order and carries the block\'s hash, header and proofs; the j-th rollup item carries id, transactions and proof of the j-th rollup and the same block hash {lab}', p.pc, z3.And(*claim))
    if not n:
        raise Inconclusive('vacuity')
    run.require_reached(*run.cur.reach)


# ----------------------------------------------------------------------------------------------------------------- C07-4
@obligation('C07', 'C07-4 SequencerBlockBuilder::try_build: a block is built only if both commitments equal the ones recomputed from its data; every rollup gets exactly its submissions then its deposits and the proof for its own leaf position')
def c07_4(run):
    cfg = {'txs': []}

    def h_construct_proof(ctx):
        t = ctx.ex.deref_val(ctx.st, ctx.args[0])
        i = z3.simplify(ctx.ex.deref_val(ctx.st, ctx.args[1]))
        if not z3.is_bv_value(i):
            raise Inconclusive('symbolic proof index')
        if t.attrs.get('open') is not None:
            t.attrs['leaves'] = t.attrs['leaves'] + [leaf_of(t.attrs['open'])]; t.attrs['open'] = None
        if i.as_long() >= len(t.attrs['leaves']):
            return [(None, none())]
        pr = Obj('merkle::audit::Proof', kind='opaque'); pr.attrs['index'] = i.as_long(); pr.attrs['leaves'] = tuple(t.attrs['leaves'])
        return [(None, some(pr))]
    hooks = [h for h in commitment_hooks(cfg) + tree_hooks() if h[1] is not None] + [(re.compile(r'(^|::)Tree::construct_proof$'), h_construct_proof)]
    sc = {'astria_core::primitive::v1::RollupId': 256, 'primitive::v1::RollupId': 256, 'RollupId': 256, 'sequencerblock::v1::block::Hash': 256, 'block::Hash': 256, 'tendermint::block::Height': 64,
          'tendermint::Time': 128, 'tendermint::account::Id': 160}
    ex = loader.load(['astria-core'], scalar_types=sc, hooks=hooks, dep_adts=['tendermint'])
    cands = [n for n in ex.fns if n.endswith('::try_build') and 'closure' not in n and (ex.impl_self(n) or (None, ''))[1] == 'SequencerBlockBuilder']
    if len(cands) != 1:
        raise Inconclusive(f'SequencerBlockBuilder::try_build not found: {cands}')
    shapes = [([], {}), ([0], {}), ([0, 0], {}), ([0, 1], {}), ([1, 0], {}), ([0], {0: 1}), ([0], {1: 1}), ([], {0: 2}), ([0, 1], {1: 1})]
    run.bound(blocks=f'{len(shapes)} block shapes: 0..2 rollup data submissions over <= 2 symbolic rollup ids, 0..2 deposits for <= 2 ids', merkle='astria-merkle Tree API through its C08-S contract; proofs are (leaf list, index) pairs',
              commitments='the two roots carried in the block data are arbitrary hash values')
    n_ok = 0
    for si, (subs_shape, dep_shape) in enumerate(shapes):
        nids = 1 + max(subs_shape + list(dep_shape.keys()) + [-1])
        ids = [z3.BitVec(f'rollup_id{i}', 256) for i in range(max(nids, 1))]
        subs = []; rdb = []
        for ai, ridx in enumerate(subs_shape):
            d = Obj('bytes::Bytes', kind='opaque'); d.attrs['ident'] = z3.BitVec(f'data{ai}', 256)
            subs.append((ridx, d.attrs['ident'])); rdb.append((ids[ridx], d))
        deps = []; dep_entries = []
        for ridx, cnt in dep_shape.items():
            ds = []
            for j in range(cnt):
                d = Obj('astria_core::sequencerblock::v1::block::Deposit', kind='opaque'); d.attrs['ident'] = z3.BitVec(f'deposit_r{ridx}_{j}', 256)
                ds.append(d); deps.append((ridx, d.attrs['ident']))
            dep_entries.append((ids[ridx], M.new_vec('Vec<Deposit>', ds)))
        given_ids_root, given_data_root = z3.Const('given_ids_root', Hash), z3.Const('given_data_root', Hash)
        ebd = B.struct(ex, 'ExpandedBlockData', rollup_transactions_root=given_data_root, rollup_ids_root=given_ids_root)
        bld = B.struct(ex, 'SequencerBlockBuilder', block_hash=z3.BitVec('block_hash', 256), expanded_block_data=ebd, rollup_data_bytes=M.new_vec('Vec<(RollupId, Bytes)>', rdb),
                       deposits=M.new_map('HashMap<RollupId, Vec<Deposit>>', dep_entries))
        st = ex.start(cands[0], [bld])
        if len(dep_entries) > 1:
            st.pc.append(ids[0] != ids[1])
        for pi, p in enumerate(run.explore(ex, st, allow_havoc=(r'^Arguments::|fmt::',))):
            lab = f'[shape {si}: submissions {subs_shape} deposits {dep_shape}, path {pi}]'
            if p.kind != 'return':
                run.prove(f'no panic {lab}', p.pc, z3.BoolVal(False), detail=p.info); continue
            run.sample({'shape': si, 'path': pi, 'result': p.result.discr})
            if p.result.discr != 'Ok':
                continue
            n_ok += 1
            blk = ex.deref_val(p, p.result.fields[('Ok', 0)])
            rts = [(ex.deref_val(p, kk), ex.deref_val(p, v)) for kk, v in B.fld(ex, p, blk, 'rollup_transactions', 'IndexMap').attrs['items']]
            used = sorted({i for i, _ in subs} | {i for i, _ in deps})
            def spec(groups):
                leaves = []; idl = []; datas = []
                for g in groups:
                    data = [ENC_SEQ(d) for i, d in subs if i in g] + [ENC_DEP(d) for i, d in deps if i in g]
                    inner = mth(data) if data else Hash.atom(z3.IntVal(-1))
                    leaves.append(CONCAT(ID_BYTES(ids[g[0]]), HASH_BYTES(inner))); idl.append(ID_BYTES(ids[g[0]])); datas.append((ids[g[0]], data))
                e = Hash.atom(z3.IntVal(-1))
                return (mth(leaves) if leaves else e), (mth(idl) if idl else e), datas, leaves
            cases = []
            if len(used) <= 1:
                cases.append((z3.BoolVal(True), spec([used] if used else [])))
            else:
                a, b = used
                cases += [(ids[a] == ids[b], spec([[a, b]])), (z3.ULT(ids[a], ids[b]), spec([[a], [b]])), (z3.ULT(ids[b], ids[a]), spec([[b], [a]]))]
            parts = []
            for c, (sd, sid, datas, leaves) in cases:
                cl = [given_data_root == sd, given_ids_root == sid, z3.BoolVal(len(rts) == len(datas))]
                if len(rts) == len(datas):
                    for j, ((kk, rt), (wid, wdata)) in enumerate(zip(rts, datas)):
                        txs = [as_bytes(ex.deref_val(p, x)) for x in ex.deref_val(p, B.fld(ex, p, rt, 'transactions', 'Vec<Bytes>')).attrs['items']]
                        pr = ex.deref_val(p, B.fld(ex, p, rt, 'proof', 'Proof'))
                        cl += [kk == wid, B.fld(ex, p, rt, 'rollup_id', 'RollupId') == wid, z3.BoolVal(len(txs) == len(wdata)), *[x == y for x, y in zip(txs, wdata)],
                               z3.BoolVal(pr.attrs.get('index') == j and len(pr.attrs.get('leaves', ())) == len(leaves)), *[x == y for x, y in zip(pr.attrs.get('leaves', ()), leaves)]]
                parts.append(z3.Implies(c, z3.And(*cl)))
            hdr = ex.deref_val(p, B.fld(ex, p, blk, 'header', 'SequencerBlockHeader'))
            parts.append(B.fld(ex, p, hdr, 'rollup_transactions_root', '[u8; 32]') == given_data_root)
            parts.append(B.fld(ex, p, blk, 'block_hash', 'block::Hash') == z3.BitVec('block_hash', 256))
            run.prove(f'built => both given commitments equal the recomputed ones; rollups in ascending id order, each with exactly its submissions (block order) then deposits and the proof for its own position in that tree; header carries the data root {lab}',
                      p.pc, z3.And(*parts))
    if not n_ok:
        raise Inconclusive('vacuity: no block built')
    run.require_reached(*run.cur.reach)


# ----------------------------------------------------------------------------------------------------------------- C07-5
from mirsym.engine import ok, err


@obligation('C07', 'C07-5 post_execute_transactions: the block is built from exactly the executed transactions\' rollup data in execution order and the deposits cached during execution; the same deposits and block are persisted under this block hash; the cached finalize results list the executed transactions in order')
def c07_5(run):
    from vlib.seqworld import SCALARS
    R = re.compile
    sc = {k: v for k, v in SCALARS.items() if k != 'tendermint::Hash'}
    sc.update({'sequencerblock::v1::block::Hash': 256, 'block::Hash': 256, 'astria_core::sequencerblock::v1::block::Hash': 256})
    cfg = {}

    def fut(alts):
        return M.thunk_future(lambda ex, s2, f: alts)

    def failing(name, okval, is_async=False):
        def h(ctx):
            okv = z3.Bool(name + '_ok')
            ctx.st.log.append((name,) + tuple(ctx.args[1:]))
            alts = [(okv, (lambda s2: ok(okval(ctx, s2)))), (z3.Not(okv), (lambda s2: err(Obj('eyre::Report', kind='error'))))]
            return [(None, fut(alts))] if is_async else alts
        return h

    def h_end_block(ctx, s):
        return B.struct(ctx.ex, 'tendermint::abci::response::EndBlock', events=cfg['eb_events'](), validator_updates=cfg['eb_updates']())

    def tagged_vec(ty, tag, n=1):
        def mk():
            items = []
            for i in range(n):
                o = Obj(ty.split('<', 1)[1][:-1], kind='opaque'); o.attrs['ident'] = f'{tag}{i}'; items.append(o)
            return M.new_vec(ty, items)
        return mk
    cfg['eb_events'] = tagged_vec('Vec<Event>', 'end_block_event')
    cfg['eb_updates'] = tagged_vec('Vec<Update>', 'validator_update')

    def h_deposits(ctx):
        d = Obj('Deposit', kind='opaque'); d.attrs['ident'] = 'cached_deposit'
        return [(None, M.new_map('HashMap<RollupId, Vec<Deposit>>', [(z3.BitVec('deposit_rollup', 256), M.new_vec('Vec<Deposit>', [d]))]))]

    def h_rollup_bytes(ctx):
        tx = ctx.ex.deref_val(ctx.st, ctx.args[0])
        idx = tx.attrs.get('idx')
        pairs = []
        for j in range(cfg['data_per_tx'][idx]):
            b = Obj('bytes::Bytes', kind='opaque'); b.attrs['ident'] = f'data_{idx}_{j}'
            pairs.append((B.cell(z3.BitVec(f'rid_{idx}_{j}', 256)), B.cell(b)))
        it = Obj('Iter', kind='iter'); it.attrs['src'] = M.new_vec('Vec', pairs); it.attrs['pos'] = 0; it.attrs['mode'] = 'val'
        return [(None, it)]

    def h_id(ctx):
        tx = ctx.ex.deref_val(ctx.st, ctx.args[0])
        return [(None, B.cell(z3.BitVec(f'txid_{tx.attrs.get("idx")}', 256)))]

    def h_build(ctx):
        okv = z3.Bool('try_build_ok')
        ctx.st.log.append(('try_build', ctx.args[0]))

        def mk(s2):
            o = Obj('SequencerBlock', kind='opaque'); o.attrs['ident'] = 'built_block'
            return ok(o)
        return [(okv, mk), (z3.Not(okv), (lambda s2: err(Obj('SequencerBlockError', kind='error'))))]

    def h_upg_end(ctx):
        some_ = z3.Bool('consensus_params_updated'); okv = z3.Bool('upgrades_end_block_ok')
        ctx.st.log.append(('upgrades_end_block',))

        def mk(s2):
            o = Obj('tendermint::consensus::Params', kind='opaque'); o.attrs['ident'] = 'new_params'
            return ok(some(o))
        return [(None, fut([(z3.And(okv, some_), mk), (z3.And(okv, z3.Not(some_)), (lambda s2: ok(none()))), (z3.Not(okv), (lambda s2: err(Obj('eyre::Report', kind='error'))))]))]

    def h_repeat_n(ctx):
        n = z3.simplify(ctx.args[1])
        if not z3.is_bv_value(n):
            raise Inconclusive('repeat_n with symbolic count')
        it = Obj('Iter', kind='iter'); it.attrs['src'] = M.new_vec('Vec', [ctx.args[0]] * n.as_long()); it.attrs['pos'] = 0; it.attrs['mode'] = 'val'
        return [(None, it)]

    def log_only(name, ret=()):
        def h(ctx):
            ctx.st.log.append((name,) + tuple(ctx.args[1:]))
            return [(None, ret() if callable(ret) else ret)]
        return h
    ident = lambda ctx: [(None, ctx.ex.deref_val(ctx.st, ctx.args[0]))]
    hooks = [
        (R(r'(^|::)set_executed_block$'), failing('set_executed_block', lambda c, s: ())),
        (R(r'StateReadExt>::get_chain_id$'), lambda ctx: [(None, fut([(None, (lambda s2: ok(cfg['chain_id'](s2))))]))]),
        (R(r'StateReadExt>::get_sudo_address$'), lambda ctx: [(None, fut([(None, ok(z3.BitVec('sudo_address', 160)))]))]),
        (R(r'(^|::)App::end_block$'), failing('end_block', h_end_block, True)),
        (R(r'^(cnidarium::)?StateDelta::<.*>::new$'), lambda ctx: [(None, Obj('StateDelta', kind='opaque'))]),
        (R(r'get_cached_block_deposits$'), h_deposits),
        (R(r'StateWriteExt>::put_deposits$'), failing('put_deposits', lambda c, s: ())),
        (R(r'StateWriteExt>::put_sequencer_block$'), failing('put_sequencer_block', lambda c, s: ())),
        (R(r'ExpandedBlockData::injected_transaction_count$'), lambda ctx: [(None, z3.BitVecVal(cfg['injected'], 64))]),
        (R(r'^std::iter::repeat_n::<'), h_repeat_n),
        (R(r'CheckedTransaction::rollup_data_bytes$'), h_rollup_bytes),
        (R(r'CheckedTransaction::id$'), h_id),
        (R(r'SequencerBlockBuilder::try_build$'), h_build),
        (R(r'UpgradesHandler::end_block(::<.*>)?$'), h_upg_end),
        (R(r'object_put::<'), log_only('object_put')),
        (R(r'(^|::)App::apply$'), log_only('apply', lambda: M.new_vec('Vec<Event>', []))),
        (R(r'^<(tendermint::abci::types::)?ExecTxResult as (std::clone::)?Clone>::clone$|^<(bytes::)?Bytes as (std::clone::)?Clone>::clone$|^<SequencerBlock as (std::clone::)?Clone>::clone$|^<Arc<.*> as (std::clone::)?Clone>::clone$'), ident),
        (R(r'^<(tendermint::abci::types::)?ExecTxResult as (std::default::)?Default>::default$'), lambda ctx: [(None, _tag(Obj('tendermint::abci::types::ExecTxResult', kind='opaque'), 'default_result'))]),
        (R(r'Code::is_err$'), lambda ctx: [(None, z3.Bool('code_is_err'))]),
        (R(r'block::Hash::new$'), lambda ctx: [(None, ctx.args[0])]),
        (R(r'(^|::)Height::value$'), lambda ctx: [(None, ctx.ex.deref_val(ctx.st, ctx.args[0]))]),
        (R(r'(^|::)Metrics::\w+$'), lambda ctx: [(None, ())]),
        (R(r'display_consensus_params$|^(telemetry::display::)?json'), lambda ctx: [(None, Obj('s', kind='opaque'))]),
    ]
    ex = loader.load(['astria-sequencer', 'astria-core'], scalar_types=sc, dep_adts=['tendermint'], hooks=hooks)
    cands = [n for n in ex.fns if n.endswith('::post_execute_transactions') and 'closure' not in n and ex.impl_self(n) == (None, 'App')]
    if len(cands) != 1:
        raise Inconclusive(f'App::post_execute_transactions not found: {cands}')
    shapes = [([], 0), ([1], 0), ([2], 2), ([1, 1], 0), ([0, 2], 2), ([1, 0, 1], 0)]
    run.bound(blocks=f'{len(shapes)} block shapes: 0..3 executed transactions with 0..2 rollup data items each, 0 or 2 injected transactions, one cached deposit',
              steps='set_executed_block, end_block, put_deposits, SequencerBlockBuilder::try_build (C07-4), put_sequencer_block, UpgradesHandler::end_block are oracles that succeed or fail; their arguments are what is decided')
    n_ok = 0
    for si, (shape, injected) in enumerate(shapes):
        cfg['data_per_tx'] = shape; cfg['injected'] = injected
        cfg['chain_id'] = lambda s2: _tag(Obj('tendermint::chain::Id', kind='opaque'), 'chain_id')
        etxs = []
        for i in range(len(shape)):
            tx = Obj('CheckedTransaction'); tx.attrs['idx'] = i
            arc = Obj('Arc<CheckedTransaction>', kind='arc'); arc.fields[('in', 0)] = tx; arc.attrs['idx'] = i
            etxs.append(B.struct(ex, 'ExecutedTransaction', tx=arc, exec_result=_tag(Obj('tendermint::abci::types::ExecTxResult', kind='opaque'), f'result_{i}')))
        ebd = B.struct(ex, 'ExpandedBlockData', user_submitted_transactions=M.new_vec('Vec<Bytes>', [Obj('Bytes', kind='opaque') for _ in shape]))
        ebd.attrs['ident'] = 'expanded_block_data'
        bh = z3.BitVec('block_hash', 256)
        app = B.struct(ex, 'app::App', execution_state=Obj('ExecutionStateMachine', kind='opaque'), state=Obj('Arc<StateDelta<Snapshot>>', kind='arc'), metrics=B.cell(Obj('Metrics')))
        st = ex.start(cands[0], [B.cell(app), B.variant(ex, 'tendermint::Hash', 'Sha256', **{'0': bh}), z3.BitVec('height', 64), z3.BitVec('time', 128), z3.BitVec('proposer', 160), ebd,
                                 M.new_vec('Vec<ExecutedTransaction>', etxs)])
        for pi, p in enumerate(run.explore(ex, st, poll=True, allow_havoc=(r'^Arguments::|fmt::',))):
            lab = f'[shape {si}: data per tx {shape}, injected {injected}, path {pi}]'
            if p.kind != 'return':
                run.prove(f'no panic {lab}', p.pc, z3.BoolVal(False), detail=p.info); continue
            kind, r = A.poll_result(p)
            names = [e[0] for e in p.log]
            run.sample({'shape': si, 'path': pi, 'result': kind, 'effects': names})
            if 'set_executed_block' in names:
                run.prove(f'the executed-block fingerprint is recorded first, for this block hash {lab}', p.pc,
                          z3.And(z3.BoolVal(names[0] == 'set_executed_block'), ex.deref_val(p, p.log[0][1]) == bh))
            for later, earlier in (('end_block', 'set_executed_block'), ('try_build', 'end_block'), ('put_sequencer_block', 'try_build'), ('object_put', 'put_sequencer_block'), ('apply', 'object_put')):
                if later in names:
                    run.prove(f'{later} only after {earlier} succeeded {lab}', p.pc, z3.And(z3.BoolVal(earlier in names and names.index(earlier) < names.index(later)), z3.Bool(earlier + '_ok') if earlier not in ('object_put',) else z3.BoolVal(True)))
            if kind != 'Ok':
                run.prove(f'a failed post-execution never applies its state changes {lab}', p.pc, z3.BoolVal('apply' not in names))
                continue
            n_ok += 1
            dep_ident = lambda m: [(ex.deref_val(p, k), [ex.deref_val(p, d).attrs.get('ident') for d in ex.deref_val(p, v).attrs['items']]) for k, v in ex.deref_val(p, m).attrs['items']]
            claims = [z3.BoolVal(names.count(n) == 1) for n in ('set_executed_block', 'end_block', 'put_deposits', 'try_build', 'put_sequencer_block', 'upgrades_end_block', 'object_put', 'apply')]
            claims.append(z3.BoolVal(names[-1] == 'apply'))
            pd = [e for e in p.log if e[0] == 'put_deposits'][0]
            pdh = ex.deref_val(p, pd[1]); pdd = dep_ident(pd[2])
            claims += [pdh == bh, z3.BoolVal(len(pdd) == 1 and pdd[0][1] == ['cached_deposit']), pdd[0][0] == z3.BitVec('deposit_rollup', 256)]
            bld = ex.deref_val(p, [e for e in p.log if e[0] == 'try_build'][0][1])
            bdd = dep_ident(B.fld(ex, p, bld, 'deposits'))
            claims += [B.fld(ex, p, bld, 'block_hash', 'block::Hash') == bh, B.fld(ex, p, bld, 'height', 'tendermint::block::Height') == z3.BitVec('height', 64),
                       B.fld(ex, p, bld, 'time', 'tendermint::Time') == z3.BitVec('time', 128), B.fld(ex, p, bld, 'proposer_address', 'tendermint::account::Id') == z3.BitVec('proposer', 160),
                       z3.BoolVal(ex.deref_val(p, B.fld(ex, p, bld, 'chain_id')).attrs.get('ident') == 'chain_id'),
                       z3.BoolVal(ex.deref_val(p, B.fld(ex, p, bld, 'expanded_block_data')).attrs.get('ident') == 'expanded_block_data'),
                       z3.BoolVal(len(bdd) == 1 and bdd[0][1] == ['cached_deposit']), bdd[0][0] == z3.BitVec('deposit_rollup', 256)]
            rdb = ex.deref_val(p, B.fld(ex, p, bld, 'rollup_data_bytes')).attrs['items']
            want = [(i, j) for i, k in enumerate(shape) for j in range(k)]
            claims.append(z3.BoolVal(len(rdb) == len(want)))
            for (rid, data), (i, j) in zip(rdb, want):
                claims += [ex.deref_val(p, rid) == z3.BitVec(f'rid_{i}_{j}', 256), z3.BoolVal(ex.deref_val(p, data).attrs.get('ident') == f'data_{i}_{j}')]
            run.prove(f'Ok => deposits persisted under this block hash = cached deposits = deposits in the block; the block carries the rollup data of the executed transactions in execution order, and this height / time / proposer / chain id / block data {lab}', p.pc, z3.And(*claims))
            psb = ex.deref_val(p, [e for e in p.log if e[0] == 'put_sequencer_block'][0][1])
            ret = ex.deref_val(p, r.fields[('Ok', 0)])
            run.prove(f'Ok => the block that was built is the one persisted and returned {lab}', p.pc, z3.BoolVal(psb.attrs.get('ident') == 'built_block' and ret.attrs.get('ident') == 'built_block'))
            op = [e for e in p.log if e[0] == 'object_put'][0]
            res = ex.deref_val(p, op[2])
            txr = ex.deref_val(p, B.fld(ex, p, res, 'tx_results')).attrs['items']
            c2 = [z3.BoolVal(len(txr) == len(shape))]
            for i, item in enumerate(txr[:len(shape)]):
                tid, er = item if isinstance(item, tuple) else (None, None)
                c2 += [ex.deref_val(p, tid) == z3.BitVec(f'txid_{i}', 256), z3.BoolVal(ex.deref_val(p, er).attrs.get('ident') == f'result_{i}')]
            idents = lambda v: [ex.deref_val(p, x).attrs.get('ident') for x in ex.deref_val(p, v).attrs['items']]
            c2 += [z3.BoolVal(idents(B.fld(ex, p, res, 'events')) == ['end_block_event0']), z3.BoolVal(idents(B.fld(ex, p, res, 'validator_updates')) == ['validator_update0']),
                   B.fld(ex, p, res, 'injected_tx_count', 'usize') == z3.BitVecVal(injected, 64)]
            cpu = ex.deref_val(p, B.fld(ex, p, res, 'consensus_param_updates'))
            c2.append(z3.If(z3.Bool('consensus_params_updated'), z3.BoolVal(cpu.discr == 'Some' and ex.deref_val(p, cpu.fields.get(('Some', 0))).attrs.get('ident') == 'new_params' if cpu.discr == 'Some' else False), z3.BoolVal(cpu.discr == 'None')))
            run.prove(f'Ok => the cached finalize results list exactly the executed transactions (id, result) in execution order, end_block\'s events and validator updates, the injected count and the upgrade\'s consensus params {lab}', p.pc, z3.And(*c2))
    if not n_ok:
        raise Inconclusive('vacuity: no successful path')
    run.require_reached(*run.cur.reach)


def _tag(o, ident):
    o.attrs['ident'] = ident
    return o


# ----------------------------------------------------------------------------------------------------------------- C07-6 (receiver side, shared with C17-3)
from obligations import c17 as _c17
obligation('C07', 'C07-6a receiver: SequencerBlock::try_from_raw accepts only after the rollup-transactions root, every rollup\'s transactions and the rollup ids were shown to be included under the data hash (= C17-3a)')(_c17.must_verify('SequencerBlock'))
obligation('C07', 'C07-6b receiver: FilteredSequencerBlock::try_from_raw accepts only after the root proof, EVERY served rollup\'s transactions against that root and the rollup ids were checked (= C17-3b)')(_c17.must_verify('FilteredSequencerBlock'))
obligation('C07', 'C07-6c receiver: SubmittedMetadata::try_from_raw (Celestia) accepts only after both proofs verified under the data hash (= C17-3c)')(_c17.must_verify('SubmittedMetadata'))
from obligations import c09 as _c09
obligation('C07', 'C07-7 receiver (conductor): rollup data is attached only to the header with its block hash and only under a passing Merkle audit against that header\'s rollup-data root (= C09-4)')(_c09.c09_4)


# ----------------------------------------------------------------------------------------------------------------- C07-8
@obligation('C07', 'C07-8 CheckedTransaction::rollup_data_bytes yields exactly the (rollup id, data) of the transaction\'s RollupDataSubmission actions, in action order (the contract C07-1 / C07-5 / C06 rely on)')
def c07_8(run):
    ex, W = A.engine()
    f = ex.find(r'checked_transaction::<impl at [^>]*>::rollup_data_bytes$')
    shapes = ['', 'R', 'T', 'RR', 'TR', 'RT', 'RTR', 'TTR']
    run.bound(transactions=f'{len(shapes)} action lists of 0..3 actions mixing RollupDataSubmission with another action kind; rollup ids and data symbolic')
    n = 0
    for shape in shapes:
        acts = []; want = []
        for i, c in enumerate(shape):
            if c == 'R':
                rid = z3.BitVec(f'rollup_id_{i}', 256); data = Obj('bytes::Bytes', kind='opaque'); data.attrs['ident'] = f'data_{i}'
                sub = B.struct(ex, 'astria_core::protocol::transaction::v1::action::RollupDataSubmission', rollup_id=rid, data=data)
                acts.append(B.variant(ex, 'CheckedAction', 'RollupDataSubmission', **{'0': B.struct(ex, 'CheckedRollupDataSubmission', action=sub)}))
                want.append((rid, f'data_{i}'))
            else:
                acts.append(B.variant(ex, 'CheckedAction', 'Transfer', **{'0': Obj('CheckedTransfer')}))
        tx = B.struct(ex, 'CheckedTransaction', actions=M.new_vec('Vec<CheckedAction>', acts))
        for i, p in enumerate(run.explore(ex, ex.start(f, [B.cell(tx)]))):
            lab = f'[actions {shape or "-"}, path {i}]'
            if p.kind != 'return':
                run.prove(f'no panic {lab}', p.pc, z3.BoolVal(False), detail=p.info); continue
            it = ex.deref_val(p, p.result)
            if not isinstance(it, Obj) or it.kind != 'mapiter' or not it.attrs.get('filter'):
                raise Inconclusive(f'rollup_data_bytes no longer returns a filter_map iterator ({it!r}); the harness must be adapted')
            elems = M.drain_iter(ex, p, it.attrs['inner'])
            clo = ex.deref_val(p, it.attrs['f']); body = ex.closure_body(clo)
            got = []
            for e in elems:
                ps = run.explore(ex, ex.start(body, [B.cell(clo), e]))
                if len(ps) != 1 or ps[0].kind != 'return':
                    raise Inconclusive(f'closure of rollup_data_bytes did not return on a single path: {[(q.kind, q.info) for q in ps]}')
                r = ps[0].result
                if r.discr == 'Some':
                    a, b = r.fields[('Some', 0)]
                    got.append((ex.deref_val(ps[0], a), ex.deref_val(ps[0], b).attrs.get('ident')))
                elif r.discr != 'None':
                    raise Inconclusive('closure result with symbolic variant')
            n += 1
            run.sample({'shape': shape, 'yielded': len(got)})
            run.prove(f'yields exactly the submissions of the transaction, in action order {lab}', p.pc,
                      z3.And(z3.BoolVal(len(got) == len(want) and [g[1] for g in got] == [w[1] for w in want]), *[g[0] == w[0] for g, w in zip(got, want)]))
    if not n:
        raise Inconclusive('vacuity')
    run.require_reached(*run.cur.reach)


# ----------------------------------------------------------------------------------------------------------------- C07-9
@obligation('C07', 'C07-9 get_filtered_sequencer_block (gRPC): every served piece is read under the hash of the requested height; the served rollup data are exactly the requested rollups that have data in that block (nothing for other rollups); all_rollup_ids is the block\'s full id list, sorted')
def c07_9(run):
    R = re.compile
    cfg = {}
    bh = z3.BitVec('block_hash_of_height', 256)

    def by_hash(name, mk, kind='Result'):
        def h(ctx):
            st = ctx.st
            key = ctx.ex.deref_val(st, ctx.args[1])
            extra = tuple(ctx.ex.deref_val(st, a) for a in ctx.args[2:])
            st.log.append((name, key) + extra)
            okv = z3.Bool(f'{name}_ok_{sum(1 for e in st.log if e[0] == name)}')
            return [(None, M.thunk_future(lambda ex, s2, fut: [(okv, (lambda s3: ok(mk(ctx, s3, extra)))), (z3.Not(okv), (lambda s3: err()))]))]
        return h

    def tagged(ty, tag):
        def mk(ctx, s, extra):
            o = Obj(ty, kind='opaque'); o.attrs['ident'] = tag; return o
        return mk

    def mk_data(ctx, s, extra):
        o = Obj('RollupTransactions', kind='opaque'); o.attrs['ident'] = ('data_of', extra[0]); return o

    def h_height(ctx):
        okv = z3.Bool('height_read_ok')
        return [(None, M.thunk_future(lambda ex, s2, fut: [(okv, ok(z3.BitVec('current_height', 64))), (z3.Not(okv), (lambda s3: err()))]))]

    def h_hash_by_height(ctx):
        hgt = ctx.ex.deref_val(ctx.st, ctx.args[1])
        ctx.st.log.append(('hash_by_height', hgt))
        okv = z3.Bool('hash_read_ok')
        return [(None, M.thunk_future(lambda ex, s2, fut: [(okv, ok(bh)), (z3.Not(okv), (lambda s3: err()))]))]
    ident = lambda ctx: [(None, ctx.ex.deref_val(ctx.st, ctx.args[0]))]
    hooks = [
        (R(r'Storage::latest_snapshot$'), lambda ctx: [(None, Obj('Snapshot', kind='opaque'))]),
        (R(r'StateReadExt>::get_block_height$'), h_height), (R(r'StateReadExt>::get_block_hash_by_height$'), h_hash_by_height),
        (R(r'StateReadExt>::get_sequencer_block_header_by_hash$'), by_hash('header', tagged('SequencerBlockHeader', 'header'))),
        (R(r'StateReadExt>::get_rollup_transactions_proof_by_block_hash$'), by_hash('tx_proof', tagged('Proof', 'tx_proof'))),
        (R(r'StateReadExt>::get_rollup_ids_proof_by_block_hash$'), by_hash('ids_proof', tagged('Proof', 'ids_proof'))),
        (R(r'StateReadExt>::get_upgrade_change_hashes$'), by_hash('upgrade_hashes', lambda c, s, e: M.new_vec('Vec<ChangeHash>', []))),
        (R(r'StateReadExt>::get_extended_commit_info_with_proof$'), by_hash('eci', lambda c, s, e: none())),
        (R(r'StateReadExt>::get_rollup_ids_by_block_hash$'), by_hash('all_ids', lambda c, s, e: M.new_vec('Vec<RollupId>', list(cfg['block_ids'])))),
        (R(r'StateReadExt>::get_rollup_data$'), by_hash('rollup_data', mk_data)),
        (R(r'^(tonic::)?Request::<.*>::into_inner$'), lambda ctx: [(None, ctx.ex.deref_val(ctx.st, ctx.args[0]).attrs['inner'])]),
        (R(r'^(tonic::)?Response::<.*>::new$'), lambda ctx: [(None, ctx.args[0])]),
        (R(r'RollupId::try_from_raw_ref$'), lambda ctx: [(None, ok(ctx.ex.deref_val(ctx.st, ctx.args[0]).attrs['id']))]),
        (R(r'RollupId::into_raw$'), lambda ctx: [(None, ctx.args[0])]),
        (R(r'(RollupTransactions|SequencerBlockHeader|Proof|ExtendedCommitInfoWithProof)::into_raw$|merkle::.*::into_raw$'), ident),
        (R(r'Bytes::copy_from_slice$'), lambda ctx: [(None, ctx.ex.deref_val(ctx.st, ctx.args[0]))]),
        (R(r'block::Hash::as_bytes$|Hash::as_bytes$'), lambda ctx: [(None, ctx.ex.deref_val(ctx.st, ctx.args[0]))]),
        (R(r'^(tonic::)?Status::(internal|invalid_argument)'), lambda ctx: [(None, Obj('tonic::Status', kind='error'))]),
    ]
    sc = {'astria_core::primitive::v1::RollupId': 256, 'primitive::v1::RollupId': 256, 'RollupId': 256, 'sequencerblock::v1::block::Hash': 256, 'block::Hash': 256, 'astria_core::sequencerblock::v1::block::Hash': 256}
    ex = loader.load(['astria-sequencer', 'astria-core'], scalar_types=sc, hooks=hooks, dep_adts=['tendermint'])
    cands = [n for n in ex.fns if n.endswith('::get_filtered_sequencer_block') and 'closure' not in n]
    if len(cands) != 1:
        raise Inconclusive(f'get_filtered_sequencer_block not found: {cands}')
    run.bound(request='0..2 requested rollup ids (duplicates allowed), block with 0..2 rollup ids, all symbolic', storage='every state read is an oracle that may fail; what is decided is the key each read uses and how the pieces are put together')
    n_ok = 0
    for nreq in (0, 1, 2):
        for nblk in (0, 1, 2):
            req_ids = [z3.BitVec(f'requested_{i}', 256) for i in range(nreq)]
            blk_ids = [z3.BitVec(f'in_block_{i}', 256) for i in range(nblk)]
            cfg['block_ids'] = blk_ids
            raws = []
            for r_ in req_ids:
                o = Obj('astria_core::generated::astria::primitive::v1::RollupId', kind='opaque'); o.attrs['id'] = r_; raws.append(o)
            inner = B.struct(ex, 'astria_core::generated::astria::sequencerblock::v1::GetFilteredSequencerBlockRequest', height=z3.BitVec('requested_height', 64), rollup_ids=M.new_vec('Vec<RollupId>', raws))
            rq = Obj('tonic::Request', kind='opaque'); rq.attrs['inner'] = inner
            me = Obj('Arc<SequencerServer>', kind='arc'); me.fields[('in', 0)] = Obj('SequencerServer')
            st = ex.start(cands[0], [me, rq])
            if nblk == 2:
                st.pc.append(blk_ids[0] != blk_ids[1])
            for pi, p in enumerate(run.explore(ex, st, poll=True, allow_havoc=(r'^Arguments::|fmt::',))):
                lab = f'[{nreq} requested, {nblk} in block, path {pi}]'
                if p.kind != 'return':
                    run.prove(f'no panic {lab}', p.pc, z3.BoolVal(False), detail=p.info); continue
                kind, r = A.poll_result(p)
                reads = [e for e in p.log if e[0] not in ('hash_by_height',)]
                run.sample({'requested': nreq, 'in_block': nblk, 'path': pi, 'result': kind, 'reads': [e[0] for e in p.log]})
                hb = [e for e in p.log if e[0] == 'hash_by_height']
                claims = [z3.BoolVal(len(hb) <= 1)] + [e[1] == z3.BitVec('requested_height', 64) for e in hb] + [e[1] == bh for e in reads]
                run.prove(f'the block hash is looked up for the requested height and every piece is read under that hash {lab}', p.pc, z3.And(*claims))
                if kind != 'Ok':
                    continue
                n_ok += 1
                blk = ex.deref_val(p, r.fields[('Ok', 0)])
                served = [ex.deref_val(p, x).attrs.get('ident') for x in ex.deref_val(p, B.fld(ex, p, blk, 'rollup_transactions')).attrs['items']]
                all_ids = [ex.deref_val(p, x) for x in ex.deref_val(p, B.fld(ex, p, blk, 'all_rollup_ids')).attrs['items']]
                in_block = lambda x: z3.Or(*[x == b for b in blk_ids]) if blk_ids else z3.BoolVal(False)
                c2 = [z3.ULE(z3.BitVec('requested_height', 64), z3.BitVec('current_height', 64)), z3.BoolVal(all(isinstance(s, tuple) and s[0] == 'data_of' for s in served))]
                sids = [s[1] for s in served if isinstance(s, tuple)]
                c2 += [in_block(s) for s in sids] + [z3.Or(*[s == q for q in req_ids]) if req_ids else z3.BoolVal(False) for s in sids]
                for q in req_ids:
                    c2.append(z3.Implies(in_block(q), z3.Or(*[s == q for s in sids]) if sids else z3.BoolVal(False)))
                c2.append(z3.BoolVal(len(all_ids) == nblk))
                c2 += [z3.Or(*[a == b for b in blk_ids]) for a in all_ids] + [z3.ULE(all_ids[i], all_ids[i + 1]) for i in range(len(all_ids) - 1)]
                for piece, tag in (('header', 'header'), ('rollup_transactions_proof', 'tx_proof'), ('rollup_ids_proof', 'ids_proof')):
                    o = ex.deref_val(p, B.fld(ex, p, blk, piece))
                    c2.append(z3.BoolVal(isinstance(o, Obj) and o.discr == 'Some' and ex.deref_val(p, o.fields[('Some', 0)]).attrs.get('ident') == tag))
                c2.append(B.fld(ex, p, blk, 'block_hash') == bh if z3.is_bv(ex.deref_val(p, B.fld(ex, p, blk, 'block_hash'))) else z3.BoolVal(False))
                run.prove(f'served = exactly the requested rollups that have data in the block, each read for its own id; all_rollup_ids = the block\'s ids, ascending; header / proofs / hash are this block\'s {lab}', p.pc, z3.And(*c2))
    if not n_ok:
        raise Inconclusive('vacuity: no block served')
    run.require_reached(*run.cur.reach)


# ----------------------------------------------------------------------------------------------------------------- C07-10
@obligation('C07', 'C07-10 put_sequencer_block (storage of a finalized block): every piece of THIS block is written exactly once under THIS block\'s hash; the hash is filed under the header\'s height; the stored id list is exactly the ids that have rollup data')
def c07_10(run):
    R = re.compile
    bh = z3.BitVec('this_block_hash', 256)

    def put(name, failing=True):
        def h(ctx):
            st = ctx.st
            st.log.append((name,) + tuple(ctx.ex.deref_val(st, a) for a in ctx.args[1:]))
            okv = z3.Bool(f'{name}_ok')
            return [(okv, ok(())), (z3.Not(okv), (lambda s: err()))]
        return h
    cfg = {}

    def h_into_parts(ctx):
        return [(None, cfg['parts']())]
    names = ['put_block_hash', 'put_rollup_ids', 'put_block_header', 'put_rollups_transactions', 'put_rollups_transactions_proof', 'put_rollup_ids_proof', 'put_upgrade_change_hashes',
             'put_extended_commit_info', 'put_extended_commit_info_proof']
    hooks = [(R(rf'(^|::){n}(::<.*>)?$'), put(n)) for n in names] + [
        (R(r'SequencerBlock::into_parts$'), h_into_parts), (R(r'SequencerBlockHeader::height$'), lambda ctx: [(None, z3.BitVec('header_height', 64))]),
        (R(r'ExtendedCommitInfoWithProof::(encoded_extended_commit_info|proof)$'), lambda ctx: [(None, B.cell(_tag(Obj('piece', kind='opaque'), 'eci_' + ctx.callee.rsplit('::', 1)[1])))])]
    sc = {'astria_core::primitive::v1::RollupId': 256, 'primitive::v1::RollupId': 256, 'RollupId': 256, 'sequencerblock::v1::block::Hash': 256, 'block::Hash': 256,
          'astria_core::sequencerblock::v1::block::Hash': 256, 'tendermint::block::Height': 64}
    ex = loader.load(['astria-sequencer', 'astria-core'], scalar_types=sc, hooks=hooks, dep_adts=['tendermint'])
    cands = [n for n in ex.fns if n.endswith('::put_sequencer_block') and 'closure' not in n and 'grpc' in n]
    if len(cands) != 1:
        raise Inconclusive(f'grpc StateWriteExt::put_sequencer_block not found: {cands}')
    run.bound(blocks='0..2 rollups, with / without upgrade change hashes, with / without extended commit info; the nine put_* helpers (key construction + serialisation) are logging oracles that may fail')
    n_ok = 0
    for nr in (0, 1, 2):
        for has_up in (False, True):
            for has_eci in (False, True):
                ids = [z3.BitVec(f'rollup_{i}', 256) for i in range(nr)]

                def mk():
                    rts = M.new_map('IndexMap<RollupId, RollupTransactions>', [(ids[i], _tag(Obj('RollupTransactions', kind='opaque'), f'rollup_txs_{i}')) for i in range(nr)])
                    return B.struct(ex, 'SequencerBlockParts', block_hash=bh, header=_tag(Obj('SequencerBlockHeader', kind='opaque'), 'header'), rollup_transactions=rts,
                                    rollup_transactions_proof=_tag(Obj('Proof', kind='opaque'), 'tx_proof'), rollup_ids_proof=_tag(Obj('Proof', kind='opaque'), 'ids_proof'),
                                    upgrade_change_hashes=M.new_vec('Vec<ChangeHash>', [_tag(Obj('ChangeHash', kind='opaque'), 'uch')] if has_up else []),
                                    extended_commit_info_with_proof=some(_tag(Obj('ExtendedCommitInfoWithProof', kind='opaque'), 'eci')) if has_eci else none())
                cfg['parts'] = mk
                st = ex.start(cands[0], [B.cell(Obj('S', kind='cell')), Obj('SequencerBlock', kind='opaque')])
                if nr == 2:
                    st.pc.append(ids[0] != ids[1])
                for pi, p in enumerate(run.explore(ex, st, allow_havoc=(r'^Arguments::|fmt::',))):
                    lab = f'[{nr} rollups, upgrade hashes {has_up}, commit info {has_eci}, path {pi}]'
                    if p.kind != 'return':
                        run.prove(f'no panic {lab}', p.pc, z3.BoolVal(False), detail=p.info); continue
                    log = p.log; called = [e[0] for e in log]
                    run.prove(f'every write names THIS block\'s hash (the height index maps the header\'s height to it) {lab}', p.pc,
                              z3.And(*[(e[2] == bh if e[0] == 'put_block_hash' else e[1] == bh) for e in log], *[e[1] == z3.BitVec('header_height', 64) for e in log if e[0] == 'put_block_hash']))
                    run.prove(f'each piece is written at most once {lab}', p.pc, z3.BoolVal(len(called) == len(set(called))))
                    if p.result.discr != 'Ok':
                        run.prove(f'an error only when a write failed {lab}', p.pc, z3.Or(*[z3.Not(z3.Bool(f'{n_}_ok')) for n_ in called]) if called else z3.BoolVal(False)); continue
                    n_ok += 1
                    want = names[:6] + (['put_upgrade_change_hashes'] if has_up else []) + (['put_extended_commit_info', 'put_extended_commit_info_proof'] if has_eci else [])
                    tag = lambda v: (ex.deref_val(p, v).attrs.get('ident') if isinstance(ex.deref_val(p, v), Obj) else None)
                    byname = {e[0]: e for e in log}
                    c = [z3.BoolVal(sorted(called) == sorted(want))]
                    c.append(z3.BoolVal(tag(byname['put_block_header'][2]) == 'header' and tag(byname['put_rollups_transactions_proof'][2]) == 'tx_proof' and tag(byname['put_rollup_ids_proof'][2]) == 'ids_proof'))
                    idl = M.drain_iter(ex, p, ex.deref_val(p, byname['put_rollup_ids'][2])) if isinstance(ex.deref_val(p, byname['put_rollup_ids'][2]), Obj) and ex.deref_val(p, byname['put_rollup_ids'][2]).kind in ('iter', 'mapiter') else None
                    if idl is None:
                        raise Inconclusive('put_rollup_ids no longer receives an iterator the harness understands')
                    idl = [ex.deref_val(p, x) for x in idl]
                    c.append(z3.BoolVal(len(idl) == nr)); c += [a == b for a, b in zip(idl, ids)]
                    rtl = M.drain_iter(ex, p, ex.deref_val(p, byname['put_rollups_transactions'][2]))
                    c.append(z3.BoolVal(len(rtl) == nr))
                    for i, item in enumerate(rtl[:nr]):
                        k_, v_ = item if isinstance(item, tuple) else (None, None)
                        c += [ex.deref_val(p, k_) == ids[i], z3.BoolVal(tag(v_) == f'rollup_txs_{i}')]
                    run.prove(f'Ok => exactly the expected pieces were written: header, both proofs, the id list = the ids with data (in order), each rollup\'s data under its own id; optional pieces iff present {lab}', p.pc, z3.And(*c))
    if not n_ok:
        raise Inconclusive('vacuity')
    run.require_reached(*run.cur.reach)
