// Kani harnesses for astria-core's private `median` (appended in-crate to src/oracles/price_feed/utils.rs of a scratch copy).
// Inputs: every i128 price vector of the stated length.  Claim (C15): the published price lies between the smallest and the largest reported price, and median never panics.
use super::*;

fn in_range(prices: &[i128]) {
    let lo = *prices.iter().min().unwrap();
    let hi = *prices.iter().max().unwrap();
    let m = median(prices.iter().map(|p| Price::new(*p)).collect()).expect("non-empty list has a median").get();
    assert!(lo <= m, "median below the smallest reported price");
    assert!(m <= hi, "median above the largest reported price");
}

#[kani::proof]
#[kani::unwind(4)]
fn median_in_range_len1() {
    let a: i128 = kani::any();
    in_range(&[a]);
}

#[kani::proof]
#[kani::unwind(6)]
fn median_in_range_len2() {
    let a: i128 = kani::any();
    let b: i128 = kani::any();
    in_range(&[a, b]);
    kani::cover!(a < 0 && b < 0 && a % 2 != 0 && b % 2 != 0, "two negative odd prices reached");
}

#[kani::proof]
#[kani::unwind(8)]
fn median_in_range_len3() {
    let a: i128 = kani::any();
    let b: i128 = kani::any();
    let c: i128 = kani::any();
    in_range(&[a, b, c]);
}

#[kani::proof]
#[kani::unwind(10)]
fn median_in_range_len4() {
    let a: i128 = kani::any();
    let b: i128 = kani::any();
    let c: i128 = kani::any();
    let d: i128 = kani::any();
    in_range(&[a, b, c, d]);
    kani::cover!(b < 0 && c < 0, "negative middle elements reached");
}

#[kani::proof]
#[kani::unwind(4)]
fn median_of_empty_is_none() {
    assert!(median(Vec::new()).is_none());
}
