// Kani harnesses for astria-merkle's index arithmetic (appended in-crate to src/lib.rs of a scratch copy as `mod verif_kani_lib`).
// Bounds: full usize x usize domain; unwind 66 (a bit-walk visits at most 64 levels); unwinding assertions on (Kani default).
use super::*;

/// C08/C17: the root of a complete tree of any size lies inside the tree, for EVERY n >= 1 (no panic, no overflow).
#[kani::proof]
#[kani::unwind(66)]
fn complete_root_is_inside_tree() {
    let n: usize = kani::any();
    kani::assume(n >= 1);
    let r = complete_root(n);
    assert!(r < n);
    kani::cover!(n > (1usize << 63), "huge tree sizes reached");
    kani::cover!(n == 1 && r == 0, "single leaf reached");
}

/// C08: from every node that is not the root the parent walk terminates inside the tree, for EVERY n >= 1.
#[kani::proof]
#[kani::unwind(66)]
fn complete_parent_total_below_root() {
    let n: usize = kani::any();
    let i: usize = kani::any();
    kani::assume(n >= 1 && i < n);
    let root = complete_root(n);
    kani::assume(i != root);
    let p = complete_parent(i, n);
    assert!(p < n);
    assert!(is_branch(p));
    assert!(p != i);
    kani::cover!(p == root, "walk can reach the root");
    kani::cover!(n > 1000 && p < i, "right children reached");
}

/// C08: children of every branch of a tree with an odd number of nodes (2*leaves-1) are consistent with the parent function.
#[kani::proof]
#[kani::unwind(66)]
fn children_and_parent_agree() {
    let n: usize = kani::any();
    let p: usize = kani::any();
    kani::assume(n >= 3 && n % 2 == 1 && n < (1usize << 62));
    kani::assume(p < n && is_branch(p));
    let l = complete_left_child(p);
    let r = complete_right_child(p, n);
    assert!(l < p);
    assert!(p < r);
    assert!(r < n);
    assert!(complete_parent(l, n) == p);
    assert!(complete_parent(r, n) == p);
    let (pp, s) = complete_parent_and_sibling(l, n);
    assert!(pp == p && s == r);
    let (pp, s) = complete_parent_and_sibling(r, n);
    assert!(pp == p && s == l);
    kani::cover!(r != perfect_right_child(p), "re-attached right subtree reached");
}

/// C17: the leaf-index range check is total (decoders call it on untrusted indices).
#[kani::proof]
fn leaf_index_check_is_total() {
    let i: usize = kani::any();
    let n: usize = kani::any();
    let inside = is_leaf_index_in_tree(i, n);
    if inside {
        assert!(i <= usize::MAX / 2 && 2 * i < n);
    } else {
        assert!(i > usize::MAX / 2 || 2 * i >= n);
    }
    kani::cover!(i > usize::MAX / 2, "huge leaf index reached");
}
