"""Library models for mirsym (exact models of std / eyre / tracing / futures plumbing and shaped containers)."""
import re
import z3
from .mir import MirError, INT_TY, SIGNED, split_top, strip_generics
from .engine import (Obj, Ref, Cont, Diverge, PUSHED, enum, some, none, ok, err, ready, type_head, nid, Inconclusive, strip_generics_tail)


def generic_args(ty):
    ty = ty.strip()
    i = ty.find('<')
    if i < 0 or not ty.endswith('>'):
        return []
    return split_top(ty[i + 1:-1])


def variant_payload_type(ty, variant):
    g = generic_args(re.sub(r"^&('\w+ )?(mut )?", '', ty.strip()))
    if variant in ('Some', 'Ready', 'Ok', 'Continue') and g:
        return g[-1] if variant == 'Continue' and len(g) > 1 else g[0]
    if variant in ('Err', 'Break'):
        return g[1] if len(g) > 1 and variant == 'Err' else (g[0] if g else '?')
    return '?'


def payload(ex, st, o, variant, idx=0):
    return ex.read(st, ('field', o, (variant, idx, variant_payload_type(o.ty, variant))))


def on_variant(ex, st, o, table):
    """table: {variant name: fn(s2, o2) -> value | PUSHED | Diverge | alts}; o2 is `o` in the (possibly cloned) state s2 with its variant
    made concrete.  Returns alts conditioned on the discriminant."""
    if not isinstance(o, Obj):
        raise MirError(f'variant dispatch on {o!r}')
    if isinstance(o.discr, str):
        if o.discr not in table:
            raise MirError(f'variant {o.discr} not in {list(table)}')
        return [(None, (lambda s2, f=table[o.discr]: f(s2, s2.tr(o))))]
    d = z3.simplify(ex.discr_value(st, o))
    ety = o.ty if ex.adts.lookup(o.ty) else _guess_enum(table)
    alts = []
    for name, f in table.items():
        i = ex.adts.variant_index(ety, name)
        if i is None:
            raise MirError(f'no index for variant {name} of {o.ty}')

        def g(s2, name=name, f=f):
            o2 = s2.tr(o); o2.discr = name
            return f(s2, o2)
        if z3.is_bv_value(d):
            if d.as_long() == i:
                return [(None, g)]
            continue
        alts.append((d == z3.BitVecVal(i, 64), g))
    if not alts:
        raise MirError(f'discriminant {d} outside {list(table)}')
    return alts


def _guess_enum(table):
    ks = set(table)
    for n, vs in (('Option', {'Some', 'None'}), ('Result', {'Ok', 'Err'}), ('Poll', {'Ready', 'Pending'}), ('ControlFlow', {'Continue', 'Break'})):
        if ks <= vs:
            return n
    return '?'


# --------------------------------------------------------------------------------------------------------------------
# dispatch table
MODELS = []


def model(rx):
    def deco(f):
        MODELS.append((re.compile(rx), f)); return f
    return deco


def dispatch(ctx):
    raw = ctx.callee
    for c in (raw, strip_generics_tail(raw)):
        ctx.callee = c
        for rx, f in MODELS:
            if rx.search(c):
                r = f(ctx)
                if r is not None:
                    ctx.ex.stats['models'][f.__name__] = ctx.ex.stats['models'].get(f.__name__, 0) + 1
                    ctx.callee = raw
                    return r
        if c == strip_generics_tail(raw) and c == raw:
            break
    ctx.callee = raw
    return None


def const_model(ex, st, c):
    m = re.match(r'^tracing::Level::(\w+)$', c) or re.match(r'^Level::(\w+)$', c)
    if m and m.group(1) in ('TRACE', 'DEBUG', 'INFO', 'WARN', 'ERROR'):
        o = Obj('tracing::Level'); inner = Obj('tracing_core::metadata::LevelInner')
        inner.discr = ['TRACE', 'DEBUG', 'INFO', 'WARN', 'ERROR'].index(m.group(1)); o.fields[(None, 0)] = inner
        return o
    m = re.match(r'^core::num::<impl (\w+)>::(MAX|MIN|BITS)$', c)
    if m and m.group(1) in INT_TY:
        b = INT_TY[m.group(1)]; sg = m.group(1) in SIGNED
        if m.group(2) == 'BITS':
            return z3.BitVecVal(b, 32)
        if m.group(2) == 'MAX':
            return z3.BitVecVal((1 << (b - 1)) - 1 if sg else (1 << b) - 1, b)
        return z3.BitVecVal(-(1 << (b - 1)) if sg else 0, b)
    m = re.match(r'^(\w+)::MAX$', c)
    if m and m.group(1) in INT_TY:
        b = INT_TY[m.group(1)]
        return z3.BitVecVal((1 << (b - 1)) - 1 if m.group(1) in SIGNED else (1 << b) - 1, b)
    m = re.match(r'^(\w+)::MIN$', c)
    if m and m.group(1) in INT_TY:
        b = INT_TY[m.group(1)]
        return z3.BitVecVal(-(1 << (b - 1)) if m.group(1) in SIGNED else 0, b)
    m = re.match(r'^"(.*)"$', c, re.S)
    if m:
        o = Obj('&str', kind='str'); o.attrs['str'] = m.group(1)
        return o
    return None


# ---------------------------------------------------------------- futures plumbing
def unwrap_future(ex, st, v):
    n = 0
    while True:
        n += 1
        if n > 30:
            raise MirError('future unwrap loop')
        if isinstance(v, Ref):
            v = ex.read(st, v.loc); continue
        if isinstance(v, Obj) and v.kind in ('coroutine', 'readyfut', 'thunk', 'joinall'):
            return v
        if isinstance(v, Obj) and v.kind in ('pin', 'box', 'instrumented'):
            v = v.fields[('in', 0)]; continue
        if isinstance(v, Obj) and (None, 0) in v.fields and len(v.fields) == 1:
            v = v.fields[(None, 0)]; continue
        raise MirError(f'not a future: {v!r}')


@model(r'IntoFuture>::into_future$|as Instrument>::instrument$|as tracing::Instrument>::instrument$|::in_current_span$|as WithSubscriber>')
def m_identity_future(ctx):
    return [(None, ctx.args[0])]


@model(r'^Pin::<.*>::new_unchecked$|^Pin::<.*>::new$|^std::pin::Pin::<.*>::new')
def m_pin_new(ctx):
    o = Obj('Pin', kind='pin'); o.fields[('in', 0)] = ctx.args[0]; o.fields[(None, 0)] = ctx.args[0]
    return [(None, o)]


@model(r'^Pin(?:::<.*>)?::set$')
def m_pin_set(ctx):
    v = ctx.ex.deref_val(ctx.st, ctx.args[0]) if isinstance(ctx.args[0], Ref) else ctx.args[0]
    if not isinstance(v, Obj) or v.kind != 'pin' or not isinstance(v.fields[('in', 0)], Ref):
        raise MirError(f'Pin::set on {v!r}')
    ctx.ex.write(ctx.st, v.fields[('in', 0)].loc, ctx.args[1])
    return [(None, ())]


@model(r'^Pin(?:::<.*>)?::(as_mut|get_mut|get_unchecked_mut|into_inner|get_ref|as_ref|into_ref)$|^Pin::<.*>::map_unchecked_mut')
def m_pin_as_mut(ctx):
    v = ctx.args[0]
    v2 = ctx.ex.deref_val(ctx.st, v) if isinstance(v, Ref) else v
    if ctx.callee.endswith(('as_mut', 'as_ref')):
        return [(None, v2 if isinstance(v2, Obj) and v2.kind == 'pin' else v)]
    if isinstance(v2, Obj) and v2.kind == 'pin':
        return [(None, v2.fields[('in', 0)])]
    return [(None, v)]


def make_box(v):
    """Box value: `in` is the modelled content; field .0.0 is the raw pointer chain (Unique -> NonNull) the MIR uses when it moves out of a box
    (`copy ((b.0: Unique<T>).0: NonNull<T>) as *const T (Transmute)` followed by `*ptr`).  Both views share the same object for non-scalar contents."""
    o = Obj('Box', kind='box'); o.fields[('in', 0)] = v
    holder = Obj('box-holder', kind='cell'); holder.fields[('*', 0)] = v
    un = Obj('std::ptr::Unique'); un.fields[(None, 0)] = Ref(('field', holder, ('*', 0, '?')))
    o.fields[(None, 0)] = un
    return o


@model(r'^Box(?:::<.*>)?::(pin|new)$|^std::boxed::Box(?:::<.*>)?::(pin|new)$')
def m_box_new(ctx):
    return [(None, make_box(ctx.args[0]))]


@model(r'^Arc::<.*>::new$|^std::sync::Arc::<.*>::new$|^Rc::<.*>::new$')
def m_arc_new(ctx):
    o = Obj('Arc', kind='arc'); o.fields[('in', 0)] = ctx.args[0]
    return [(None, o)]


@model(r'Future>::poll$')
def m_poll(ctx):
    ex, st = ctx.ex, ctx.st
    fut = unwrap_future(ex, st, ctx.args[0])
    if fut.kind == 'readyfut':
        return [(None, ready(fut.fields[('val', 0)]))]
    if fut.kind == 'joinall':
        it = fut.attrs['it']
        if not (isinstance(it, Obj) and it.kind == 'mapiter' and not it.attrs.get('filter') and not it.attrs.get('flat') and it.attrs['inner'].kind in ('iter', 'range')):
            raise MirError(f'try_join_all over an unmodelled iterator {it!r}')
        c = Cont('joinall', phase='make', pending=drain_iter(ex, st, it.attrs['inner']), futs=[], results=[], f=it.attrs['f'], dest=ctx.dest, nxt=ctx.nxt, ret_ty=ctx.ret_ty)
        return _joinall_step(ex, st, c, ctx.work)
    if fut.kind == 'thunk':
        alts = fut.attrs['thunk'](ex, st, fut)
        def wrap(s2, v):
            v = v(s2) if callable(v) else v
            return v if isinstance(v, Obj) and v.ty == 'Poll' and v.discr == 'Pending' else ready(v)      # a thunk may answer Poll::Pending explicitly
        return [(a[0], (lambda s2, v=a[1]: wrap(s2, v)), a[2] if len(a) > 2 else None) for a in alts]
    body = ex.coroutine_body(fut)
    holder = Obj('fut-holder', kind='cell'); holder.fields[('*', 0)] = fut
    pin = Obj('Pin', kind='pin'); pin.fields[('in', 0)] = Ref(('field', holder, ('*', 0, '?'))); pin.fields[(None, 0)] = pin.fields[('in', 0)]
    ex.push(st, body, [pin, Obj('Context')], ctx.dest, ctx.nxt)
    return PUSHED


@model(r'^(futures::future::|futures_util::future::|futures::)?try_join_all::<')
def m_try_join_all(ctx):
    o = Obj('TryJoinAll', kind='joinall'); o.attrs['it'] = ctx.ex.deref_val(ctx.st, ctx.args[0])
    return [(None, o)]


def _joinall_step(ex, st, c, work):
    """try_join_all over `iter.map(|x| async move { .. })`: the futures are created in order and driven to completion one after the other (every awaited
    sub-future completes in this engine, so the interleaving of the real combinator is immaterial); the first Err is the result"""
    d = c.data
    if d['phase'] == 'make':
        if d['pending']:
            x = d['pending'].pop(0)
            ex.call_closure(st, d['f'], [x], d['dest'], d['nxt'], c)
            return PUSHED
        d['phase'] = 'poll'
    if d['futs']:
        fut = unwrap_future(ex, st, d['futs'].pop(0))
        if fut.kind == 'readyfut':
            return _joinall_result(ex, st, c, work, ready(fut.fields[('val', 0)]))
        if fut.kind != 'coroutine':
            raise MirError(f'try_join_all element is not an async block: {fut!r}')
        body = ex.coroutine_body(fut)
        holder = Obj('fut-holder', kind='cell'); holder.fields[('*', 0)] = fut
        pin = Obj('Pin', kind='pin'); pin.fields[('in', 0)] = Ref(('field', holder, ('*', 0, '?'))); pin.fields[(None, 0)] = pin.fields[('in', 0)]
        ex.push(st, body, [pin, Obj('Context')], d['dest'], d['nxt'], c)
        return PUSHED
    return [(None, ready(ok(new_vec('Vec', d['results']))))]


def _joinall_result(ex, st, c, work, rv):
    d = c.data
    if not (isinstance(rv, Obj) and rv.discr == 'Ready'):
        raise MirError('try_join_all element did not complete')
    res = ex.deref_val(st, rv.fields[('Ready', 0)])
    if not (isinstance(res, Obj) and res.discr in ('Ok', 'Err')):
        raise MirError('try_join_all element with a symbolic Result variant')
    if res.discr == 'Err':
        return [(None, ready(res))]
    d['results'].append(res.fields[('Ok', 0)])
    return _joinall_step(ex, st, c, work)


def _resume_joinall(ex, st, cont, rv, work):
    if cont.data['phase'] == 'make':
        cont.data['futs'].append(rv)
        return 'model', _joinall_step(ex, st, cont, work)
    return 'model', _joinall_result(ex, st, cont, work, rv)


def ready_future(v):
    o = Obj('Ready', kind='readyfut'); o.fields[('val', 0)] = v
    return o


def thunk_future(f, **attrs):
    """future whose result is computed at poll time by f(ex, st, fut) -> alts [(cond, value, effect)]"""
    o = Obj('Thunk', kind='thunk'); o.attrs['thunk'] = f; o.attrs.update(attrs)
    return o


@model(r'^std::future::ready::<|^futures::future::ready::<|^core::future::ready::<')
def m_future_ready(ctx):
    return [(None, ready_future(ctx.args[0]))]


# ---------------------------------------------------------------- tracing (disabled) / metrics / logging
@model(r'tracing|LevelFilter|DefaultCallsite|FieldSet|callsite::|<Level as|log::|ValueSet|Span::|Entered|span::|metrics::|Metrics::|telemetry::')
def m_tracing(ctx):
    c = ctx.callee
    if re.search(r'as Instrument>::instrument$', c):
        return [(None, ctx.args[0])]
    if c.endswith('>::le') or c.endswith('>::lt') or 'has_been_set' in c or '__is_enabled' in c or c.endswith('::is_enabled') or '::enabled' in c:
        return [(None, z3.BoolVal(False))]
    if 'is_never' in c or 'is_disabled' in c or c.endswith('::is_none'):
        return [(None, z3.BoolVal(True))]
    if ctx.ret_ty.strip() == 'bool':
        return [(None, z3.BoolVal(False))]
    if ctx.ret_ty.strip() in ('()', '!'):
        return [(None, ())]
    o = Obj(ctx.ret_ty, kind='const'); o.attrs['const'] = 'tracing'
    return [(None, o)]


# ---------------------------------------------------------------- panics
@model(r'^core::panicking::|^std::rt::begin_panic|unwrap_failed|expect_failed|^core::option::expect_failed|panic_fmt|panic_display|^core::slice::index::slice_\w+_fail|panic_bounds_check|^core::panicking::panic')
def m_panic(ctx):
    return Diverge('panic', ctx.callee[:80])


@model(r'^std::process::abort|^std::process::exit')
def m_abort(ctx):
    return Diverge('panic', ctx.callee[:80])


@model(r'^(std::num::|core::num::)?NonZero::<(\w+)>::(new|get|new_unchecked)$')
def m_nonzero(ctx):
    op = ctx.callee.rsplit('::', 1)[1]
    x = ctx.args[0]
    if op in ('get', 'new_unchecked'):
        return [(None, x)]
    return [(x == 0, none()), (x != 0, (lambda s2: some(x)))]


# ---------------------------------------------------------------- integers
def _nowrap_add(a, b, signed):
    return z3.And(z3.BVAddNoOverflow(a, b, signed), z3.BVAddNoUnderflow(a, b)) if signed else z3.BVAddNoOverflow(a, b, False)


def _maxv(n, signed): return z3.BitVecVal((1 << (n - 1)) - 1 if signed else (1 << n) - 1, n)
def _minv(n, signed): return z3.BitVecVal(-(1 << (n - 1)) if signed else 0, n)


def wide_mul(a, b, signed=False):
    """full-width product (2n bits) so that implementation and oracle share one multiplier"""
    n = a.size()
    ext = z3.SignExt if signed else z3.ZeroExt
    return ext(n, a) * ext(n, b)


@model(r'^core::num::<impl (\w+)>::(\w+)$')
def m_num(ctx):
    m = re.match(r'^core::num::<impl (\w+)>::(\w+)$', ctx.callee)
    ty, op = m.group(1), m.group(2)
    if ty not in INT_TY:
        return None
    signed = ty in SIGNED; n = INT_TY[ty]
    a = ctx.args[0]; b = ctx.args[1] if len(ctx.args) > 1 else None
    if b is not None and z3.is_bv(b) and b.size() != n and op not in ('pow', 'checked_pow', 'saturating_pow', 'wrapping_shl', 'wrapping_shr', 'checked_shl', 'checked_shr', 'rotate_left', 'rotate_right'):
        raise MirError(f'num width {op}')
    ult = (lambda x, y: x < y) if signed else z3.ULT
    if op in ('checked_add', 'checked_sub', 'checked_mul'):
        if op == 'checked_add':
            good, v = _nowrap_add(a, b, signed), a + b
        elif op == 'checked_sub':
            good = z3.And(z3.BVSubNoOverflow(a, b), z3.BVSubNoUnderflow(a, b, True)) if signed else z3.UGE(a, b)
            v = a - b
        else:
            w = wide_mul(a, b, signed)
            good = (z3.SignExt(n, z3.Extract(n - 1, 0, w)) == w) if signed else (z3.Extract(2 * n - 1, n, w) == 0)
            v = z3.Extract(n - 1, 0, w)
        return [(z3.Not(good), none()), (good, (lambda s2, v=v: some(v)))]
    if op in ('checked_div', 'checked_rem', 'checked_div_euclid', 'checked_rem_euclid'):
        if signed:
            raise MirError('signed checked_div')
        v = z3.UDiv(a, b) if 'div' in op else z3.URem(a, b)
        return [(b == 0, none()), (b != 0, (lambda s2, v=v: some(v)))]
    if op == 'saturating_add':
        if signed:
            raise MirError('signed saturating_add')
        return [(None, z3.If(z3.BVAddNoOverflow(a, b, False), a + b, _maxv(n, False)))]
    if op == 'saturating_sub':
        if signed:
            raise MirError('signed saturating_sub')
        return [(None, z3.If(z3.ULT(a, b), z3.BitVecVal(0, n), a - b))]
    if op == 'saturating_mul':
        if signed:
            raise MirError('signed saturating_mul')
        w = wide_mul(a, b)
        return [(None, z3.If(z3.Extract(2 * n - 1, n, w) == 0, z3.Extract(n - 1, 0, w), _maxv(n, False)))]
    if op == 'saturating_div':
        if signed:
            raise MirError('signed saturating_div')
        return [(b == 0, Diverge('panic', 'division by zero')), (b != 0, z3.UDiv(a, b))] if not z3.is_bv_value(z3.simplify(b)) else [(None, z3.UDiv(a, b))]
    if op == 'wrapping_add': return [(None, a + b)]
    if op == 'wrapping_sub': return [(None, a - b)]
    if op == 'wrapping_mul': return [(None, a * b)]
    if op == 'overflowing_add': return [(None, (a + b, z3.Not(_nowrap_add(a, b, signed))))]
    if op == 'overflowing_sub' and not signed: return [(None, (a - b, z3.ULT(a, b)))]
    if op in ('min', 'max'):
        lt = ult(a, b)
        return [(None, z3.If(lt, a, b) if op == 'min' else z3.If(lt, b, a))]
    if op == 'abs_diff' and not signed:
        return [(None, z3.If(z3.ULT(a, b), b - a, a - b))]
    if op == 'is_power_of_two':
        return [(None, z3.And(a != 0, (a & (a - 1)) == 0))]
    if op in ('leading_zeros', 'trailing_zeros', 'count_ones'):
        r = z3.BitVecVal(0, 32)
        if op == 'count_ones':
            for i in range(n):
                r = r + z3.ZeroExt(31, z3.Extract(i, i, a))
        elif op == 'trailing_zeros':
            r = z3.BitVecVal(n, 32)
            for i in range(n - 1, -1, -1):
                r = z3.If(z3.Extract(i, i, a) == 1, z3.BitVecVal(i, 32), r)
        else:
            r = z3.BitVecVal(n, 32)
            for i in range(n):
                r = z3.If(z3.Extract(i, i, a) == 1, z3.BitVecVal(n - 1 - i, 32), r)
        return [(None, r)]
    if op in ('next_power_of_two', 'checked_next_power_of_two'):
        # smallest 2^k >= a ; overflow when a > 2^(n-1)
        r = z3.BitVecVal(1, n)
        for k in range(1, n):
            r = z3.If(z3.UGT(a, z3.BitVecVal(1 << (k - 1), n)), z3.BitVecVal(1 << k, n), r)
        ovf = z3.UGT(a, z3.BitVecVal(1 << (n - 1), n))
        if op == 'next_power_of_two':
            # the precompiled std has overflow checks off: on overflow the result wraps to 0 (documented release behaviour)
            return [(None, z3.If(ovf, z3.BitVecVal(0, n), r))]
        return [(ovf, none()), (z3.Not(ovf), (lambda s2, r=r: some(r)))]
    if op in ('to_be_bytes', 'to_le_bytes', 'from_be_bytes', 'from_le_bytes', 'to_ne_bytes', 'from_ne_bytes'):
        if 'be' in op:
            return [(None, a)]
        parts = [z3.Extract(8 * i + 7, 8 * i, a) for i in range(n // 8)]
        return [(None, z3.Concat(*parts) if len(parts) > 1 else parts[0])]
    if op in ('pow', 'checked_pow', 'saturating_pow', 'wrapping_pow'):
        e = z3.simplify(b)
        if not z3.is_bv_value(e) or e.as_long() > 40:
            raise MirError('pow with symbolic/large exponent')
        k = e.as_long()
        # exact via repeated wide multiplication with overflow tracking
        acc, ovf = z3.BitVecVal(1, n), z3.BoolVal(False)
        for _ in range(k):
            w = wide_mul(acc, a)
            ovf = z3.Or(ovf, z3.Extract(2 * n - 1, n, w) != 0)
            acc = z3.Extract(n - 1, 0, w)
        if op == 'checked_pow':
            return [(ovf, none()), (z3.Not(ovf), (lambda s2, v=acc: some(v)))]
        if op == 'saturating_pow':
            return [(None, z3.If(ovf, _maxv(n, False), acc))]
        if op == 'wrapping_pow':
            return [(None, acc)]
        return [(ovf, Diverge('panic', 'pow overflow')), (z3.Not(ovf), acc)]
    if op in ('div_euclid', 'rem_euclid') and signed:
        q = a / b; r = z3.SRem(a, b)
        if op == 'rem_euclid':
            v = z3.If(r < 0, z3.If(b < 0, r - b, r + b), r)
        else:
            v = z3.If(r < 0, z3.If(b > 0, q - 1, q + 1), q)
        return [(None, v)]
    if op == 'unsigned_abs' and signed:
        return [(None, z3.If(a < 0, -a, a))]
    if op in ('is_negative',):
        return [(None, a < 0)]
    if op == 'div_ceil' and not signed:
        q = z3.UDiv(a, b); r = z3.URem(a, b)
        return [(b == 0, Diverge('panic', 'attempt to divide by zero')), (b != 0, z3.If(r != 0, q + 1, q))]
    raise MirError(f'no model for integer op {ty}::{op}')


@model(r'^<(u8|u16|u32|u64|u128|usize|i8|i16|i32|i64|i128|isize|bool|char) as ([\w:]+::)?(PartialEq|PartialOrd|Ord)(<.*>)?>::(eq|ne|lt|le|gt|ge|cmp|partial_cmp|min|max)$')
def m_scalar_cmp(ctx):
    m = re.match(r'^<(\w+) as [\w:]+(<.*>)?>::(\w+)$', ctx.callee)
    ty, op = m.group(1), m.group(3)
    a, b = (ctx.ex.deref_val(ctx.st, x) for x in ctx.args[:2])
    return [(None, scalar_cmp(ctx.ex, op, a, b, ty in SIGNED))]


def scalar_cmp(ex, op, a, b, signed=False):
    a, b = ex.to_bv(a), ex.to_bv(b)
    lt = (a < b) if signed else z3.ULT(a, b)
    le = (a <= b) if signed else z3.ULE(a, b)
    if op == 'eq': return a == b
    if op == 'ne': return a != b
    if op == 'lt': return lt
    if op == 'le': return le
    if op == 'gt': return z3.Not(le)
    if op == 'ge': return z3.Not(lt)
    if op == 'cmp': return ex.ordering(lt, a == b)
    if op == 'partial_cmp': return some(ex.ordering(lt, a == b))
    if op == 'min': return z3.If(le, a, b)
    if op == 'max': return z3.If(le, b, a)
    raise MirError('cmp op ' + op)


@model(r'^(std::cmp::|core::cmp::)?Ordering::(reverse|is_eq|is_ne|is_lt|is_le|is_gt|is_ge|then)$|^<(std::cmp::|core::cmp::)?Ordering as ([\w:]+::)?PartialEq>::(eq|ne)$')
def m_ordering(ctx):
    ex, st = ctx.ex, ctx.st
    op = ctx.callee.rsplit('::', 1)[1]
    a = ex.deref_val(st, ctx.args[0])
    da = ex.discr_value(st, a)
    if op == 'reverse':
        o = Obj('std::cmp::Ordering'); o.discr = -da
        return [(None, o)]
    if op in ('eq', 'ne'):
        db = ex.discr_value(st, ex.deref_val(st, ctx.args[1]))
        return [(None, (da == db) if op == 'eq' else (da != db))]
    if op == 'then':
        db = ex.discr_value(st, ex.deref_val(st, ctx.args[1]))
        o = Obj('std::cmp::Ordering'); o.discr = z3.If(da == 0, db, da)
        return [(None, o)]
    zero = z3.BitVecVal(0, 64)
    return [(None, {'is_eq': da == zero, 'is_ne': da != zero, 'is_lt': da < zero, 'is_le': da <= zero, 'is_gt': da > zero, 'is_ge': da >= zero}[op])]


@model(r'^<.+ as ([\w:]+::)?(PartialEq|PartialOrd|Ord|Eq)(<.*>)?>::(eq|ne|lt|le|gt|ge|cmp|partial_cmp|min|max)$')
def m_generic_cmp(ctx):
    """scalar-represented newtypes and byte arrays; anything else falls through to the crate's own impl (or havoc)"""
    ex, st = ctx.ex, ctx.st
    op = ctx.callee.rsplit('::', 1)[1]
    a, b = (ex.deref_val(st, x) for x in ctx.args[:2])
    if (z3.is_bv(a) or z3.is_bool(a)) and (z3.is_bv(b) or z3.is_bool(b)):
        return [(None, scalar_cmp(ex, op, a, b))]
    if isinstance(a, tuple) and isinstance(b, tuple) and a == () and b == ():
        return [(None, z3.BoolVal(op in ('eq', 'le', 'ge')))]
    if z3.is_expr(a) and z3.is_expr(b) and a.sort() == b.sort() and op in ('eq', 'ne'):
        return [(None, (a == b) if op == 'eq' else (a != b))]        # values of an abstract sort (e.g. hashes as free constructors)
    if op in ('lt', 'le', 'gt', 'ge') and ex.resolve_fn(ctx.callee, len(ctx.args)) is None:
        base = ctx.callee[:-len(op)]
        tgt = ex.resolve_fn(base + 'partial_cmp', len(ctx.args)) or ex.resolve_fn(base.replace('PartialOrd', 'Ord') + 'cmp', len(ctx.args))
        if tgt:
            ex.push(st, tgt, ctx.args, ctx.dest, ctx.nxt, Cont('ordcmp', op=op))
            return PUSHED
    if op == 'ne' and ex.resolve_fn(ctx.callee, len(ctx.args)) is None:
        tgt = ex.resolve_fn(ctx.callee[:-2] + 'eq', len(ctx.args))
        if tgt:
            ex.push(st, tgt, ctx.args, ctx.dest, ctx.nxt, Cont('not'))
            return PUSHED
    if op in ('eq', 'ne') and ex.resolve_fn(ctx.callee, len(ctx.args)) is None:
        e = struct_eq(ex, st, a, b)
        if e is not None:
            return [(None, e if op == 'eq' else z3.Not(e))]
    return None


def struct_eq(ex, st, a, b):
    """structural equality of two values whose shape is fully materialised on at least one side; None if not decidable"""
    if (z3.is_bv(a) or z3.is_bool(a)) and (z3.is_bv(b) or z3.is_bool(b)):
        return a == b
    if isinstance(a, Ref) or isinstance(b, Ref):
        return struct_eq(ex, st, ex.deref_val(st, a), ex.deref_val(st, b))
    if isinstance(a, tuple) and isinstance(b, tuple) and len(a) == len(b):
        parts = [struct_eq(ex, st, x, y) for x, y in zip(a, b)]
        return None if any(p is None for p in parts) else z3.And(*parts) if parts else z3.BoolVal(True)
    if isinstance(a, Obj) and isinstance(b, Obj):
        if a is b:
            return z3.BoolVal(True)
        if 'ident' in a.attrs or 'ident' in b.attrs:
            return ident(a) == ident(b)
        if a.kind in ('vec', 'array', 'slice') and b.kind in ('vec', 'array', 'slice'):
            if len(a.attrs['items']) != len(b.attrs['items']):
                return z3.BoolVal(False)
            parts = [struct_eq(ex, st, x, y) for x, y in zip(a.attrs['items'], b.attrs['items'])]
            return None if any(p is None for p in parts) else (z3.And(*parts) if parts else z3.BoolVal(True))
        if a.kind is None and b.kind is None and a.discr is None and b.discr is None:
            if not a.fields and not b.fields:
                return ident(a) == ident(b)      # opaque values: equality abstracted by an identity scalar
            if set(a.fields) == set(b.fields):
                parts = [struct_eq(ex, st, a.fields[k], b.fields[k]) for k in a.fields]
                return None if any(p is None for p in parts) else z3.And(*parts)
        if a.kind is None and b.kind is None and (a.discr is not None or b.discr is not None) and not (isinstance(a.discr, str) and isinstance(b.discr, str)):
            # enum values where at least one discriminant is symbolic: equal discriminants and equal payloads of the common variant
            ta = a.ty if ex.adts.lookup(a.ty or '') else b.ty
            adt = ex.adts.lookup(ta or '')
            if adt and adt['kind'] == 'enum':
                if not a.ty or not ex.adts.lookup(a.ty): a.ty = ta
                if not b.ty or not ex.adts.lookup(b.ty): b.ty = ta
                da, db = ex.discr_value(st, a), ex.discr_value(st, b)
                parts = [da == db]
                for v in adt['variants']:
                    idx = z3.BitVecVal(v['discr'] if v['discr'] is not None else v['index'], 64)
                    ka = {k for k in a.fields if k[0] == v['name']}; kb = {k for k in b.fields if k[0] == v['name']}
                    if isinstance(a.discr, str) and a.discr != v['name'] or isinstance(b.discr, str) and b.discr != v['name']:
                        continue
                    for k in ka | kb:
                        if k in a.fields and k in b.fields:
                            e = struct_eq(ex, st, a.fields[k], b.fields[k])
                            if e is None:
                                return None
                            parts.append(z3.Implies(da == idx, e))
                        else:
                            return None
                return z3.And(*parts)
        if isinstance(a.discr, str) and isinstance(b.discr, str) and a.kind is None and b.kind is None:
            if a.discr != b.discr:
                return z3.BoolVal(False)
            ks = set(a.fields) | set(b.fields)
            if set(a.fields) == set(b.fields):
                parts = [struct_eq(ex, st, a.fields[k], b.fields[k]) for k in ks]
                return None if any(p is None for p in parts) else (z3.And(*parts) if parts else z3.BoolVal(True))
        return None
    return None


def ident(o, bits=256):
    """opaque identity scalar for objects compared only by equality (shared by structural copies through the lazy-source id)"""
    if 'ident' not in o.attrs:
        o.attrs['ident'] = z3.BitVec(f'id_{o.lz}', bits)
    return o.attrs['ident']


# ---------------------------------------------------------------- Option / Result / Try
def _is_opt_res(ctx, which):
    return re.match(r'^(std::|core::)?(option::)?Option::<', ctx.callee) if which == 'Option' else re.match(r'^(std::|core::)?(result::)?Result::<', ctx.callee)


@model(r'as Try>::branch$')
def m_try_branch(ctx):
    ex, st = ctx.ex, ctx.st
    r = ex.deref_val(st, ctx.args[0])
    a = ex.adts.lookup(r.ty)
    vs = {v['name'] for v in a['variants']} if a and a['kind'] == 'enum' else set()
    if r.discr in ('Some', 'None') or 'Some' in vs:
        return on_variant(ex, st, r, {
            'Some': lambda s2, r2: enum('ControlFlow', 'Continue', [payload(ex, s2, r2, 'Some')]),
            'None': lambda s2, r2: enum('ControlFlow', 'Break', [none()])})
    if r.discr in ('Ready', 'Pending') or 'Ready' in vs:
        raise MirError('Try on Poll')
    return on_variant(ex, st, r, {
        'Ok': lambda s2, r2: enum('ControlFlow', 'Continue', [payload(ex, s2, r2, 'Ok')]),
        'Err': lambda s2, r2: enum('ControlFlow', 'Break', [enum('Result', 'Err', [payload(ex, s2, r2, 'Err')])])})


@model(r'FromResidual<.*>>::from_residual$')
def m_from_residual(ctx):
    r = ctx.args[0]
    if isinstance(r, Obj) and r.discr == 'Err':
        e = r.fields.get(('Err', 0))
        return [(None, enum(ctx.ret_ty, 'Err', [e if e is not None else Obj('Report', kind='error')]))]
    if isinstance(r, Obj) and r.discr == 'None':
        return [(None, enum(ctx.ret_ty, 'None'))]
    if re.search(r'Option<.*> as FromResidual<(std::option::|core::option::)?Option<Infallible>>>::from_residual$', ctx.callee):
        return [(None, enum(ctx.ret_ty, 'None'))]      # Option<Infallible> has the single inhabitant None
    return [(None, r)]


OPT_RX = r'^(std::|core::)?(option::)?Option(?:::<.*>)?::(\w+)$|OptionExt<.*>>::(ok_or_eyre)$'
RES_RX = r'^(std::|core::)?(result::)?Result(?:::<.*>)?::(\w+)$'


@model(OPT_RX)
def m_option(ctx):
    ex, st = ctx.ex, ctx.st
    op = ctx.callee.rsplit('::', 1)[1]
    o = ex.deref_val(st, ctx.args[0])
    if op == 'as_pin_mut' and isinstance(o, Obj) and o.kind == 'pin':
        o = ex.deref_val(st, o.fields[('in', 0)])
    if not isinstance(o, Obj):
        raise MirError(f'Option method on {o!r}')
    A = ctx.args
    if op == 'as_pin_mut':
        def mkpin(s2, o2):
            payload(ex, s2, o2, 'Some')
            r_ = Ref(('field', o2, ('Some', 0, variant_payload_type(o2.ty, 'Some'))))
            pin = Obj('Pin', kind='pin'); pin.fields[('in', 0)] = r_; pin.fields[(None, 0)] = r_
            return some(pin)
        return on_variant(ex, st, o, {'Some': mkpin, 'None': lambda s2, o2: none()})
    P = lambda s2, o2: payload(ex, s2, o2, 'Some')
    T = lambda b: (lambda s2, o2: z3.BoolVal(b))
    if op in ('is_some', 'is_none'):
        return on_variant(ex, st, o, {'Some': T(op == 'is_some'), 'None': T(op == 'is_none')})
    if op in ('ok_or', 'ok_or_eyre'):
        return on_variant(ex, st, o, {'Some': lambda s2, o2: ok(P(s2, o2)), 'None': lambda s2, o2: err(s2.tr(A[1]) if op == 'ok_or' else (as_report(s2.tr(A[1])) if len(A) > 1 else None))})
    if op in ('unwrap', 'expect', 'unwrap_unchecked'):
        return on_variant(ex, st, o, {'Some': P, 'None': lambda s2, o2: Diverge('panic', f'Option::{op} on None')})
    if op == 'unwrap_or':
        return on_variant(ex, st, o, {'Some': P, 'None': lambda s2, o2: s2.tr(A[1])})
    if op == 'unwrap_or_default':
        return on_variant(ex, st, o, {'Some': P, 'None': lambda s2, o2: default_value(ex, s2, ctx.ret_ty)})
    if op in ('cloned', 'copied'):
        return on_variant(ex, st, o, {'Some': lambda s2, o2: some(ex.copy_val(ex.deref_val(s2, P(s2, o2)))), 'None': lambda s2, o2: none()})
    if op in ('as_ref', 'as_mut', 'as_deref', 'as_deref_mut'):
        def mk(s2, o2):
            P(s2, o2)
            return some(Ref(('field', o2, ('Some', 0, variant_payload_type(o2.ty, 'Some')))))
        return on_variant(ex, st, o, {'Some': mk, 'None': lambda s2, o2: none()})
    if op == 'take':
        def tk(s2, o2):
            v = some(P(s2, o2)); o2.discr = 'None'; o2.fields.pop(('Some', 0), None); return v
        return on_variant(ex, st, o, {'Some': tk, 'None': lambda s2, o2: none()})
    if op == 'or':
        return on_variant(ex, st, o, {'Some': lambda s2, o2: o2, 'None': lambda s2, o2: s2.tr(A[1])})
    if op == 'transpose':
        def tr_some(s2, o2):
            inner = ex.deref_val(s2, P(s2, o2))
            if not isinstance(inner, Obj):
                raise MirError('Option::transpose on a non-Result payload')
            return on_variant(ex, s2, inner, {'Ok': lambda s3, r3: ok(some(payload(ex, s3, r3, 'Ok'))), 'Err': lambda s3, r3: r3})
        return on_variant(ex, st, o, {'Some': tr_some, 'None': lambda s2, o2: ok(none())})
    if op == 'get_or_insert_with':
        def have(s2, o2):
            return Ref(('field', o2, ('Some', 0, variant_payload_type(o2.ty, 'Some'))))

        def make(s2, o2):
            ex.call_closure(s2, s2.tr(A)[-1], [], ctx.dest, ctx.nxt, Cont('wrap', mode='set_some', orig=o2))
            return PUSHED
        return on_variant(ex, st, o, {'Some': have, 'None': make})
    if op in ('replace', 'insert'):
        def rp(had):
            def f(s2, o2):
                old = some(P(s2, o2)) if had else none()
                o2.discr = 'Some'; o2.fields[('Some', 0)] = s2.tr(A[1])
                if op == 'insert':
                    return Ref(('field', o2, ('Some', 0, variant_payload_type(o2.ty, 'Some'))))
                return old
            return f
        return on_variant(ex, st, o, {'Some': rp(True), 'None': rp(False)})
    if op in CLOSURE_SPECS:
        return closure_variants(ctx, o, op, True)
    raise MirError('Option::' + op)


@model(RES_RX)
def m_result(ctx):
    ex, st = ctx.ex, ctx.st
    op = ctx.callee.rsplit('::', 1)[1]
    o = ex.deref_val(st, ctx.args[0])
    if not isinstance(o, Obj):
        raise MirError(f'Result method on {o!r}')
    A = ctx.args
    PO = lambda s2, o2: payload(ex, s2, o2, 'Ok')
    PE = lambda s2, o2: payload(ex, s2, o2, 'Err')
    T = lambda b: (lambda s2, o2: z3.BoolVal(b))
    if op in ('is_ok', 'is_err'):
        return on_variant(ex, st, o, {'Ok': T(op == 'is_ok'), 'Err': T(op == 'is_err')})
    if op == 'ok':
        return on_variant(ex, st, o, {'Ok': lambda s2, o2: some(PO(s2, o2)), 'Err': lambda s2, o2: none()})
    if op == 'err':
        return on_variant(ex, st, o, {'Ok': lambda s2, o2: none(), 'Err': lambda s2, o2: some(PE(s2, o2))})
    if op in ('unwrap', 'expect', 'unwrap_unchecked'):
        return on_variant(ex, st, o, {'Ok': PO, 'Err': lambda s2, o2: Diverge('panic', f'Result::{op} on Err')})
    if op in ('unwrap_err', 'expect_err'):
        return on_variant(ex, st, o, {'Err': PE, 'Ok': lambda s2, o2: Diverge('panic', f'Result::{op} on Ok')})
    if op == 'unwrap_or':
        return on_variant(ex, st, o, {'Ok': PO, 'Err': lambda s2, o2: s2.tr(A[1])})
    if op == 'unwrap_or_default':
        return on_variant(ex, st, o, {'Ok': PO, 'Err': lambda s2, o2: default_value(ex, s2, ctx.ret_ty)})
    if op in ('as_ref', 'as_mut'):
        def mk(v):
            def f(s2, o2):
                payload(ex, s2, o2, v)
                return enum('Result', v, [Ref(('field', o2, (v, 0, variant_payload_type(o2.ty, v))))])
            return f
        return on_variant(ex, st, o, {'Ok': mk('Ok'), 'Err': mk('Err')})
    if op in CLOSURE_SPECS:
        return closure_variants(ctx, o, op, False)
    raise MirError('Result::' + op)


# op -> (variant that triggers the closure, how its result is wrapped, what the other variant yields)
CLOSURE_SPECS = {
    'map': ('yes', 'wrap:yes', 'keep'), 'and_then': ('yes', 'id', 'keep'), 'map_err': ('Err', 'wrap:Err', 'keep'),
    'ok_or_else': ('None', 'wrap:Err', 'ok'), 'unwrap_or_else': ('no', 'id', 'payload'), 'or_else': ('no', 'id', 'keep'),
    'is_some_and': ('Some', 'id', 'false'), 'is_ok_and': ('Ok', 'id', 'false'), 'is_err_and': ('Err', 'id', 'false'),
    'is_none_or': ('Some', 'id', 'true'), 'filter': ('Some', 'filter', 'keep'),
    'inspect_err': ('Err', 'discard', 'keep'), 'inspect': ('yes', 'discard', 'keep'),
    'map_or': ('yes', 'id', 'default'), 'map_or_else': ('yes', 'id', 'default_fn'),
}


def closure_variants(ctx, o, op, is_opt):
    """combinators taking a closure: fork on the variant, run the closure from its MIR, wrap its result in a continuation"""
    ex, st = ctx.ex, ctx.st
    yes, no = ('Some', 'None') if is_opt else ('Ok', 'Err')
    trig, wrap, other = CLOSURE_SPECS[op]
    trig = {'yes': yes, 'no': no}.get(trig, trig)
    wrap = wrap.replace('wrap:yes', 'wrap:' + yes)
    A = ctx.args

    def branch(name):
        def f(s2, o2):
            args = s2.tr(A)
            if name == trig:
                cargs = [] if trig == 'None' else [payload(ex, s2, o2, trig)]
                if wrap in ('filter', 'discard'):
                    h = Obj('tmp', kind='cell'); h.fields[('*', 0)] = cargs[0]
                    cargs = [Ref(('field', h, ('*', 0, '?')))]
                ex.call_closure(s2, args[-1], cargs, ctx.dest, ctx.nxt, Cont('wrap', mode=wrap, ret_ty=ctx.ret_ty, orig=o2))
                return PUSHED
            if other == 'keep':
                if op == 'map' and not is_opt:      # Result<T,E>::map keeps Err(e) but the type changes; same object is fine
                    return o2
                return o2
            if other == 'ok': return ok(payload(ex, s2, o2, 'Some'))
            if other == 'payload': return payload(ex, s2, o2, yes)
            if other == 'false': return z3.BoolVal(False)
            if other == 'true': return z3.BoolVal(True)
            if other == 'default': return args[1]
            if other == 'default_fn':
                ex.call_closure(s2, args[1], [] if is_opt else [payload(ex, s2, o2, 'Err')], ctx.dest, ctx.nxt, None)
                return PUSHED
            raise MirError('closure_variants ' + op)
        return f
    return on_variant(ex, st, o, {yes: branch(yes), no: branch(no)})


def _reeval_arg0(ex, st):
    from . import mir as _mir
    fr = st.frame()
    term = _mir.parse_term(fr.fn.blocks[fr.bb][-1])
    op = term[3][0]
    return ex.get(st, op[1]) if op[0] != 'const' else None


def resume(ex, st, cont, rv, work):
    """a model-pushed frame returned `rv`: returns ('value', v) or ('model', model-result)"""
    k = cont.kind
    if k == 'wrap':
        mode = cont.data['mode']
        if mode.startswith('wrap:'):
            return 'value', enum(cont.data.get('ret_ty') or '', mode[5:], [rv])
        if mode == 'filter':
            o = cont.data['orig']
            return 'model', [(rv, (lambda s2: s2.tr(o))), (z3.Not(rv), none())]
        if mode == 'discard':
            return 'value', cont.data['orig']
        if mode == 'set_some':
            o = cont.data['orig']
            o.discr = 'Some'; o.fields[('Some', 0)] = rv
            return 'value', Ref(('field', o, ('Some', 0, variant_payload_type(o.ty, 'Some'))))
        return 'value', rv
    if k in RESUMERS:
        return RESUMERS[k](ex, st, cont, rv, work)
    raise MirError('resume ' + k)


RESUMERS = {}


def _resume_take(ex, st, cont, rv, work):
    r = cont.data['ref']
    old = ex.read(st, r.loc)
    ex.write(st, r.loc, rv)
    return 'value', old


def _resume_ordcmp(ex, st, cont, rv, work):
    op = cont.data['op']
    o = rv
    if isinstance(o, Obj) and (o.discr in ('Some', 'None') or 'Option' in (o.ty or '')):
        if o.discr == 'None':
            return 'value', z3.BoolVal(False)
        if not isinstance(o.discr, str):
            raise MirError('symbolic Option from partial_cmp')
        o = o.fields[('Some', 0)]
    d = ex.discr_value(st, o); z = z3.BitVecVal(0, 64)
    return 'value', {'lt': d < z, 'le': d <= z, 'gt': d > z, 'ge': d >= z}[op]


RESUMERS['ordcmp'] = _resume_ordcmp
RESUMERS['joinall'] = _resume_joinall
RESUMERS['take'] = _resume_take
RESUMERS['not'] = lambda ex, st, cont, rv, work: ('value', z3.Not(rv))


# ---------------------------------------------------------------- conversions / clone / deref
@model(r'^<(\w+) as (TryFrom|TryInto)<(\w+)>>::(try_from|try_into)$')
def m_int_try_from(ctx):
    m = re.match(r'^<(\w+) as (TryFrom|TryInto)<(\w+)>>::(try_from|try_into)$', ctx.callee)
    a, b = (m.group(1), m.group(3)) if m.group(2) == 'TryFrom' else (m.group(3), m.group(1))      # a = target, b = source
    if a not in INT_TY or b not in INT_TY:
        return None
    v = ctx.args[0]; na, nb = INT_TY[a], INT_TY[b]; sa, sb = a in SIGNED, b in SIGNED
    w = max(na, nb) + 1
    ext = (lambda x, n, sg: (z3.SignExt if sg else z3.ZeroExt)(w - n, x))
    wide = ext(v, nb, sb)
    lo = z3.BitVecVal(-(1 << (na - 1)) if sa else 0, w); hi = z3.BitVecVal((1 << (na - 1)) - 1 if sa else (1 << na) - 1, w)
    fits = z3.And(wide >= lo, wide <= hi)
    val = z3.Extract(na - 1, 0, wide)
    return [(fits, (lambda s2: ok(val))), (z3.Not(fits), (lambda s2: err(Obj('TryFromIntError', kind='error'))))]


@model(r'^<.+ as (From|Into)<.+>>::(from|into)$')
def m_from_into(ctx):
    ex = ctx.ex
    if ex.resolve_fn(ctx.callee, len(ctx.args)):
        return None
    m = re.match(r'^<(.+) as (From|Into)<(.+)>>::(from|into)$', ctx.callee)
    a, b = (m.group(1), m.group(3)) if m.group(2) == 'From' else (m.group(3), m.group(1))
    v = ctx.args[0]
    ba, bb = ex.scalar_bits(a), ex.scalar_bits(b)
    if z3.is_bv(v) and a.strip() in INT_TY and b.strip() in INT_TY:
        n = INT_TY[a.strip()]
        if n == v.size(): return [(None, v)]
        if n > v.size(): return [(None, (z3.SignExt if b.strip() in SIGNED else z3.ZeroExt)(n - v.size(), v))]
    if z3.is_bv(v) and ba == v.size():
        return [(None, v)]
    if strip_generics(a) == strip_generics(b):
        return [(None, v)]
    if re.search(r'(ErrReport|Report|eyre|anyhow|Box<dyn)', a):
        return [(None, as_report(v))]
    if m.group(2) == 'Into':
        tgt = ex.resolve_fn(f'<{a} as From<{b}>>::from', 1)
        if tgt:
            ex.push(ctx.st, tgt, [v], ctx.dest, ctx.nxt)
            return PUSHED
    if a.split('::')[-1].endswith('Error') and b.split('::')[-1].endswith('Error'):
        o = Obj(a, kind='error'); o.attrs['source'] = v; o.attrs['class'] = b.split('::')[-1]
        return [(None, o)]
    return None


def as_report(v):
    if isinstance(v, Obj) and v.kind == 'error':
        return v
    o = Obj('Report', kind='error'); o.attrs['source'] = v
    if isinstance(v, Obj):
        o.attrs['class'] = (v.attrs.get('const') or type_head(v.ty)).split('::')[-1]
    return o


@model(r'downcast_ref::<(.+)>$')
def m_downcast_ref(ctx):
    ex, st = ctx.ex, ctx.st
    e = ex.deref_val(st, ctx.args[0])
    want = type_head(re.search(r'downcast_ref::<(.+)>$', ctx.callee).group(1)).split('::')[-1]
    if not isinstance(e, Obj) or e.kind != 'error':
        raise MirError('downcast_ref on non-error ' + repr(e))
    cls = e.attrs.get('class')
    if cls == want:
        return [(None, some(e.attrs['source']))]
    if cls is None and e.attrs.get('opaque_class'):
        raise MirError('downcast_ref on an error of unknown class')
    return [(None, none())]


@model(r'^<.+ as Clone>::clone$|^<.+ as ToOwned>::to_owned$|^<.+ as Copy>')
def m_clone(ctx):
    ex, st = ctx.ex, ctx.st
    v = ex.deref_val(st, ctx.args[0])
    return [(None, ex.copy_val(v))]      # structural copy (what derive(Clone) does; hand-written Clone impls are assumed to do the same)


@model(r'^<.+ as (Deref|DerefMut|AsRef<.+>|AsMut<.+>|Borrow<.+>|BorrowMut<.+>)>::(deref|deref_mut|as_ref|as_mut|borrow|borrow_mut)$')
def m_deref(ctx):
    ex, st = ctx.ex, ctx.st
    if ex.resolve_fn(ctx.callee, len(ctx.args)):
        return None
    r = ctx.args[0]
    v = ex.deref_val(st, r)
    if isinstance(v, Obj) and v.kind in ('box', 'arc', 'pin'):
        inner = v.fields[('in', 0)]
        if isinstance(inner, Ref):
            return [(None, inner)]
        return [(None, Ref(('field', v, ('in', 0, '?'))))]
    return [(None, r)]


@model(r'^<(std::boxed::)?Box<.*> as Drop>::drop$|^<(Vec|std::vec::Vec)<.*> as Drop>::drop$|^<(Arc|std::sync::Arc)<.*> as Drop>::drop$')
def m_std_drop(ctx):
    return [(None, ())]


@model(r'^(core::hint::|std::hint::)?must_use::<')
def m_must_use(ctx):
    return [(None, ctx.args[0])]


@model(r'^std::mem::(take|replace|swap|drop|forget)::<|^core::mem::(take|replace|swap|drop|forget)::<|^drop::<')
def m_mem(ctx):
    ex, st = ctx.ex, ctx.st
    op = re.search(r'(take|replace|swap|drop|forget)::<', ctx.callee).group(1)
    if op in ('drop', 'forget'):
        return [(None, ())]
    r = ctx.args[0]
    old = ex.read(st, r.loc)
    if op == 'take':
        m = re.search(r'::<(.+)>$', ctx.callee)
        ty = m.group(1)
        tgt = ex.resolve_fn(f'<{ty} as Default>::default', 0)
        if tgt:
            ex.push(st, tgt, [], ctx.dest, ctx.nxt, Cont('take', ref=r))
            return PUSHED
        ex.write(st, r.loc, default_value(ex, st, ty))
        return [(None, old)]
    if op == 'replace':
        ex.write(st, r.loc, ctx.args[1]); return [(None, old)]
    o2 = ex.read(st, ctx.args[1].loc)
    ex.write(st, r.loc, o2); ex.write(st, ctx.args[1].loc, old)
    return [(None, ())]


def default_value(ex, st, ty):
    ty = ty.strip()
    if ty in INT_TY: return z3.BitVecVal(0, INT_TY[ty])
    if ty == 'bool': return z3.BoolVal(False)
    if ty == '()': return ()
    h = type_head(ty).split('::')[-1]
    if h == 'Option': return none()
    if h in ('Vec', 'VecDeque'):
        return new_vec(ty)
    if h in ('HashMap', 'BTreeMap', 'IndexMap', 'HashSet', 'BTreeSet'):
        return new_map(ty)
    b = ex.scalar_bits(ty)
    if b is not None:
        return z3.BitVecVal(0, b)
    raise MirError('default_value for ' + ty)


@model(r'^<.+ as (std::default::|core::default::)?Default>::default$')
def m_default(ctx):
    if ctx.ex.resolve_fn(ctx.callee, 0):
        return None
    try:
        return [(None, default_value(ctx.ex, ctx.st, ctx.ret_ty))]
    except MirError:
        return None


# ---------------------------------------------------------------- eyre / error plumbing / formatting
@model(r'anyhow::Context<.*>>::(context|with_context)$|WrapErr<.*>>::(wrap_err|wrap_err_with|context|with_context)$|eyre::(WrapErr|ContextCompat|OptionExt)|::wrap_err(_with)?$')
def m_wrap_err(ctx):
    ex, st = ctx.ex, ctx.st
    o = ex.deref_val(st, ctx.args[0])
    if not isinstance(o, Obj):
        raise MirError('wrap_err on ' + repr(o))
    vs = ex.adts.lookup(o.ty)
    is_opt = o.discr in ('Some', 'None') or (vs and vs['path'] == 'Option')
    if is_opt:
        return on_variant(ex, st, o, {'Some': lambda s2, o2: ok(payload(ex, s2, o2, 'Some')), 'None': lambda s2, o2: err()})
    return on_variant(ex, st, o, {'Ok': lambda s2, o2: o2, 'Err': lambda s2, o2: enum('Result', 'Err', [as_report(payload(ex, s2, o2, 'Err'))])})


@model(r'eyre::error::<impl ErrReport>::|eyre::kind::|^Adhoc::|^Trait::|^Boxed::|::new_adhoc|format_err|^eyre::private|^astria_eyre::eyre::private|Report::msg|Report::new|^eyre::Report::|^astria_eyre::eyre::Report::|ErrReport::|^anyhow::|^astria_eyre::anyhow|eyre::ensure|::into_eyre|eyre_to_anyhow|anyhow_to_eyre')
def m_report(ctx):
    if ctx.ret_ty.strip() in ('()',):
        return [(None, ())]
    if 'Result<' in ctx.ret_ty:
        return None
    for a in ctx.args:
        if isinstance(a, Obj) and a.kind == 'error':
            return [(None, a)]
    return [(None, Obj('Report', kind='error'))]


@model(r'^format$|^Arguments::|^Argument::|^Formatter::|^std::fmt::Arguments|^core::fmt::Arguments|^core::fmt::rt::|^std::fmt::rt::|^alloc::fmt::format|^std::fmt::format|fmt::Formatter|as (Display|Debug|LowerHex)>::fmt$|^alloc::string::String::|^String::|as ToString>::to_string$|^std::fmt::Write|format::')
def m_fmt(ctx):
    t = ctx.ret_ty.strip()
    if re.match(r'^<(str|std::string::String|String|&str) as (ToString|ToOwned)>::(to_string|to_owned)$', ctx.callee) or re.match(r'^(std::string::|alloc::string::)?String::(clone|as_str|to_owned)$|^<String as Clone>::clone$', ctx.callee):
        v = ctx.ex.deref_val(ctx.st, ctx.args[0])
        if isinstance(v, Obj):
            return [(None, ctx.ex.copy_val(v))]      # a copy of a string is the same string (identity scalar shared through the lazy-source id)
    if t == '()':
        return [(None, ())]
    o = Obj(t, kind='fmt'); o.attrs['opaque'] = True
    if 'Result<' in t:
        return [(None, ok(()))]
    return [(None, o)]


# ---------------------------------------------------------------- shaped containers
def new_vec(ty='Vec', items=None):
    o = Obj(ty, kind='vec'); o.attrs['items'] = list(items or [])
    return o


def new_map(ty='HashMap', entries=None):
    o = Obj(ty, kind='map'); o.attrs['items'] = list(entries or [])     # list of (key, value) tuples
    return o


def key_eq(ex, st, a, b):
    a, b = ex.deref_val(st, a), ex.deref_val(st, b)
    e = struct_eq(ex, st, a, b)
    if e is None:
        if isinstance(a, Obj) and isinstance(b, Obj):
            return ident(a) == ident(b)
        raise MirError(f'cannot compare keys {a!r} {b!r}')
    return e


def lazy_shape(ex, st, o):
    """give a lazily created container input (never written, never measured) the run's uniform element count; elements are lazily created too"""
    n = getattr(ex, 'lazy_vec_len', None)
    if n is None or not isinstance(o, Obj) or o.kind is not None or 'items' in o.attrs or 'symlen' in o.attrs or o.fields or not o.ty:
        return False
    ty = o.ty.strip()
    m = re.match(r'^(?:std::vec::|alloc::vec::)?Vec<(.+)>$', ty)
    if m and m.group(1).strip() != 'u8':
        o.kind = 'vec'; o.attrs['items'] = [ex.fresh(st, m.group(1), 'elem') for _ in range(n)]
        return True
    m = re.match(r'^(?:std::collections::|indexmap::)?(?:BTreeSet|HashSet|IndexSet)<(.+)>$', ty)
    if m:
        parts = split_top(m.group(1))
        o.kind = 'map'; o.attrs['items'] = [(ex.fresh(st, parts[0], 'key'), ()) for _ in range(n)]
        if n > 1 and all(z3.is_bv(k) for k, _ in o.attrs['items']):
            st.pc.append(z3.Distinct(*[k for k, _ in o.attrs['items']]))
        return True
    m = re.match(r'^(?:std::collections::|indexmap::)?(?:BTreeMap|HashMap|IndexMap)<(.+)>$', ty)
    if m:
        parts = split_top(m.group(1))
        if len(parts) >= 2:
            o.kind = 'map'; o.attrs['items'] = [(ex.fresh(st, parts[0], 'key'), ex.fresh(st, parts[1], 'val')) for _ in range(n)]
            if n > 1 and all(z3.is_bv(k) for k, _ in o.attrs['items']):
                ks = [k for k, _ in o.attrs['items']]
                st.pc.append(z3.And(*[z3.ULT(a, b) for a, b in zip(ks, ks[1:])]) if 'BTreeMap<' in ty.split('<', 1)[0] + '<' else z3.Distinct(*ks))
            return True
    return False


def shaped(ex, st, v, what='container'):
    o = ex.deref_val(st, v)
    if isinstance(o, Obj) and o.kind in ('box', 'arc'):
        o = ex.deref_val(st, o.fields[('in', 0)])
    lazy_shape(ex, st, o)
    if not isinstance(o, Obj) or 'items' not in o.attrs:
        raise MirError(f'{what} without modelled shape: {o!r}')
    return o


@model(r'^(std::collections::)?VecDeque(?:::<.*>)?::(new|with_capacity|push_back|push_front|pop_front|pop_back|len|is_empty|front|back|front_mut|back_mut|iter|iter_mut|clear|get|contains)$|^Vec(?:::<.*>)?::(new|with_capacity|push|len|is_empty|pop|clear|iter|iter_mut|as_slice|first|last|get|extend_from_slice|truncate|insert|remove|contains|reserve|into_boxed_slice|as_mut_slice|sort_unstable|sort|dedup|swap_remove|drain|retain|append|split_off|first_mut|last_mut)$|^std::vec::Vec(?:::<.*>)?::(new|with_capacity)$|^core::slice::<impl \[.*\]>::(iter|iter_mut|len|is_empty|first|last|get|contains|to_vec|into_vec|sort_unstable|sort|split_first|split_last|concat|binary_search)$|^std::slice::<impl \[.*\]>::(to_vec|into_vec|concat|sort|sort_unstable)$|^<\[.*\] as ToOwned>::to_owned$')
def m_vec(ctx):
    ex, st = ctx.ex, ctx.st
    op = ctx.callee.rsplit('::', 1)[1]
    if op in ('new', 'with_capacity'):
        return [(None, new_vec(ctx.ret_ty))]
    if z3.is_bv(ex.deref_val(st, ctx.args[0])):
        bv = ex.deref_val(st, ctx.args[0])
        if op == 'len': return [(None, z3.BitVecVal(bv.size() // 8, 64))]
        if op == 'is_empty': return [(None, z3.BoolVal(False))]
        if op in ('to_vec', 'to_owned', 'into_vec'):
            return [(None, bytes_obj(bv))]
        return None
    v0 = ex.deref_val(st, ctx.args[0])
    lazy_shape(ex, st, v0)
    if isinstance(v0, Obj) and 'items' not in v0.attrs and v0.kind is None and op in ('len', 'is_empty'):
        # a container input whose contents are never inspected: only its length is observable -> an arbitrary usize (same for all copies)
        if 'symlen' not in v0.attrs:
            v0.attrs['symlen'] = z3.BitVec(f'len_{v0.lz}', 64)
        return [(None, v0.attrs['symlen'] if op == 'len' else v0.attrs['symlen'] == 0)]
    if isinstance(v0, Obj) and 'items' not in v0.attrs and v0.kind is None and op in ('to_vec', 'to_owned', 'into_vec', 'as_slice', 'into_boxed_slice'):
        return [(None, ex.copy_val(v0))]      # opaque byte buffer: a copy is the same bytes
    v = shaped(ex, st, ctx.args[0], 'Vec')
    items = v.attrs['items']
    if op in ('push', 'push_back'):
        items.append(ctx.args[1]); return [(None, ())]
    if op == 'push_front':
        items.insert(0, ctx.args[1]); return [(None, ())]
    if op == 'pop_front':
        return [(None, some(items.pop(0)) if items else none())]
    if op == 'pop_back':
        return [(None, some(items.pop()) if items else none())]
    if op in ('front', 'front_mut', 'back', 'back_mut'):
        if not items: return [(None, none())]
        return [(None, some(Ref(('elem', v, 0 if op.startswith('front') else len(items) - 1))))]
    if op == 'len':
        return [(None, z3.BitVecVal(len(items) * v.attrs.get('bytes_per_item', 1), 64))]
    if op == 'is_empty':
        return [(None, z3.BoolVal(len(items) == 0))]
    if op == 'pop':
        return [(None, some(items.pop()) if items else none())]
    if op == 'clear':
        items.clear(); return [(None, ())]
    if op in ('iter', 'iter_mut', 'drain'):
        it = Obj('Iter', kind='iter'); it.attrs['src'] = v; it.attrs['pos'] = 0; it.attrs['mode'] = 'ref' if op != 'drain' else 'drain'
        return [(None, it)]
    if op in ('as_slice', 'as_mut_slice', 'into_boxed_slice'):
        return [(None, ctx.args[0])]
    if op in ('first', 'last', 'first_mut', 'last_mut'):
        if not items: return [(None, none())]
        i = 0 if op.startswith('first') else len(items) - 1
        return [(None, some(Ref(('elem', v, i))))]
    if op == 'get':
        i = z3.simplify(ctx.args[1])
        if z3.is_bv_value(i):
            return [(None, some(Ref(('elem', v, i.as_long()))) if i.as_long() < len(items) else none())]
        alts = [(i == z3.BitVecVal(j, 64), (lambda s2, j=j: some(Ref(('elem', s2.tr(v), j))))) for j in range(len(items))]
        alts.append((z3.UGE(i, z3.BitVecVal(len(items), 64)), none()))
        return alts
    if op in ('to_vec', 'to_owned', 'into_vec'):
        return [(None, new_vec('Vec', [ex.copy_val(x) for x in items]))]
    if op == 'extend_from_slice' and 'bytes_per_item' in v.attrs:
        src = ex.deref_val(st, ctx.args[1]); per = v.attrs['bytes_per_item']
        if z3.is_bv(src):
            if src.size() % (8 * per) != 0:
                raise MirError('extend_from_slice: not a whole number of atoms')
            if z3.is_bv_value(z3.simplify(src)) and z3.simplify(src).as_long() == 0:
                items.extend(v.attrs['zero_atom'] for _ in range(src.size() // (8 * per)))
                return [(None, ())]
            raise MirError('extend_from_slice of non-zero bytes into an atom rope')
        if z3.is_expr(src):
            items.append(src); return [(None, ())]
        raise MirError(f'extend_from_slice of {src!r} into an atom rope')
    if op == 'extend_from_slice' and z3.is_expr(ex.deref_val(st, ctx.args[1])) and not z3.is_bv(ex.deref_val(st, ctx.args[1])):
        items.append(ex.deref_val(st, ctx.args[1])); v.attrs.setdefault('bytes_per_item', 32)     # an atom (e.g. a hash term) appended to a byte rope
        return [(None, ())]
    if op == 'extend_from_slice' or op == 'append':
        src = shaped(ex, st, ctx.args[1])
        items.extend(ex.copy_val(x) for x in src.attrs['items'])
        if op == 'append': src.attrs['items'].clear()
        return [(None, ())]
    if op == 'reserve':
        return [(None, ())]
    if op == 'truncate':
        n = z3.simplify(ctx.args[1])
        if not z3.is_bv_value(n): raise MirError('symbolic truncate')
        del items[n.as_long():]; return [(None, ())]
    if op in ('insert', 'remove', 'swap_remove'):
        i = z3.simplify(ctx.args[1])
        if not z3.is_bv_value(i): raise MirError('symbolic vec index')
        if op == 'insert':
            items.insert(i.as_long(), ctx.args[2]); return [(None, ())]
        if i.as_long() >= len(items): return Diverge('panic', 'Vec::remove out of bounds')
        return [(None, items.pop(i.as_long()))]
    if op == 'contains':
        x = ctx.args[1]
        return [(None, z3.Or(*[key_eq(ex, st, it, x) for it in items]) if items else z3.BoolVal(False))]
    if op == 'split_off':
        n = z3.simplify(ctx.args[1])
        if not z3.is_bv_value(n): raise MirError('symbolic split_off')
        tail = items[n.as_long():]; del items[n.as_long():]
        return [(None, new_vec(v.ty, tail))]
    if op in ('sort_unstable', 'sort'):
        import itertools
        ks = [ex.deref_val(st, k) for k in items]
        if len(items) <= 1:
            return [(None, ())]
        if len(items) > 4 or not all(z3.is_bv(k) for k in ks):
            return None
        alts = []; seen = z3.BoolVal(False)
        for perm in itertools.permutations(range(len(items))):
            cond = z3.And(*[z3.ULE(ks[perm[i]], ks[perm[i + 1]]) for i in range(len(perm) - 1)])

            def mk(s2, perm=perm):
                vv = shaped(ex, s2, s2.tr(ctx.args[0]), 'Vec'); old_ = list(vv.attrs['items']); vv.attrs['items'] = [old_[i] for i in perm]
                return ()
            alts.append((z3.And(cond, z3.Not(seen)), mk)); seen = z3.Or(seen, cond)      # ties: the first matching permutation (equal scalars are indistinguishable)
        return alts
    if op == 'binary_search':
        key = ex.deref_val(st, ctx.args[1]); ks = [ex.deref_val(st, k) for k in items]
        if not z3.is_bv(key) or not all(z3.is_bv(k) for k in ks) or len(ks) > 6:
            return None
        # on a slice that is not sorted the answer of binary_search is unspecified: a present key may be missed
        srt = z3.And(*[z3.ULE(ks[i], ks[i + 1]) for i in range(len(ks) - 1)]) if len(ks) > 1 else z3.BoolVal(True)
        missed = z3.Bool(f'binary_search_misses_{nid()}')
        alts = []; earlier = z3.BoolVal(False)
        for i, k in enumerate(ks):
            alts.append((z3.And(k == key, z3.Not(earlier), z3.Or(srt, z3.Not(missed))), ok(z3.BitVecVal(i, 64)))); earlier = z3.Or(earlier, k == key)
        alts.append((z3.Or(z3.Not(earlier), z3.And(z3.Not(srt), missed)), (lambda s2: err(z3.BitVec(f'insertion_point_{nid()}', 64)))))
        return alts
    return None


def bytes_obj(bv):
    o = Obj('Vec<u8>', kind='bytes'); o.attrs['bv'] = bv
    return o


@model(r'^(std::iter::|core::iter::)?once::<.*>$|^(std::iter::|core::iter::)?empty::<.*>$')
def m_iter_once(ctx):
    o = Obj('Iter', kind='iter'); o.attrs['src'] = new_vec('Vec', list(ctx.args[:1])); o.attrs['pos'] = 0; o.attrs['mode'] = 'val'
    return [(None, o)]


@model(r'as IntoIterator>::into_iter$')
def m_into_iter(ctx):
    ex, st = ctx.ex, ctx.st
    a = ctx.args[0]
    v = ex.deref_val(st, a)
    if isinstance(v, Obj) and v.kind == 'iter':
        return [(None, v)]
    if isinstance(v, Obj) and v.kind in ('mapiter', 'range'):
        return [(None, v)]
    lazy_shape(ex, st, v)
    if isinstance(v, Obj) and 'items' in v.attrs:
        it = Obj('Iter', kind='iter'); it.attrs['src'] = v; it.attrs['pos'] = 0
        it.attrs['mode'] = 'ref' if isinstance(a, Ref) else 'val'
        return [(None, it)]
    if isinstance(v, Obj) and isinstance(v.discr, str) and v.discr in ('Some', 'None'):
        it = Obj('Iter', kind='iter'); src = new_vec('Vec', [v.fields[('Some', 0)]] if v.discr == 'Some' else [])
        it.attrs['src'] = src; it.attrs['pos'] = 0; it.attrs['mode'] = 'val'
        return [(None, it)]
    raise MirError(f'into_iter on unshaped {v!r}')


def iter_next(ex, st, it):
    """returns python value or None when exhausted"""
    if it.kind == 'range':
        a, b = it.attrs['cur'], it.attrs['end']
        if a >= b: return None
        it.attrs['cur'] = a + 1
        return z3.BitVecVal(a, it.attrs['bits'])
    src = it.attrs['src']; pos = it.attrs['pos']
    items = src.attrs['items']
    if it.attrs.get('rev'):
        if pos >= len(items): return None
        idx = len(items) - 1 - pos
    else:
        if pos >= len(items): return None
        idx = pos
    it.attrs['pos'] = pos + 1
    is_map = src.kind == 'map'
    if it.attrs['mode'] == 'ref':
        if is_map:
            sel = it.attrs.get('sel') or ('keys' if 'Set' in type_head(src.ty) else None)
            if sel == 'keys': return Ref(('mapkv', src, idx, 0))
            if sel == 'values': return Ref(('mapkv', src, idx, 1))
            return (Ref(('mapkv', src, idx, 0)), Ref(('mapkv', src, idx, 1)))
        return Ref(('elem', src, idx))
    x = items[idx]
    if is_map:
        sel = it.attrs.get('sel') or ('keys' if 'Set' in type_head(src.ty) else None)
        if sel == 'keys': return x[0]
        if sel == 'values': return x[1]
    return x


@model(r'as Iterator>::next$|as DoubleEndedIterator>::next_back$')
def m_iter_next(ctx):
    ex, st = ctx.ex, ctx.st
    it = ex.deref_val(st, ctx.args[0])
    if not isinstance(it, Obj) or it.kind not in ('iter', 'range', 'mapiter'):
        raise MirError(f'next on unmodelled iterator {it!r}')
    if it.kind == 'mapiter':
        inner = it.attrs['inner']
        x = iter_next(ex, st, inner)
        if x is None:
            return [(None, none())]
        if isinstance(x, RawItem):
            return [(None, some(x.v))]
        ex.call_closure(st, it.attrs['f'], [x], ctx.dest, ctx.nxt, Cont('wrap', mode='wrap:Some', ret_ty='Option'))
        return PUSHED
    x = iter_next(ex, st, it)
    return [(None, none() if x is None else some(x))]


@model(r'as Iterator>::(map|enumerate|rev|cloned|copied|peekable|by_ref|filter|zip|chain|take|skip|filter_map|flat_map|flatten)::<|as Iterator>::(enumerate|rev|cloned|copied|peekable|by_ref|flatten|take|skip)$')
def m_iter_adapt(ctx):
    ex, st = ctx.ex, ctx.st
    op = re.search(r'>::(\w+)(::<.*)?$', ctx.callee).group(1)
    it = ex.deref_val(st, ctx.args[0])
    if not isinstance(it, Obj) or it.kind not in ('iter', 'mapiter', 'range'):
        raise MirError(f'iterator adaptor on {it!r}')
    if op == 'map':
        o = Obj('Map', kind='mapiter'); o.attrs['inner'] = it; o.attrs['f'] = ctx.args[1]
        return [(None, o)]
    if op == 'filter_map':
        o = Obj('FilterMap', kind='mapiter'); o.attrs['inner'] = it; o.attrs['f'] = ctx.args[1]; o.attrs['filter'] = True
        return [(None, o)]
    if op == 'filter':
        o = Obj('Filter', kind='mapiter'); o.attrs['inner'] = it; o.attrs['f'] = ctx.args[1]; o.attrs['pred'] = True
        return [(None, o)]
    if op == 'flat_map':
        o = Obj('FlatMap', kind='mapiter'); o.attrs['inner'] = it; o.attrs['f'] = ctx.args[1]; o.attrs['flat'] = True
        return [(None, o)]
    if op == 'rev' and it.kind == 'iter':
        it.attrs['rev'] = not it.attrs.get('rev', False); return [(None, it)]
    if op in ('cloned', 'copied') and it.kind == 'iter':
        it.attrs['mode'] = 'val'; return [(None, it)]
    if op in ('cloned', 'copied') and it.kind == 'mapiter':
        it.attrs['copy_out'] = True; return [(None, it)]      # the yielded references are dereferenced when the adaptor chain is consumed
    if op == 'by_ref':
        return [(None, ctx.args[0])]
    if op == 'enumerate' and it.kind == 'iter':
        src = it.attrs['src']
        pairs = []
        for i in range(it.attrs['pos'], len(src.attrs['items'])):
            pairs.append((z3.BitVecVal(i - it.attrs['pos'], 64), Ref(('elem', src, i)) if it.attrs['mode'] == 'ref' else src.attrs['items'][i]))
        o = Obj('Iter', kind='iter'); o.attrs['src'] = new_vec('Vec', pairs); o.attrs['pos'] = 0; o.attrs['mode'] = 'val'
        return [(None, o)]
    if op == 'chain':
        other = ex.deref_val(st, ctx.args[1])
        plain = lambda o: isinstance(o, Obj) and o.kind in ('iter', 'range')
        lazy = lambda o: isinstance(o, Obj) and o.kind == 'mapiter' and not o.attrs.get('filter') and not o.attrs.get('flat') and plain(o.attrs['inner'])
        if (plain(it) and lazy(other)) or (lazy(it) and plain(other)):
            # a plain sequence chained with a lazily mapped one: one lazy iterator whose plain part passes through unmapped (RawItem)
            mp, pl, first = (other, it, True) if lazy(other) else (it, other, False)
            raw = [RawItem(x) for x in drain_iter(ex, st, pl)]; mapped = drain_iter(ex, st, mp.attrs['inner'])
            src = Obj('Iter', kind='iter'); src.attrs['src'] = new_vec('Vec', raw + mapped if first else mapped + raw); src.attrs['pos'] = 0; src.attrs['mode'] = 'val'
            o = Obj('Chain', kind='mapiter'); o.attrs['inner'] = src; o.attrs['f'] = mp.attrs['f']
            return [(None, o)]
    if op in ('chain', 'zip'):
        other = ex.deref_val(st, ctx.args[1])
        if not isinstance(other, Obj) or other.kind not in ('iter', 'range'):
            raise MirError(f'{op} with unmodelled iterator {other!r}')
        xs, ys = drain_iter(ex, st, it), drain_iter(ex, st, other)
        o = Obj('Iter', kind='iter'); o.attrs['src'] = new_vec('Vec', xs + ys if op == 'chain' else list(zip(xs, ys))); o.attrs['pos'] = 0; o.attrs['mode'] = 'val'
        return [(None, o)]
    if op in ('take', 'skip'):
        n = z3.simplify(ctx.args[1])
        if not z3.is_bv_value(n):
            raise MirError(f'{op} with symbolic count')
        xs = drain_iter(ex, st, it)
        o = Obj('Iter', kind='iter'); o.attrs['src'] = new_vec('Vec', xs[:n.as_long()] if op == 'take' else xs[n.as_long():]); o.attrs['pos'] = 0; o.attrs['mode'] = 'val'
        return [(None, o)]
    raise MirError('iterator adaptor ' + op)


def drain_iter(ex, st, it, limit=64):
    out = []
    while True:
        x = iter_next(ex, st, it)
        if x is None: return out
        out.append(x)
        if len(out) > limit: raise MirError('iterator too long')


@model(r'as Iterator>::(try_fold|fold|collect|count|sum|all|any|for_each|max|min|last|find|position|try_for_each|unzip|max_by_key|min_by_key|find_map|nth)(::<.*)?$')
def m_iter_consume(ctx):
    ex, st = ctx.ex, ctx.st
    op = re.search(r'>::(\w+)(::<.*)?$', ctx.callee).group(1)
    it = ex.deref_val(st, ctx.args[0])
    if not isinstance(it, Obj) or it.kind not in ('iter', 'mapiter', 'range'):
        raise MirError(f'iterator consumer on {it!r}')
    if it.kind == 'mapiter':
        # evaluate the map closure element by element via continuation, then re-dispatch on the materialised list
        inner = it.attrs['inner']
        if inner.kind == 'mapiter':
            raise MirError('nested lazy iterator adaptors')
        xs = drain_iter(ex, st, inner)
        c = Cont('mapcollect', pending=xs, done=[], f=it.attrs['f'], op=op, callee=ctx.callee, args=ctx.args[1:], dest=ctx.dest, nxt=ctx.nxt, ret_ty=ctx.ret_ty, filter=bool(it.attrs.get('filter')), flat=bool(it.attrs.get('flat')), pred=bool(it.attrs.get('pred')), copy_out=bool(it.attrs.get('copy_out')))
        return _mapcollect_step(ex, st, c, ctx.work)
    xs = drain_iter(ex, st, it)
    return consume_list(ctx, op, xs, ctx.args[1:], ctx.ret_ty, ctx.dest, ctx.nxt)


class RawItem:
    """an element of a lazily mapped iterator that bypasses the map closure (the plain side of a chain)"""
    def __init__(self, v):
        self.v = v


def _mapcollect_step(ex, st, c, work):
    d = c.data
    while d['pending'] and isinstance(d['pending'][0], RawItem):
        d['done'].append(d['pending'].pop(0).v)
    if d['pending']:
        x = d['pending'].pop(0)
        if d.get('pred'):
            d['cur'] = x
            holder = Obj('filter-item', kind='cell'); holder.fields[('*', 0)] = x
            ex.call_closure(st, d['f'], [Ref(('field', holder, ('*', 0, '?')))], d['dest'], d['nxt'], c)
            return PUSHED
        ex.call_closure(st, d['f'], [x], d['dest'], d['nxt'], c)
        return PUSHED
    if d.get('copy_out'):
        d['done'] = [ex.copy_val(ex.deref_val(st, x)) if isinstance(x, Ref) else x for x in d['done']]
    ctx2 = type('C', (), {})()
    ctx2.ex, ctx2.st, ctx2.callee, ctx2.args, ctx2.dest, ctx2.nxt, ctx2.work, ctx2.ret_ty = ex, st, d['callee'], [None] + list(d['args']), d['dest'], d['nxt'], work, d['ret_ty']
    return consume_list(ctx2, d['op'], d['done'], d['args'], d['ret_ty'], d['dest'], d['nxt'])


def _flat_inner_step(ex, st, c, work):
    d = c.data
    if d['pending']:
        x = d['pending'].pop(0)
        ex.call_closure(st, d['f'], [x], d['dest'], d['nxt'], c)
        return PUSHED
    return _mapcollect_step(ex, st, d['parent'], work)


def _resume_flat_inner(ex, st, cont, rv, work):
    cont.data['parent'].data['done'].append(rv)
    return 'model', _flat_inner_step(ex, st, cont, work)


RESUMERS['flatinner'] = _resume_flat_inner


def _resume_mapcollect(ex, st, cont, rv, work):
    if cont.data.get('pred'):
        b = z3.simplify(rv) if z3.is_expr(rv) else rv
        if z3.is_true(b):
            cont.data['done'].append(cont.data['cur'])
        elif not z3.is_false(b):
            raise MirError('filter predicate with a symbolic result (the predicate must fork inside the closure)')
    elif cont.data.get('flat'):
        sub = ex.deref_val(st, rv)
        if isinstance(sub, Obj) and sub.kind in ('iter', 'range'):
            cont.data['done'].extend(drain_iter(ex, st, sub))
        elif isinstance(sub, Obj) and sub.kind == 'mapiter' and not sub.attrs.get('filter') and not sub.attrs.get('flat') and sub.attrs['inner'].kind != 'mapiter':
            c2 = Cont('flatinner', pending=drain_iter(ex, st, sub.attrs['inner']), f=sub.attrs['f'], parent=cont, dest=cont.data['dest'], nxt=cont.data['nxt'])
            return 'model', _flat_inner_step(ex, st, c2, work)
        else:
            raise MirError(f'flat_map closure returned an unmodelled iterator {sub!r}')
    elif cont.data.get('filter'):
        if not isinstance(rv, Obj) or rv.discr not in ('Some', 'None'):
            raise MirError('filter_map closure returned an Option with a symbolic variant')
        if rv.discr == 'Some':
            cont.data['done'].append(rv.fields[('Some', 0)])
    else:
        cont.data['done'].append(rv)
    r = _mapcollect_step(ex, st, cont, work)
    return 'model', r


RESUMERS['mapcollect'] = _resume_mapcollect


def consume_list(ctx, op, xs, extra, ret_ty, dest, nxt):
    ex, st = ctx.ex, ctx.st
    if op == 'count':
        return [(None, z3.BitVecVal(len(xs), 64))]
    if op == '__extend':
        shaped(ex, st, extra[0], 'vec').attrs['items'].extend(xs)
        return [(None, ())]
    if op == '__extend_map':
        mm = shaped(ex, st, extra[0], 'map')
        for it in xs:
            mm.attrs['items'].append((it[0], it[1]) if isinstance(it, tuple) else (it, ()))
        if xs and 'BTree' in mm.ty:
            mm.attrs['unsorted'] = True
        return [(None, ())]
    if op == 'collect' or op == 'unzip':
        return [(None, collect_into(ex, st, xs, ret_ty))]
    if op == 'last':
        return [(None, some(xs[-1]) if xs else none())]
    if op == 'sum':
        if not xs:
            return [(None, default_value(ex, st, ret_ty))]
        acc = ex.deref_val(st, xs[0])
        for x in xs[1:]:
            acc = acc + ex.deref_val(st, x)      # wrapping in release; debug build panics on overflow (not modelled: stated)
        return [(None, acc)]
    if op in ('try_fold', 'fold', 'all', 'any', 'for_each', 'try_for_each', 'find', 'position', 'find_map'):
        c = Cont('fold', op=op, pending=list(xs), acc=extra[0] if op in ('try_fold', 'fold') else None, f=extra[-1], dest=dest, nxt=nxt, ret_ty=ret_ty, idx=0, cur=None)
        return _fold_step(ex, st, c, ctx.work)
    raise MirError('iterator consumer ' + op)


def _fold_step(ex, st, c, work):
    d = c.data; op = d['op']
    if not d['pending']:
        if op == 'try_fold':
            v = wrap_try_output(d['ret_ty'], d['acc'])
        elif op == 'fold': v = d['acc']
        elif op == 'all': v = z3.BoolVal(True)
        elif op == 'any': v = z3.BoolVal(False)
        elif op in ('find', 'position', 'find_map'): v = none()
        elif op == 'try_for_each': v = wrap_try_output(d['ret_ty'], ())
        else: v = ()
        return [(None, v)]
    x = d['pending'].pop(0); d['cur'] = x
    if op in ('try_fold', 'fold'):
        args = [d['acc'], x]
    elif op == 'find':
        h = Obj('tmp', kind='cell'); h.fields[('*', 0)] = x
        args = [Ref(('field', h, ('*', 0, '?')))]
    else:
        args = [x]
    ex.call_closure(st, d['f'], args, d['dest'], d['nxt'], c)
    return PUSHED


def wrap_try_output(ret_ty, v):
    h = type_head(ret_ty).split('::')[-1]
    if h == 'Option': return some(v)
    if h == 'Result': return ok(v)
    if h == 'ControlFlow': return enum('ControlFlow', 'Continue', [v])
    raise MirError('try output type ' + ret_ty)


def _resume_fold(ex, st, cont, rv, work):
    d = cont.data; op = d['op']
    if op == 'fold':
        d['acc'] = rv
        return 'model', _fold_step(ex, st, cont, work)
    if op in ('try_fold', 'try_for_each'):
        # rv is Option/Result/ControlFlow: continue on Some/Ok/Continue, else return it
        if not isinstance(rv, Obj):
            raise MirError('try_fold closure result')
        good = {'Option': 'Some', 'Result': 'Ok', 'ControlFlow': 'Continue'}
        h = type_head(d['ret_ty']).split('::')[-1]
        g = good.get(h)
        bad = {'Option': 'None', 'Result': 'Err', 'ControlFlow': 'Break'}[h]

        def cont_f(s2, r2):
            c2 = s2.tr(cont); c2.data['acc'] = payload(ex, s2, r2, g) if (g, 0) not in r2.fields else r2.fields[(g, 0)]
            return _fold_step(ex, s2, c2, work)
        if not rv.ty or not ex.adts.lookup(rv.ty):
            rv.ty = d['ret_ty']
        return 'model', on_variant(ex, st, rv, {g: cont_f, bad: lambda s2, r2: r2})
    if op in ('all', 'any'):
        c = z3.simplify(rv)
        stop_on = (op == 'any')
        if z3.is_true(c) or z3.is_false(c):
            if z3.is_true(c) == stop_on:
                return 'value', z3.BoolVal(stop_on)
            return 'model', _fold_step(ex, st, cont, work)
        # symbolic predicate: fork
        def go(s2):
            return _fold_step(ex, s2, s2.tr(cont), work)
        hit, miss = (c, z3.Not(c)) if stop_on else (z3.Not(c), c)
        return 'model', [(hit, z3.BoolVal(stop_on)), (miss, go)]
    if op == 'for_each':
        return 'model', _fold_step(ex, st, cont, work)
    if op in ('find', 'position'):
        c = z3.simplify(rv)
        if z3.is_true(c):
            return 'value', some(d['cur'])
        if z3.is_false(c):
            return 'model', _fold_step(ex, st, cont, work)
        return 'model', [(c, (lambda s2: some(s2.tr(d['cur'])))), (z3.Not(c), (lambda s2: _fold_step(ex, s2, s2.tr(cont), work)))]
    raise MirError('resume fold ' + op)


RESUMERS['fold'] = _resume_fold


def collect_into(ex, st, xs, ret_ty):
    h = type_head(ret_ty).split('::')[-1]
    if h in ('Vec', 'VecDeque', 'Box'):
        return new_vec(ret_ty, xs)
    if h in ('HashMap', 'BTreeMap', 'IndexMap'):
        m = new_map(ret_ty)
        for kv in xs:
            if not isinstance(kv, tuple):
                raise MirError('collect into map of non-pairs')
            map_insert_concrete_or_fork(ex, st, m, kv[0], kv[1])
        return m
    if h in ('HashSet', 'BTreeSet', 'IndexSet'):
        m = new_map(ret_ty)
        for k in xs:
            map_insert_concrete_or_fork(ex, st, m, k, ())
        return m
    if h in ('Result', 'Option'):
        inner = generic_args(ret_ty)[0]
        good = 'Ok' if h == 'Result' else 'Some'
        vals = []
        names = ['Ok', 'Err'] if h == 'Result' else ['None', 'Some']
        for x in xs:
            x = ex.deref_val(st, x)
            if isinstance(x, Obj) and not isinstance(x.discr, str) and x.discr is not None:
                d = z3.simplify(x.discr) if z3.is_expr(x.discr) else x.discr
                if z3.is_bv_value(d) and d.as_long() < 2:
                    x.discr = names[d.as_long()]
            if not isinstance(x, Obj) or not isinstance(x.discr, str):
                raise MirError(f'collect into Result with symbolic variants: {x!r} discr={getattr(x, "discr", None)!r}')
            if x.discr != good:
                return x
            vals.append(x.fields[(good, 0)])
        return enum(h, good, [collect_into(ex, st, vals, inner)])
    raise MirError('collect into ' + ret_ty)


def map_insert_concrete_or_fork(ex, st, m, k, v):
    """insert into a modelled map *without forking*: duplicates are represented by conditional shadowing.
    Entries: list of (key, value, live_condition).  Later lookups scan newest-first."""
    m.attrs['items'].append((k, v))


def map_lookup_alts(ex, st, m, key, found, missing):
    """alts for a lookup of `key`: newest entry first"""
    items = m.attrs['items']
    alts, earlier = [], []
    for idx in range(len(items) - 1, -1, -1):
        e = key_eq(ex, st, items[idx][0], key)
        cond = z3.And(e, *[z3.Not(x) for x in earlier]) if earlier else e
        alts.append((cond, (lambda s2, idx=idx: found(s2, idx))))
        earlier.append(e)
    alts.append((z3.And(*[z3.Not(x) for x in earlier]) if earlier else None, missing))
    return alts


def remap(ex, st2):
    """the container object inside a cloned state: re-evaluated from arg0 of the pending call"""
    return shaped(ex, st2, _reeval_arg0(ex, st2))


@model(r'^(std::collections::)?(HashMap|BTreeMap|IndexMap|HashSet|BTreeSet|IndexSet)(?:::<.*>)?::(new|with_capacity|get|get_mut|contains_key|contains|insert|remove|len|is_empty|iter|iter_mut|keys|values|values_mut|clear|entry|first_key_value|last_key_value|pop_first|pop_last|into_keys|into_values|get_key_value|swap_remove|shift_remove|retain|extend|drain|get_index|first|last|with_capacity_and_hasher|default|sort_unstable_keys|sort_keys|split_off|first_entry|last_entry)$')
def m_map(ctx):
    ex, st = ctx.ex, ctx.st
    op = ctx.callee.rsplit('::', 1)[1]
    kind = re.search(r'(HashMap|BTreeMap|IndexMap|HashSet|BTreeSet|IndexSet)', ctx.callee).group(1)
    is_set = kind.endswith('Set')
    if op in ('new', 'with_capacity', 'with_capacity_and_hasher', 'default'):
        return [(None, new_map(ctx.ret_ty))]
    m = shaped(ex, st, ctx.args[0], kind)
    items = m.attrs['items']
    if op == 'len':
        _require_distinct(ex, st, m)
        return [(None, z3.BitVecVal(len(items), 64))]
    if op == 'is_empty':
        return [(None, z3.BoolVal(len(items) == 0))]
    if op == 'clear':
        items.clear(); return [(None, ())]
    if op in ('sort_unstable_keys', 'sort_keys'):
        import itertools
        ks = [ex.deref_val(st, k) for k, _ in items]
        if len(items) <= 1:
            m.attrs['sorted'] = True
            return [(None, ())]
        if len(items) > 4 or not all(z3.is_bv(k) for k in ks):
            raise MirError('sort of a map with more than 4 or non-scalar keys')
        alts = []
        for perm in itertools.permutations(range(len(items))):
            cond = z3.And(*[z3.ULT(ks[perm[i]], ks[perm[i + 1]]) for i in range(len(perm) - 1)])
            def mk(s2, perm=perm):
                mm = s2.tr(m); old = list(mm.attrs['items']); mm.attrs['items'] = [old[i] for i in perm]; mm.attrs['sorted'] = True; mm.attrs.pop('unsorted', None)
                return ()
            alts.append((cond, mk))
        return alts
    if op in ('get', 'get_mut', 'contains_key', 'contains', 'get_key_value'):
        key = ctx.args[1]
        if op in ('contains_key', 'contains'):
            return [(None, z3.Or(*[key_eq(ex, st, k, key) for k, _ in items]) if items else z3.BoolVal(False))]
        def found(s2, idx):
            mm = s2.tr(m)
            return some(Ref(('mapkv', mm, idx, 1)))
        return map_lookup_alts(ex, st, m, key, found, none())
    if op == 'insert':
        key = ctx.args[1]; val = ctx.args[2] if not is_set else ()
        def found(s2, idx):
            mm = s2.tr(m); old = mm.attrs['items'][idx][1]
            mm.attrs['items'][idx] = (mm.attrs['items'][idx][0], s2.tr(val))
            return some(old) if not is_set else z3.BoolVal(False)
        def missing(s2):
            mm = s2.tr(m)
            if kind.startswith('BTree') and mm.attrs['items']:
                mm.attrs['unsorted'] = True      # appended at the end: key order no longer reflected by the list
            mm.attrs['items'].append((s2.tr(key), s2.tr(val)))
            return none() if not is_set else z3.BoolVal(True)
        return map_lookup_alts(ex, st, m, key, found, missing)
    if op in ('remove', 'swap_remove', 'shift_remove'):
        key = ctx.args[1]
        def found(s2, idx):
            mm = s2.tr(m); k, v = mm.attrs['items'].pop(idx)
            return some(v) if not is_set else z3.BoolVal(True)
        return map_lookup_alts(ex, st, m, key, found, none() if not is_set else z3.BoolVal(False))
    if op in ('first_entry', 'last_entry'):
        if not kind.startswith('BTree') or m.attrs.get('unsorted'):
            raise MirError('first_entry on a map without a known key order')
        if not items:
            return [(None, none())]
        idx = 0 if op == 'first_entry' else len(items) - 1
        e = Obj('OccupiedEntry', kind='entry'); e.discr = 'Occupied'; e.attrs['map'] = m; e.attrs['idx'] = idx; e.attrs['key'] = items[idx][0]
        return [(None, some(e))]
    if op == 'split_off':
        if not kind.startswith('BTree') or m.attrs.get('unsorted'):
            raise MirError('split_off on a map without a known key order')
        key = ex.deref_val(st, ctx.args[1])
        if not z3.is_bv(key):
            raise MirError('split_off with a non-scalar key')
        n = len(items); alts = []
        for i in range(n + 1):
            conds = []
            if i > 0: conds.append(z3.ULT(ex.deref_val(st, items[i - 1][0]), key))
            if i < n: conds.append(z3.ULE(key, ex.deref_val(st, items[i][0])))
            def mk(s2, i=i):
                mm = s2.tr(m)
                hi = new_map(mm.ty, mm.attrs['items'][i:]); mm.attrs['items'] = mm.attrs['items'][:i]
                return hi
            alts.append((z3.And(*conds) if conds else None, mk))
        return alts
    if op in ('first_key_value', 'last_key_value', 'pop_first', 'pop_last', 'first', 'last'):
        if kind.startswith('BTree') and m.attrs.get('unsorted'):
            raise MirError('ordered access to a BTreeMap after a symbolic-key insert')
        if not items:
            return [(None, none())]
        i = 0 if 'first' in op else len(items) - 1
        if op.startswith('pop'):
            k_, v_ = items.pop(i); return [(None, some((k_, v_)))]
        if is_set:
            return [(None, some(Ref(('mapkv', m, i, 0))))]
        return [(None, some((Ref(('mapkv', m, i, 0)), Ref(('mapkv', m, i, 1)))))]
    if op in ('iter', 'iter_mut', 'keys', 'values', 'values_mut', 'into_keys', 'into_values', 'drain'):
        if kind.startswith('BTree') and m.attrs.get('unsorted') and len(items) > 1:
            sort_map(ex, st, m)
        it = Obj('Iter', kind='iter'); it.attrs['src'] = m; it.attrs['pos'] = 0
        it.attrs['mode'] = 'ref' if not op.startswith('into_') and op != 'drain' else 'val'
        if 'keys' in op or is_set: it.attrs['sel'] = 'keys'
        if 'values' in op: it.attrs['sel'] = 'values'
        return [(None, it)]
    return None


@model(r'^(std::collections::)?(hash_map::|btree_map::|indexmap::map::)?(HashMap|BTreeMap|IndexMap)(?:::<.*>)?::entry$')
def m_map_entry(ctx):
    ex, st = ctx.ex, ctx.st
    m = shaped(ex, st, ctx.args[0], 'map')
    key = ctx.args[1]
    ety = 'BTreeEntry' if 'BTreeMap' in ctx.callee else 'Entry'      # std::collections::btree_map::Entry declares Vacant first, hash_map / indexmap Occupied first

    def occ(s2, idx):
        e = Obj(ety, kind='entry'); e.discr = 'Occupied'; e.attrs['map'] = s2.tr(m); e.attrs['idx'] = idx; e.attrs['key'] = s2.tr(key)
        i = Obj('OccupiedEntry', kind='entry'); i.discr = 'Occupied'; i.attrs = dict(e.attrs); e.fields[('Occupied', 0)] = i
        return e

    def vac(s2):
        e = Obj(ety, kind='entry'); e.discr = 'Vacant'; e.attrs['map'] = s2.tr(m); e.attrs['idx'] = None; e.attrs['key'] = s2.tr(key)
        i = Obj('VacantEntry', kind='entry'); i.discr = 'Vacant'; i.attrs = dict(e.attrs); e.fields[('Vacant', 0)] = i
        return e
    return map_lookup_alts(ex, st, m, key, occ, vac)


@model(r'(OccupiedEntry|VacantEntry)(?:::<.*>)?::(into_mut|get|get_mut|insert|key|remove|into_key)$')
def m_entry_inner(ctx):
    ex, st = ctx.ex, ctx.st
    kind, op = re.search(r'(OccupiedEntry|VacantEntry)(?:::<.*>)?::(\w+)$', ctx.callee).groups()
    e = ex.deref_val(st, ctx.args[0])
    if not isinstance(e, Obj) or e.kind != 'entry':
        raise MirError(f'entry op on {e!r}')
    mp = e.attrs['map']
    if kind == 'VacantEntry':
        if op == 'insert':
            mp.attrs['items'].append((e.attrs['key'], ctx.args[1]))
            if mp.ty.startswith('BTree') or 'BTreeMap' in mp.ty: mp.attrs['unsorted'] = True
            return [(None, Ref(('mapkv', mp, len(mp.attrs['items']) - 1, 1)))]
        if op in ('key', 'into_key'):
            if op == 'into_key':
                return [(None, e.attrs['key'])]
            h = Obj('tmp', kind='cell'); h.fields[('*', 0)] = e.attrs['key']
            return [(None, Ref(('field', h, ('*', 0, '?'))))]
    else:
        idx = e.attrs['idx']
        if op in ('into_mut', 'get', 'get_mut'):
            return [(None, Ref(('mapkv', mp, idx, 1)))]
        if op == 'key':
            return [(None, Ref(('mapkv', mp, idx, 0)))]
        if op == 'insert':
            old = mp.attrs['items'][idx][1]
            mp.attrs['items'][idx] = (mp.attrs['items'][idx][0], ctx.args[1])
            return [(None, old)]
        if op == 'remove':
            old = mp.attrs['items'].pop(idx)[1]
            return [(None, old)]
    raise MirError(f'{kind}::{op}')


@model(r'Entry<.*>::(and_modify|or_insert|or_default|or_insert_with|or_insert_with_key|key)(::<.*>)?$|Entry::(and_modify|or_insert|or_default|or_insert_with)(::<.*>)?$')
def m_entry_ops(ctx):
    ex, st = ctx.ex, ctx.st
    op = re.search(r'::(and_modify|or_insert_with_key|or_insert_with|or_insert|or_default|key)(::<.*>)?$', ctx.callee).group(1)
    e = ex.deref_val(st, ctx.args[0])
    if not isinstance(e, Obj) or e.kind != 'entry':
        raise MirError(f'Entry op on {e!r}')
    mp = e.attrs['map']
    if op == 'and_modify':
        if e.discr == 'Occupied':
            ex.call_closure(st, ctx.args[1], [Ref(('mapkv', mp, e.attrs['idx'], 1))], ctx.dest, ctx.nxt, Cont('wrap', mode='discard', orig=e))
            return PUSHED
        return [(None, e)]
    if op in ('or_insert', 'or_default'):
        if e.discr == 'Vacant':
            val = ctx.args[1] if op == 'or_insert' else default_value(ex, st, re.sub(r"^&('\w+ )?mut ", '', ctx.ret_ty.strip()))
            mp.attrs['items'].append((e.attrs['key'], val)); e.attrs['idx'] = len(mp.attrs['items']) - 1; e.discr = 'Occupied'
        return [(None, Ref(('mapkv', mp, e.attrs['idx'], 1)))]
    if op == 'or_insert_with':
        if e.discr == 'Vacant':
            ex.call_closure(st, ctx.args[1], [], ctx.dest, ctx.nxt, Cont('entry_insert', entry=e))
            return PUSHED
        return [(None, Ref(('mapkv', mp, e.attrs['idx'], 1)))]
    raise MirError('Entry::' + op)


def _resume_entry_insert(ex, st, cont, rv, work):
    e = cont.data['entry']; mp = e.attrs['map']
    mp.attrs['items'].append((e.attrs['key'], rv)); e.attrs['idx'] = len(mp.attrs['items']) - 1; e.discr = 'Occupied'
    return 'value', Ref(('mapkv', mp, e.attrs['idx'], 1))


RESUMERS['entry_insert'] = _resume_entry_insert


def _require_distinct(ex, st, m):
    ks = [k for k, _ in m.attrs['items']]
    for i in range(len(ks)):
        for j in range(i + 1, len(ks)):
            if ex.feasible(st.pc, key_eq(ex, st, ks[i], ks[j])):
                raise MirError('map len with possibly-equal keys (collect with duplicates)')


def sort_map(ex, st, m):
    raise MirError('ordered iteration over BTreeMap with symbolic keys needs an explicit order (use obligation-provided sorted shape)')


# a Ref into a map entry
def _patch_engine_locs():
    from . import engine as E
    old_read, old_write = E.Engine.read, E.Engine.write

    def read(self, st, loc, ty='?'):
        if loc[0] == 'mapkv':
            return loc[1].attrs['items'][loc[2]][loc[3]]
        return old_read(self, st, loc, ty)

    def write(self, st, loc, v):
        if loc[0] == 'mapkv':
            e = list(loc[1].attrs['items'][loc[2]]); e[loc[3]] = v; loc[1].attrs['items'][loc[2]] = tuple(e); return
        return old_write(self, st, loc, v)
    E.Engine.read, E.Engine.write = read, write


_patch_engine_locs()


@model(r'^<(std::collections::)?(HashMap|BTreeMap|IndexMap|HashSet|BTreeSet|IndexSet)<.*> as Extend<.*>>::extend(::<.*>)?$')
def m_map_extend(ctx):
    """extend from a shaped container / iterator with concrete shape: entries are appended (lookups scan newest-first, so duplicates shadow;
    len() on possibly-equal keys raises, as for insert)"""
    ex, st = ctx.ex, ctx.st
    m = shaped(ex, st, ctx.args[0], 'map')
    src = ex.deref_val(st, ctx.args[1])
    if isinstance(src, Obj) and src.kind == 'mapiter' and src.attrs['inner'].kind != 'mapiter':
        xs = drain_iter(ex, st, src.attrs['inner'])
        c = Cont('mapcollect', pending=xs, done=[], f=src.attrs['f'], op='__extend_map', callee=ctx.callee, args=[ctx.args[0]], dest=ctx.dest, nxt=ctx.nxt, ret_ty=ctx.ret_ty,
                 filter=bool(src.attrs.get('filter')), flat=bool(src.attrs.get('flat')))
        return _mapcollect_step(ex, st, c, ctx.work)
    if isinstance(src, Obj) and src.kind == 'iter':
        src = src.attrs.get('src') if src.attrs.get('pos', 0) == 0 and not src.attrs.get('fn') else None
    if not isinstance(src, Obj) or 'items' not in src.attrs:
        raise MirError(f'extend from unshaped source {src!r}')
    is_set = 'Set' in type_head(m.ty)
    for it in src.attrs['items']:
        if isinstance(it, tuple):
            m.attrs['items'].append((it[0], it[1]))
        else:
            m.attrs['items'].append((it, ()))
    if src.attrs['items'] and 'BTree' in m.ty:
        m.attrs['unsorted'] = True
    return [(None, ())]


@model(r'^core::bool::<impl bool>::then_some(::<.*>)?$')
def m_bool_then_some(ctx):
    c = ctx.ex.deref_val(ctx.st, ctx.args[0])
    v = ctx.args[1]
    if z3.is_bv(c):
        c = c != 0
    return [(c, (lambda s2: some(s2.tr(v)))), (z3.Not(c), none())]


@model(r'^<(std::vec::|alloc::vec::)?Vec<.*> as Extend<.*>>::extend(::<.*>)?$')
def m_vec_extend(ctx):
    ex, st = ctx.ex, ctx.st
    v = shaped(ex, st, ctx.args[0], 'vec')
    src = ex.deref_val(st, ctx.args[1])
    if isinstance(src, Obj) and src.kind == 'mapiter':
        xs = drain_iter(ex, st, src.attrs['inner'])
        c = Cont('mapcollect', pending=xs, done=[], f=src.attrs['f'], op='__extend', callee=ctx.callee, args=[ctx.args[0]], dest=ctx.dest, nxt=ctx.nxt, ret_ty=ctx.ret_ty)
        return _mapcollect_step(ex, st, c, ctx.work)
    if isinstance(src, Obj) and src.kind == 'iter':
        if src.attrs.get('fn') or src.attrs.get('mode') not in ('val', None):
            raise MirError('Vec::extend from a lazy iterator')
        items = src.attrs['src'].attrs['items'][src.attrs.get('pos', 0):]
    elif isinstance(src, Obj) and 'items' in src.attrs and src.kind == 'vec':
        items = src.attrs['items']
    else:
        raise MirError(f'Vec::extend from unshaped source {src!r}')
    v.attrs['items'].extend(items)
    return [(None, ())]


@model(r'^Box::<\[.*; \d+\]>::new_uninit$')
def m_box_new_uninit(ctx):
    """`vec![a, b]` lowering: Box::<[T; N]>::new_uninit(), a raw write of the array through the box pointer, box_assume_init_into_vec_unsafe"""
    holder = Obj('MaybeUninit-holder', kind='cell'); holder.fields[('*', 0)] = Obj('std::mem::MaybeUninit')
    ptr = Ref(('field', holder, ('*', 0, 'std::mem::MaybeUninit')))
    nn = Obj('std::ptr::NonNull'); nn.fields[(None, 0)] = ptr
    un = Obj('std::ptr::Unique'); un.fields[(None, 0)] = ptr
    b = Obj('Box<MaybeUninit>'); b.fields[(None, 0)] = un; b.attrs['uninit_holder'] = holder
    return [(None, b)]


@model(r'^std::boxed::box_assume_init_into_vec_unsafe::<')
def m_box_assume_init_into_vec(ctx):
    ex, st = ctx.ex, ctx.st
    b = ex.deref_val(st, ctx.args[0])
    holder = b.attrs.get('uninit_holder') if isinstance(b, Obj) else None
    if holder is None:
        raise MirError('box_assume_init_into_vec_unsafe on an unknown box')
    mu = holder.fields[('*', 0)]
    try:
        arr = mu.fields[(None, 1)].fields[(None, 0)].fields[(None, 0)]
    except (KeyError, AttributeError):
        raise MirError('uninitialised box turned into a Vec')
    arr = ex.deref_val(st, arr)
    if not isinstance(arr, Obj) or 'items' not in arr.attrs:
        raise MirError(f'box contents are not an array: {arr!r}')
    return [(None, new_vec(ctx.ret_ty, list(arr.attrs['items'])))]


@model(r'^(std|core)::cmp::(max|min)::<(u8|u16|u32|u64|u128|usize|i8|i16|i32|i64|i128|isize)>$')
def m_cmp_max_min(ctx):
    op, ty = re.search(r'cmp::(max|min)::<(\w+)>$', ctx.callee).groups()
    a, b = (ctx.ex.deref_val(ctx.st, x) for x in ctx.args[:2])
    signed = ty.startswith('i')
    gt = (a > b) if signed else z3.UGT(a, b)
    return [(None, z3.If(gt, a, b) if op == 'max' else z3.If(gt, b, a))]


@model(r'^<(std::option::|core::option::)?Option<(u8|u16|u32|u64|u128|usize|i8|i16|i32|i64|i128|isize)> as (std::cmp::|core::cmp::)?PartialOrd>::(lt|le|gt|ge)$')
def m_option_int_cmp(ctx):
    """derived ordering on Option<int>: None < Some(_), Some(a) vs Some(b) by value"""
    ex, st = ctx.ex, ctx.st
    ty, op = re.search(r'Option<(\w+)> as .*PartialOrd>::(\w+)$', ctx.callee).groups()
    signed = ty.startswith('i')

    def parts(v):
        o = ex.deref_val(st, v)
        if not isinstance(o, Obj):
            raise MirError(f'Option comparison on {o!r}')
        if isinstance(o.discr, str):
            pres = z3.BoolVal(o.discr == 'Some')
        else:
            pres = ex.discr_value(st, o) == 1
        val = ex.deref_val(st, o.fields[('Some', 0)]) if ('Some', 0) in o.fields else z3.BitVecVal(0, INT_TY[ty])
        return pres, val
    (pa, va), (pb, vb) = parts(ctx.args[0]), parts(ctx.args[1])
    lt = (va < vb) if signed else z3.ULT(va, vb)
    a_lt_b = z3.Or(z3.And(z3.Not(pa), pb), z3.And(pa, pb, lt))
    eq = z3.Or(z3.And(z3.Not(pa), z3.Not(pb)), z3.And(pa, pb, va == vb))
    r = {'lt': a_lt_b, 'le': z3.Or(a_lt_b, eq), 'gt': z3.Not(z3.Or(a_lt_b, eq)), 'ge': z3.Not(a_lt_b)}[op]
    return [(None, r)]


@model(r'^(std|core)::mem::size_of::<(.+)>$')
def m_size_of(ctx):
    """size_of::<T>() for integer types, byte arrays, and workspace structs made only of byte arrays / u8 (alignment 1, so no padding): read from the source"""
    ex = ctx.ex
    ty = re.match(r'^(?:std|core)::mem::size_of::<(.+)>$', ctx.callee).group(1).strip()
    n = _size_of_type(ex, ty)
    if n is None:
        raise MirError(f'size_of::<{ty}> is not modelled (layout unknown)')
    return [(None, z3.BitVecVal(n, 64))]


def _size_of_type(ex, ty, depth=0):
    ty = ty.strip()
    if ty in INT_TY:
        return INT_TY[ty] // 8
    m = re.match(r'^\[(.+); (\d+)(?:_usize)?\]$', ty)
    if m:
        inner = _size_of_type(ex, m.group(1), depth + 1)
        return None if inner is None else inner * int(m.group(2))
    if depth > 2:
        return None
    import subprocess
    from vlib import snap
    name = type_head(ty).split('::')[-1]
    r = subprocess.run(['grep', '-rlE', rf'struct {name}(<[^>{{]*>)? *\{{', snap.REPO + '/crates', '--include=*.rs'], capture_output=True, text=True)
    files = [f for f in r.stdout.strip().split('\n') if f]
    if len(files) != 1:
        return None
    src = open(files[0]).read()
    mm = re.search(rf'struct {name}(?:<[^>{{]*>)? *\{{(.*?)\n\}}', src, re.S)
    if not mm:
        return None
    total = 0
    for line in mm.group(1).split('\n'):
        line = line.split('//')[0].strip()
        if not line or line.startswith('#'):
            continue
        fm = re.match(r'^(?:pub(?:\([^)]*\))? )?\w+: (.+?),?$', line)
        if not fm:
            return None
        fty = fm.group(1).strip()
        if not re.match(r'^(u8|\[u8; \d+\])$', fty):       # only alignment-1 fields: anything else could introduce padding
            return None
        total += _size_of_type(ex, fty, depth + 1)
    return total


@model(r'^<\{closure@[^}]*\} as (FnOnce|FnMut|Fn)<\(.*\)>>::(call_once|call_mut|call)$')
def m_closure_call(ctx):
    """explicit call through the Fn* traits (e.g. the closure #[instrument] wraps around a sync fn body): `call_once(closure, (args,))`"""
    ex, st = ctx.ex, ctx.st
    args = ctx.args[1] if len(ctx.args) > 1 else ()
    args = list(args) if isinstance(args, tuple) else [args]
    ex.call_closure(st, ctx.args[0], args, ctx.dest, ctx.nxt)
    return PUSHED
