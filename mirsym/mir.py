"""Parser for rustc `-Zunpretty=mir` text: functions, locals, basic blocks, places, operands, rvalues, terminators."""
import functools, hashlib, os, re

FN_RE = re.compile(r'^fn (.+?)\((.*)\) -> (.+) \{$')
FN_RE_UNIT = re.compile(r'^fn (.+?)\((.*)\) \{$')
INT_TY = {'u8': 8, 'u16': 16, 'u32': 32, 'u64': 64, 'u128': 128, 'usize': 64, 'i8': 8, 'i16': 16, 'i32': 32, 'i64': 64, 'i128': 128, 'isize': 64, 'char': 32}
SIGNED = {'i8', 'i16', 'i32', 'i64', 'i128', 'isize'}


class MirError(Exception):
    """unknown construct -> obligation is inconclusive"""


def split_top(s, sep=','):
    out, depth, cur, i, instr = [], 0, [], 0, False
    n = len(s)
    while i < n:
        c = s[i]
        if instr:
            cur.append(c)
            if c == '\\':
                cur.append(s[i + 1]); i += 1
            elif c == '"':
                instr = False
        elif c == '"':
            instr = True; cur.append(c)
        elif c in '([{':
            depth += 1; cur.append(c)
        elif c in ')]}':
            depth -= 1; cur.append(c)
        elif c == '<' and not (i + 1 < n and s[i + 1] in ' ='):
            depth += 1; cur.append(c)
        elif c == '>' and not (i > 0 and s[i - 1] in '-= '):
            depth -= 1; cur.append(c)
        elif c == sep and depth == 0:
            out.append(''.join(cur).strip()); cur = []
        else:
            cur.append(c)
        i += 1
    t = ''.join(cur).strip()
    if t:
        out.append(t)
    return out


class Fn:
    __slots__ = ('name', 'sig', 'ret', 'lines', 'crate', 'blocks', 'types', 'params', 'ptypes', 'debug', 'parsed', '_hash')

    def __init__(self, name, sig, ret, crate):
        self.name, self.sig, self.ret, self.crate = name, sig, ret, crate
        self.lines = []
        self.parsed = False
        self._hash = None

    def __deepcopy__(self, memo):
        return self

    def hash(self):
        if self._hash is None:
            self._hash = hashlib.sha256('\n'.join(self.lines).encode()).hexdigest()[:16]
        return self._hash

    def parse(self):
        if self.parsed:
            return self
        blocks, cur, self.debug, self.types = {}, None, {}, {}
        for line in self.lines:
            s = line.strip()
            if cur is None:
                m = re.match(r'^(bb\d+)( \(cleanup\))?: \{$', s)
                if m:
                    cur = m.group(1); blocks[cur] = []; continue
                m = re.match(r'^let (mut )?(_\d+): (.+);$', s)
                if m:
                    self.types[m.group(2)] = m.group(3); continue
                m = re.match(r'^debug (\S+) => (.+);$', s)
                if m:
                    self.debug.setdefault(m.group(1), m.group(2))
                continue
            if s == '}':
                cur = None; continue
            if s:
                blocks[cur].append(s[:-1] if s.endswith(';') else s)
        self.blocks = blocks
        parts = split_top(self.sig) if self.sig.strip() else []
        self.params = [p.split(':', 1)[0].strip() for p in parts]
        self.ptypes = [p.split(':', 1)[1].strip() for p in parts]
        for p, t in zip(self.params, self.ptypes):
            self.types[p] = t
        self.types['_0'] = self.ret
        self.parsed = True
        return self


def load_functions(path, crate):
    fns, cur = {}, None
    with open(path) as f:
        for line in f:
            if line.startswith('fn '):
                line = line.rstrip('\n')
                m = FN_RE.match(line)
                cur = None
                if m:
                    cur = Fn(m.group(1), m.group(2), m.group(3), crate)
                else:
                    m = FN_RE_UNIT.match(line)
                    if m:
                        cur = Fn(m.group(1), m.group(2), '()', crate)
                if cur is not None:
                    fns.setdefault(cur.name, cur)
                    if fns[cur.name] is not cur:      # promoted/duplicate names: keep the first, number the rest
                        k = 1
                        while f'{cur.name}#{k}' in fns:
                            k += 1
                        cur.name = f'{cur.name}#{k}'; fns[cur.name] = cur
            elif line.startswith('const ') and line.rstrip().endswith('= {'):
                m = re.match(r'^const (.+): (.+?) = \{$', line.rstrip('\n'))
                cur = None
                if m:
                    cur = Fn(m.group(1), '', m.group(2), crate)
                    fns.setdefault(cur.name, cur)
            elif line.startswith('}'):
                cur = None
            elif cur is not None:
                cur.lines.append(line.rstrip('\n'))
    return fns


# ---------------------------------------------------------------- places / operands
@functools.lru_cache(maxsize=None)
def parse_place(s):
    s = s.strip()
    if re.match(r'^_\d+$', s):
        return ('local', s)
    if s.startswith('(*') and s.endswith(')') and _balanced(s[2:-1]):
        return ('deref', parse_place(s[2:-1]))
    if s.endswith(']'):
        # index / constant index / subslice
        j = _match_open(s, len(s) - 1, '[', ']')
        base, idx = s[:j], s[j + 1:-1]
        if base:
            m = re.match(r'^(\d+) of (\d+)$', idx)
            if m:
                return ('cindex', parse_place(base), int(m.group(1)), False)
            m = re.match(r'^-(\d+) of (\d+)$', idx)
            if m:
                return ('cindex', parse_place(base), int(m.group(1)), True)
            m = re.match(r'^(\d+):(-?\d*)$', idx)
            if m:
                return ('subslice', parse_place(base), int(m.group(1)), m.group(2))
            return ('index', parse_place(base), idx.strip())
    if s.startswith('(') and s.endswith(')'):
        inner = s[1:-1]
        depth = 0
        for i in range(len(inner)):
            c = inner[i]
            if c in '([{' or (c == '<' and inner[i + 1:i + 2] not in (' ', '=')):
                depth += 1
            elif c in ')]}' or (c == '>' and inner[i - 1] not in '-= '):
                depth -= 1
            elif c == ':' and depth == 0 and inner[i:i + 2] == ': ' and inner[i - 1].isdigit():
                base_idx, ty = inner[:i], inner[i + 2:]
                j = base_idx.rfind('.')
                return ('field', parse_place(base_idx[:j]), int(base_idx[j + 1:]), ty)
        m = re.match(r'^(.*) as ([\w#]+)$', inner)
        if m:
            return ('downcast', parse_place(m.group(1)), m.group(2))
        m = re.match(r'^(.*) as variant#(\d+)$', inner)
        if m:
            return ('downcast', parse_place(m.group(1)), int(m.group(2)))
    raise MirError('place? ' + s)


def _balanced(s):
    d = 0
    for c in s:
        if c in '([':
            d += 1
        elif c in ')]':
            d -= 1
            if d < 0:
                return False
    return d == 0


def _match_open(s, j, o, c):
    depth = 0
    while j >= 0:
        if s[j] == c:
            depth += 1
        elif s[j] == o:
            depth -= 1
            if depth == 0:
                return j
        j -= 1
    raise MirError('unbalanced ' + s)


@functools.lru_cache(maxsize=None)
def parse_operand(s):
    s = s.strip()
    if s.startswith('copy '):
        return ('copy', parse_place(s[5:]))
    if s.startswith('move '):
        return ('move', parse_place(s[5:]))
    if s.startswith('const '):
        return ('const', s[6:])
    if (re.match(r'^[\w<]', s) and '::' in s) or re.match(r'^[a-zA-Z_]\w*$', s):
        return ('fnitem', s)
    raise MirError('operand? ' + s)


BINOPS = {'Add', 'Sub', 'Mul', 'Div', 'Rem', 'BitAnd', 'BitOr', 'BitXor', 'Shl', 'Shr', 'Eq', 'Ne', 'Lt', 'Le', 'Gt', 'Ge', 'Cmp', 'Offset',
          'AddWithOverflow', 'SubWithOverflow', 'MulWithOverflow', 'AddUnchecked', 'SubUnchecked', 'MulUnchecked', 'ShlUnchecked', 'ShrUnchecked'}
UNOPS = {'Not', 'Neg', 'PtrMetadata'}


def _find_assign(s):
    depth = 0
    for i, ch in enumerate(s):
        if ch in '([{' or (ch == '<' and s[i + 1:i + 2] not in (' ', '=')):
            depth += 1
        elif ch in ')]}' or (ch == '>' and s[i - 1] not in '-= '):
            depth -= 1
        elif depth == 0 and s[i:i + 3] == ' = ':
            return i
    return None


@functools.lru_cache(maxsize=None)
def parse_stmt(s):
    if s.startswith(('StorageLive', 'StorageDead', 'FakeRead', 'PlaceMention', 'AscribeUserType', 'Retag', 'Coverage', 'BackwardIncompatibleDropHint')) or s in ('nop', 'ConstEvalCounter'):
        return ('nop',)
    m = re.match(r'^discriminant\((.+)\) = (\d+)$', s)
    if m:
        return ('setdiscr', parse_place(m.group(1)), int(m.group(2)))
    m = re.match(r'^Deinit\((.+)\)$', s)
    if m:
        return ('nop',)
    m = re.match(r'^assume\((.+)\)$', s)
    if m:
        return ('assume', parse_operand(m.group(1)))
    cut = _find_assign(s)
    if cut is None:
        raise MirError('stmt? ' + s)
    return ('assign', parse_place(s[:cut]), parse_rvalue(s[cut + 3:]))


@functools.lru_cache(maxsize=None)
def parse_rvalue(r):
    r = r.strip()
    if r.startswith('no_retag '):
        r = r[9:]
    if r.startswith(('copy ', 'move ', 'const ')):
        m = re.match(r'^((?:copy|move|const) .+) as (.+?) \((\w+)(\(.*\))?\)$', r)
        if m:
            return ('cast', parse_operand(m.group(1)), m.group(2), m.group(3), m.group(4) or '')
        return ('use', parse_operand(r))
    m = re.match(r'^&(mut |raw const |raw mut |fake shallow |fake deep )?(.+)$', r)
    if m and not r.startswith('&&'):
        return ('ref', parse_place(m.group(2)), (m.group(1) or '').strip())
    m = re.match(r'^(\w+)\((.+)\)$', r)
    if m and m.group(1) in BINOPS:
        a, b = split_top(m.group(2))
        return ('binop', m.group(1), parse_operand(a), parse_operand(b))
    if m and m.group(1) in UNOPS:
        return ('unop', m.group(1), parse_operand(m.group(2)))
    if m and m.group(1) == 'discriminant':
        return ('discr', parse_place(m.group(2)))
    if m and m.group(1) in ('Len',):
        return ('len', parse_place(m.group(2)))
    if m and m.group(1) == 'CopyForDeref':
        return ('use', ('copy', parse_place(m.group(2))))
    if m and m.group(1) == 'ShallowInitBox':
        return ('use', parse_operand(split_top(m.group(2))[0]))
    m = re.match(r'^\{(coroutine|closure|async block|async closure|async fn body)@(.+?)( \(#\d+\))?\}( \{ (.*) \})?$', r)
    if m:
        caps = []
        if m.group(5):
            for part in split_top(m.group(5)):
                name, op = part.split(': ', 1)
                caps.append((name, parse_operand(op)))
        return ('closure', m.group(1), m.group(2), tuple(caps))
    m = re.match(r'^\{async fn body of (.+?)\}( \{ (.*) \})?$', r)
    if m:
        caps = []
        if m.group(3):
            for part in split_top(m.group(3)):
                name, op = part.split(': ', 1)
                caps.append((name, parse_operand(op)))
        return ('closure', 'asyncfn', m.group(1), tuple(caps))
    if r == '()':
        return ('tuple', ())
    if r.startswith('(') and r.endswith(')') and _match_open(r, len(r) - 1, '(', ')') == 0:
        return ('tuple', tuple(parse_operand(x) for x in split_top(r[1:-1])))
    if r.startswith('[') and r.endswith(']'):
        inner = r[1:-1]
        parts = split_top(inner, ';')
        if len(parts) == 2 and not parts[0].count(',') or (len(parts) == 2 and len(split_top(inner)) == 1):
            return ('repeat', parse_operand(parts[0]), parts[1].strip())
        return ('array', tuple(parse_operand(x) for x in split_top(inner)))
    # ADT aggregates: Path { f: op, .. } | Path(op, ..) | Path (unit)
    if r.endswith('}'):
        j = _match_open(r, len(r) - 1, '{', '}')
        path, body = r[:j].strip(), r[j + 1:-1].strip()
        fields = []
        for part in split_top(body):
            name, op = part.split(': ', 1)
            fields.append((name.strip(), parse_operand(op)))
        return ('adt', path, tuple(fields), 'named')
    if r.endswith(')'):
        j = _match_open(r, len(r) - 1, '(', ')')
        path, body = r[:j].strip(), r[j + 1:-1]
        if re.match(r'^[\w:<>,\s&\'\[\];\(\)\{\}@/\.\-#+=\*]+$', path) and path:
            return ('adt', path, tuple((str(i), parse_operand(x)) for i, x in enumerate(split_top(body))), 'tuple')
    if re.match(r'^[\w:<>,\s&\'\[\];\(\)\{\}@/\.\-#+=\*]+$', r):
        return ('adt', r, (), 'unit')
    raise MirError('rvalue? ' + r)


def strip_generics(path):
    """remove all <...> groups from a path (keeping `<impl at ..>` and `<T as Trait>` heads intact is the caller's job)"""
    out, depth = [], 0
    for i, c in enumerate(path):
        if c == '<' and path[i + 1:i + 2] not in (' ', '='):
            depth += 1
        elif c == '>' and path[i - 1] not in '-= ' and depth > 0:
            depth -= 1
            continue
        if depth == 0:
            out.append(c)
    return ''.join(out).replace('::::', '::').rstrip(':')


@functools.lru_cache(maxsize=None)
def parse_term(t):
    if t == 'return':
        return ('return',)
    if t in ('unreachable',):
        return ('unreachable',)
    if t in ('resume', 'unwind terminate', 'terminate(abi)', 'terminate(cleanup)') or t.startswith(('resume', 'terminate')):
        return ('resume',)
    m = re.match(r'^goto -> (bb\d+)$', t)
    if m:
        return ('goto', m.group(1))
    m = re.match(r'^drop\((.*)\) -> \[return: (bb\d+)', t)
    if m:
        return ('drop', m.group(1), m.group(2))
    m = re.match(r'^falseEdge -> \[real: (bb\d+)', t) or re.match(r'^falseUnwind -> \[real: (bb\d+)', t)
    if m:
        return ('goto', m.group(1))
    m = re.match(r'^assert\((!?)(.+?), (".*)\) -> \[success: (bb\d+)', t)
    if m:
        return ('assert', m.group(1) == '!', parse_operand(m.group(2)), m.group(3)[:80], m.group(4))
    m = re.match(r'^switchInt\((.+)\) -> \[(.+)\]$', t)
    if m:
        arms, other = [], None
        for a in m.group(2).split(', '):
            k, tb = a.split(': ')
            if k == 'otherwise':
                other = tb
            else:
                arms.append((int(k), tb))
        return ('switch', parse_operand(m.group(1)), tuple(arms), other)
    m = re.match(r'^(.+?) = (.+) -> \[return: (bb\d+).*$', t) or re.match(r'^(.+?) = (.+) -> (unwind .*)$', t)
    if m:
        callexpr = m.group(2)
        if not callexpr.endswith(')'):
            raise MirError('call? ' + t)
        j = _match_open(callexpr, len(callexpr) - 1, '(', ')')
        callee, argstr = callexpr[:j], callexpr[j + 1:-1]
        nxt = m.group(3) if m.group(3).startswith('bb') else None
        args = tuple(parse_operand(a) for a in split_top(argstr)) if argstr.strip() else ()
        return ('call', parse_place(m.group(1)), callee, args, nxt)
    m = re.match(r'^yield\(', t)
    if m:
        raise MirError('yield terminator (coroutine not lowered): ' + t)
    raise MirError('terminator? ' + t)


# ---------------------------------------------------------------- impl headers from source spans
class ImplIndex:
    """maps `<impl at FILE:L:C: L2:C2>` to (trait-or-None, self type name) by reading the impl header / derive target in the source tree."""

    def __init__(self, repo):
        self.repo = repo
        self.cache = {}
        self.files = {}
        self.trait_args = {}
        self.self_text = {}

    def _lines(self, f):
        if f not in self.files:
            p = f if os.path.isabs(f) else os.path.join(self.repo, f)
            try:
                self.files[f] = open(p).read().split('\n')
            except OSError:
                self.files[f] = None
        return self.files[f]

    def info(self, span):
        if span in self.cache:
            return self.cache[span]
        r = (None, None)
        m = re.match(r'^(.+?):(\d+):(\d+): (\d+):(\d+)$', span)
        if m:
            lines = self._lines(m.group(1))
            if lines:
                l1, c1, l2, c2 = (int(m.group(i)) for i in (2, 3, 4, 5))
                text = ' '.join(x.strip() for x in (lines[l1 - 1:l2])).strip()
                first = lines[l1 - 1][c1 - 1:]
                if first.lstrip().startswith(('impl', 'unsafe impl')):
                    hdr = ' '.join((first + ' ' + ' '.join(lines[l1:l2])).split())
                    hdr = re.sub(r'^(unsafe )?impl(<[^{]*?>)? ', '', hdr, count=1) if not re.match(r'^(unsafe )?impl<', hdr) else _strip_impl_generics(hdr)
                    hdr = hdr.split('{')[0].split(' where ')[0].strip()
                    if ' for ' in hdr:
                        tr, ty = hdr.split(' for ', 1)
                        r = (_last_seg(tr), _last_seg(ty))
                        self.trait_args[span] = _norm_arg(tr[tr.index('<') + 1:tr.rindex('>')]) if '<' in tr and '>' in tr else ''
                        self.self_text[span] = _norm_arg(ty)
                    else:
                        r = (None, _last_seg(hdr))
                else:
                    # derive: trait name is the spanned token, the type is the next struct/enum declaration
                    tr = first[:c2 - c1] if l1 == l2 else first.split(',')[0]
                    ty = None
                    for ln in lines[l1 - 1:l1 + 40]:
                        mm = re.match(r'^\s*(pub(\([\w:\s]+\))? )?(struct|enum|union) (\w+)', ln)
                        if mm:
                            ty = mm.group(4); break
                    r = (_last_seg(tr), ty)
        self.cache[span] = r
        return r


def _norm_arg(t):
    """normalise a type argument for impl selection: drop lifetimes and paths, keep reference-ness"""
    t = re.sub(r"'\w+\s*", '', t.strip())
    t = re.sub(r'&\s*(mut\s+)?', '&', t)
    ref = '&' if t.startswith('&') else ''
    return ref + strip_generics(t.lstrip('&')).split('::')[-1].strip()


def _strip_impl_generics(hdr):
    i = hdr.index('<'); depth = 0
    for j in range(i, len(hdr)):
        if hdr[j] == '<':
            depth += 1
        elif hdr[j] == '>' and hdr[j - 1] != '-':
            depth -= 1
            if depth == 0:
                return hdr[j + 1:].strip()
    return hdr


def _last_seg(t):
    t = strip_generics(t.strip()).strip().lstrip('&').strip()
    t = re.sub(r"^'\w+ ", '', t)
    t = re.sub(r'^(mut|dyn) ', '', t)
    return t.split('::')[-1].strip()
